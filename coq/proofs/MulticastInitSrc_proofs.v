(* Multicast.__init__ / _initialize / startup as emitted from their SOURCE TEXT (gen/GenMulticastInitFn.v) against the
   hand-written model (model/Multicast.v): the table scan is [scan] / the [Init] operation for every table and every
   sequence of read statuses; start-up is [Init] followed by one [Subscribe] per group of every endpoint other than 0,
   in order, until one of them raises. *)
From Coq Require Import NArith PeanoNat List Bool Lia.
Import ListNotations.
Require Import BV.gen.GenStatus BV.model.Status BV.model.Multicast BV.gen.GenMulticastFn BV.gen.GenMulticastInitFn.
Require Import BV.proofs.Multicast_proofs BV.proofs.MulticastSrc_proofs.
Open Scope N_scope.

(* ---- the NCP as the model sees it, as oracles of the emitted functions ------------------------------------------- *)

(* the table-size read is answered with status [ss] and the length of the table *)
Definition size_answer (cfg : N -> option (N * N)) (id ss : N) (t : list (N * N)) : Prop :=
  cfg id = Some (ss, N.of_nat (length t)).

(* the read of index j is answered with the j-th status of [rs] (0 when [rs] is shorter, as [scan] reads it) and the
   j-th entry of the table *)
Definition reads_table (rd : N -> option (N * (N * N))) (t : list (N * N)) (rs : list N) : Prop :=
  forall j, (j < length t)%nat -> rd (N.of_nat j) = Some (nth j rs 0, nth j t (0, 0)).

(* ---- __init__ ---------------------------------------------------------------------------------------------------- *)
Lemma src_init : py_init = ([], []).
Proof. reflexivity. Qed.

(* ---- _initialize ------------------------------------------------------------------------------------------------- *)

(* one entry read: unreadable -> nothing recorded; endpoint 0 -> the index is free; any other endpoint byte -> the
   entry's group is recorded with the index *)
Lemma src_scan_entry : forall rd s a i status g ep,
  rd i = Some (status, (g, ep)) ->
  py_initialize_loop1 rd (s, a, Running) i =
    if status_ok status then
      if ep =? 0 then (s, set_add i a, Running) else (dict_set g i s, a, Running)
    else (s, a, Running).
Proof.
  intros rd s a i status g ep H. unfold py_initialize_loop1. rewrite H.
  destruct (status_ok status); cbn [negb]; [destruct (ep =? 0); cbn [negb]|]; reflexivity.
Qed.

Lemma src_scan_entry_in_use : forall rd s a i status g ep,
  rd i = Some (status, (g, ep)) -> status_ok status = true -> ep <> 0 ->
  py_initialize_loop1 rd (s, a, Running) i = (dict_set g i s, a, Running).
Proof.
  intros rd s a i status g ep H Hs Hep. rewrite (src_scan_entry _ _ _ _ _ _ _ H), Hs.
  apply N.eqb_neq in Hep. rewrite Hep. reflexivity.
Qed.

Lemma src_scan_entry_free : forall rd s a i status g,
  rd i = Some (status, (g, 0)) -> status_ok status = true ->
  py_initialize_loop1 rd (s, a, Running) i = (s, set_add i a, Running).
Proof. intros rd s a i status g H Hs. rewrite (src_scan_entry _ _ _ _ _ _ _ H), Hs. reflexivity. Qed.

Lemma src_scan_entry_unreadable : forall rd s a i status e,
  rd i = Some (status, e) -> status_ok status = false ->
  py_initialize_loop1 rd (s, a, Running) i = (s, a, Running).
Proof. intros rd s a i status [g ep] H Hs. rewrite (src_scan_entry _ _ _ _ _ _ _ H), Hs. reflexivity. Qed.

Lemma src_scan_fold : forall es rd i rs s a,
  (forall j, (j < length es)%nat -> rd (i + N.of_nat j) = Some (nth j rs 0, nth j es (0, 0))) ->
  fold_left (py_initialize_loop1 rd) (map N.of_nat (seq (N.to_nat i) (length es))) (s, a, Running)
  = (fst (scan i es rs s a), snd (scan i es rs s a), Running).
Proof.
  induction es as [|[g ep] es IH]; intros rd i rs s a H.
  - reflexivity.
  - cbn [length seq map fold_left]. rewrite N2Nat.id.
    assert (H0 : rd i = Some (hd 0 rs, (g, ep))).
    { specialize (H 0%nat ltac:(cbn [length]; lia)). cbn [nth N.of_nat] in H. rewrite N.add_0_r in H.
      rewrite H. destruct rs; reflexivity. }
    rewrite (src_scan_entry _ _ _ _ _ _ _ H0).
    replace (S (N.to_nat i)) with (N.to_nat (i + 1)) by lia.
    assert (Hn : forall j, (j < length es)%nat -> rd (i + 1 + N.of_nat j) = Some (nth j (tl rs) 0, nth j es (0, 0))).
    { intros j Hj. specialize (H (S j) ltac:(cbn [length]; lia)). cbn [nth] in H.
      replace (i + 1 + N.of_nat j) with (i + N.of_nat (S j)) by lia. rewrite H.
      destruct rs as [|r rs]; [destruct j|]; reflexivity. }
    cbn [scan].
    destruct (status_ok (hd 0 rs)); [destruct (ep =? 0)|]; apply IH; exact Hn.
Qed.

Lemma src_initialize : forall st ss rs cfg rd,
  size_answer cfg 6 ss (ncp st) -> reads_table rd (ncp st) rs ->
  let '(s', av', r) := py_initialize (subs st) (avail st) cfg rd in
  let '(st', r', w') := step st (Init ss rs) in
  subs st' = s' /\ avail st' = av' /\ r' = r /\ w' = None /\ ncp st' = ncp st.
Proof.
  intros st ss rs cfg rd Hc Hr. unfold py_initialize, size_answer in *.
  change py_EzspConfigId_CONFIG_MULTICAST_TABLE_SIZE with 6. rewrite Hc. cbn [step].
  destruct (status_ok ss); cbn [negb].
  - unfold py_range. rewrite Nat2N.id, Nat.sub_0_r.
    rewrite (src_scan_fold (ncp st) rd 0 rs [] []) by (intros j Hj; rewrite N.add_0_l; apply Hr; exact Hj).
    destruct (scan 0 (ncp st) rs [] []) as [s a]. cbn [fst snd subs avail ncp]. repeat split; reflexivity.
  - cbn [subs avail ncp]. repeat split; reflexivity.
Qed.

(* the same in equational form: the emitted function in terms of the model's scan *)
Lemma src_initialize_eq : forall s0 a0 t ss rs cfg rd,
  size_answer cfg 6 ss t -> reads_table rd t rs ->
  py_initialize s0 a0 cfg rd =
    (subs (st_of (step {| subs := s0; avail := a0; ncp := t |} (Init ss rs))),
     avail (st_of (step {| subs := s0; avail := a0; ncp := t |} (Init ss rs))), RStatus 0).
Proof.
  intros s0 a0 t ss rs cfg rd Hc Hr. unfold py_initialize, size_answer, st_of in *.
  change py_EzspConfigId_CONFIG_MULTICAST_TABLE_SIZE with 6. rewrite Hc. cbn [step ncp].
  destruct (status_ok ss); cbn [negb].
  - unfold py_range. rewrite Nat2N.id, Nat.sub_0_r.
    rewrite (src_scan_fold t rd 0 rs [] []) by (intros j Hj; rewrite N.add_0_l; apply Hr; exact Hj).
    destruct (scan 0 t rs [] []) as [s a]. reflexivity.
  - reflexivity.
Qed.

(* a read that raises (command timeout) leaves the coroutine: nothing is reported but the exception *)
Lemma src_initialize_size_read_raises : forall s0 a0 cfg rd,
  cfg 6 = None -> py_initialize s0 a0 cfg rd = ([], [], RRaised).
Proof. intros s0 a0 cfg rd H. unfold py_initialize. change py_EzspConfigId_CONFIG_MULTICAST_TABLE_SIZE with 6. rewrite H. reflexivity. Qed.

(* ---- start-up ---------------------------------------------------------------------------------------------------- *)

(* the groups start-up subscribes to, in call order: those of every endpoint other than 0 *)
Definition startup_groups (coordinator : list (N * list N)) : list N :=
  flat_map (fun item => if fst item =? 0 then [] else snd item) coordinator.

(* model side: (state, subscribe calls made, table writes issued, outcome so far); a call that raises ends start-up *)
Definition sub_step (o : N -> N * answer) (x : mstate * N * list (N * N * N) * ret) (g : N)
  : mstate * N * list (N * N * N) * ret :=
  let '(st, k, ws, r) := x in
  match r with
  | RRaised => x
  | RStatus _ =>
      let '(st', r', w) := step st (Subscribe g (fst (o k)) (snd (o k))) in
      (st', k + 1, ws ++ py_opt_list w, match r' with RRaised => RRaised | RStatus _ => RStatus 0 end)
  end.

Definition after_init (st : mstate) (ss : N) (rs : list N) : mstate * N * list (N * N * N) * ret :=
  (st_of (step st (Init ss rs)), 0, [], RStatus 0).

Definition model_startup (st : mstate) (ss : N) (rs : list N) (coordinator : list (N * list N)) (o : N -> N * answer)
  : mstate * N * list (N * N * N) * ret :=
  fold_left (sub_step o) (startup_groups coordinator) (after_init st ss rs).

(* the oracle's choice is what set.pop() returns: whenever the free set is consulted and is not empty, the element named
   by the oracle is in it (the model's [pick] falls back to the head of its list otherwise, which is not an observable) *)
Definition pops (c : N) (a : list N) : Prop := forall i, pick c a = Some i -> i = c.

Fixpoint choices_ok (o : N -> N * answer) (x : mstate * N * list (N * N * N) * ret) (gs : list N) : Prop :=
  match gs with
  | [] => True
  | g :: gs' =>
      (let '(st, k, _, r) := x in
       r <> RRaised -> lookup g (subs st) = None -> pops (fst (o k)) (avail st))
      /\ choices_ok o (sub_step o x g) gs'
  end.

Lemma choices_ok_app : forall o a b x,
  choices_ok o x (a ++ b) <-> choices_ok o x a /\ choices_ok o (fold_left (sub_step o) a x) b.
Proof.
  intros o a. induction a as [|g a IH]; intros b x; cbn [app choices_ok fold_left].
  - tauto.
  - rewrite IH. tauto.
Qed.

(* -- sets of free indices ------------------------------------------------------------------------------------------ *)
Lemma mem_false_notin i l : mem i l = false <-> ~ In i l.
Proof. rewrite <- mem_true_iff. destruct (mem i l); split; intro H; try reflexivity; try discriminate; exfalso; apply H; reflexivity. Qed.

Lemma remove_idx_incl i l x : In x (remove_idx i l) -> In x l.
Proof.
  induction l as [|y l IH]; cbn [remove_idx]; [tauto|]. destruct (y =? i).
  - intro H. right. exact H.
  - cbn [In]. intros [H|H]; [left; exact H | right; apply IH; exact H].
Qed.

Lemma NoDup_remove_idx i l : NoDup l -> NoDup (remove_idx i l).
Proof.
  induction l as [|y l IH]; cbn [remove_idx]; intro H; [constructor|]. inversion H as [|? ? Hn Hd]; subst.
  destruct (y =? i); [exact Hd|]. constructor; [|apply IH; exact Hd].
  intro Hin. apply Hn. exact (remove_idx_incl _ _ _ Hin).
Qed.

Lemma mem_remove_self i l : NoDup l -> mem i (remove_idx i l) = false.
Proof.
  induction l as [|y l IH]; cbn [remove_idx]; intro H; [reflexivity|]. inversion H as [|? ? Hn Hd]; subst.
  destruct (y =? i) eqn:E.
  - apply N.eqb_eq in E. subst y. apply mem_false_notin. exact Hn.
  - cbn [mem]. rewrite E, (IH Hd). reflexivity.
Qed.

Lemma NoDup_set_add i l : NoDup l -> NoDup (set_add i l).
Proof.
  intro H. unfold set_add. destruct (mem i l) eqn:E; [exact H|].
  apply mem_false_notin in E. clear -H E. induction l as [|y l IH]; cbn [app].
  - constructor; [intros []|constructor].
  - inversion H as [|? ? Hn Hd]; subst. constructor.
    + rewrite in_app_iff. intros [Hin|[Hin|[]]]; [exact (Hn Hin)|]. subst. apply E. left. reflexivity.
    + apply IH; [exact Hd|]. intro Hin. apply E. right. exact Hin.
Qed.

Lemma scan_nodup : forall es i rs s a, NoDup a -> NoDup (snd (scan i es rs s a)).
Proof.
  induction es as [|[g ep] es IH]; intros i rs s a H; cbn [scan]; [exact H|].
  destruct (status_ok (hd 0 rs)); [destruct (ep =? 0)|]; apply IH; try exact H. apply NoDup_set_add. exact H.
Qed.

Lemma seteq_nil a : seteq a [] -> a = [].
Proof. destruct a as [|h a]; [reflexivity|]. intro H. specialize (H h). cbn [mem] in H. rewrite N.eqb_refl in H. discriminate. Qed.

Lemma seteq_sym a b : seteq a b -> seteq b a.
Proof. intros H i. symmetry. apply H. Qed.

Lemma seteq_trans a b c : seteq a b -> seteq b c -> seteq a c.
Proof. intros H1 H2 i. rewrite H1. apply H2. Qed.

Lemma seteq_remove i a b : NoDup a -> NoDup b -> seteq a b -> seteq (remove_idx i a) (remove_idx i b).
Proof.
  intros Ha Hb H j. destruct (N.eq_dec i j) as [<-|Hij].
  - rewrite (mem_remove_self i a Ha), (mem_remove_self i b Hb). reflexivity.
  - rewrite (mem_remove_other i j a Hij), (mem_remove_other i j b Hij). apply H.
Qed.

(* with a valid choice the pop gives the same element on two lists holding the same set *)
Lemma pick_seteq c a b : seteq a b -> pops c a -> pick c b = pick c a /\ (forall i, pick c a = Some i -> i = c).
Proof.
  intros H Hp. split; [|exact Hp]. destruct a as [|h a].
  - apply seteq_sym, seteq_nil in H. subst b. reflexivity.
  - assert (Hc : mem c (h :: a) = true).
    { specialize (Hp _ eq_refl). destruct (mem c (h :: a)) eqn:E; [reflexivity|]. subst h. cbn [mem] in E. rewrite N.eqb_refl in E. discriminate. }
    cbn [pick]. rewrite Hc. destruct b as [|h' b]; [specialize (H c); rewrite Hc in H; discriminate|].
    cbn [pick]. rewrite <- (H c), Hc. reflexivity.
Qed.

(* -- the simulation ------------------------------------------------------------------------------------------------ *)
Definition sim (st : mstate) (s : list (N * N)) (av : list N) : Prop :=
  subs st = s /\ seteq (avail st) av /\ NoDup (avail st) /\ NoDup av.

Lemma sim_subscribe : forall st s av g c a s' av' r w st' r' w',
  sim st s av -> (lookup g (subs st) = None -> pops c (avail st)) ->
  py_subscribe s av g c a = (s', av', r, w) -> step st (Subscribe g c a) = (st', r', w') ->
  sim st' s' av' /\ r' = r /\ w' = w.
Proof.
  intros st s av g c a s' av' r w st' r' w' (Hs & He & Hn & Hn') Hp Hpy Hst. subst s.
  unfold py_subscribe in Hpy. cbn [step] in Hst.
  destruct (lookup g (subs st)) as [i0|].
  - injection Hpy as <- <- <- <-. injection Hst as <- <- <-. repeat split; assumption.
  - destruct (pick_seteq c _ _ He (Hp eq_refl)) as [Hpk _]. rewrite Hpk in Hpy.
    destruct (pick c (avail st)) as [i|] eqn:Hpi.
    + assert (Hback : seteq (avail st) (set_add i (remove_idx i av))).
      { eapply seteq_trans; [exact He|]. apply (pop_add_back c). rewrite Hpk. reflexivity. }
      assert (Hnb : NoDup (set_add i (remove_idx i av))) by (apply NoDup_set_add, NoDup_remove_idx; exact Hn').
      destruct a as [sa| |].
      * destruct (status_ok sa); cbn [negb] in Hpy; injection Hpy as <- <- <- <-; injection Hst as <- <- <-;
          unfold sim; cbn [subs avail]; repeat split; try assumption.
        -- apply seteq_remove; assumption.
        -- apply NoDup_remove_idx; assumption.
        -- apply NoDup_remove_idx; assumption.
      * injection Hpy as <- <- <- <-; injection Hst as <- <- <-. repeat split; assumption.
      * injection Hpy as <- <- <- <-; injection Hst as <- <- <-. unfold sim; cbn [subs avail]. repeat split; assumption.
    + injection Hpy as <- <- <- <-. injection Hst as <- <- <-. repeat split; assumption.
Qed.

(* model fold state against source fold state *)
Definition rel (x : mstate * N * list (N * N * N) * ret) (y : list (N * N) * list N * N * list (N * N * N) * py_ctl) : Prop :=
  let '(st, k, ws, r) := x in
  let '(s, av, k', ws', c) := y in
  sim st s av /\ k = k' /\ ws = ws' /\ ((r = RStatus 0 /\ c = Running) \/ (r = RRaised /\ c = Raised)).

Lemma sub_step_raised : forall o gs st k ws, fold_left (sub_step o) gs (st, k, ws, RRaised) = (st, k, ws, RRaised).
Proof. intros o gs. induction gs as [|g gs IH]; intros; cbn [fold_left sub_step]; [reflexivity|apply IH]. Qed.

Lemma loop2_raised : forall o gs s av k ws,
  fold_left (py_startup_loop2 o) gs (s, av, k, ws, Raised) = (s, av, k, ws, Raised).
Proof. intros o gs. induction gs as [|g gs IH]; intros; cbn [fold_left py_startup_loop2]; [reflexivity|apply IH]. Qed.

Lemma rel_inner_step : forall o x y g,
  rel x y ->
  (let '(st, k, _, r) := x in r <> RRaised -> lookup g (subs st) = None -> pops (fst (o k)) (avail st)) ->
  rel (sub_step o x g) (py_startup_loop2 o y g).
Proof.
  intros o [[[st k] ws] r] [[[[s av] k'] ws'] c] g (Hsim & <- & <- & Hc) Hv.
  destruct Hc as [[-> ->]|[-> ->]].
  - cbn [sub_step py_startup_loop2]. destruct (o k) as [ch a] eqn:Ho. cbn [fst snd] in *.
    destruct (py_subscribe s av g ch a) as [[[s1 av1] r1] w1] eqn:Hpy.
    destruct (step st (Subscribe g ch a)) as [[st1 r1'] w1'] eqn:Hst.
    destruct (sim_subscribe _ _ _ _ _ _ _ _ _ _ _ _ _ Hsim (Hv ltac:(discriminate)) Hpy Hst) as (Hsim1 & -> & ->).
    destruct r1; cbn [rel]; (split; [exact Hsim1|]); (split; [reflexivity|]); (split; [reflexivity|]); [left|right]; split; reflexivity.
  - cbn [sub_step py_startup_loop2 rel]. (split; [exact Hsim|]); (split; [reflexivity|]); (split; [reflexivity|]). right. split; reflexivity.
Qed.

Lemma rel_inner_fold : forall o gs x y,
  rel x y -> choices_ok o x gs -> rel (fold_left (sub_step o) gs x) (fold_left (py_startup_loop2 o) gs y).
Proof.
  intros o gs. induction gs as [|g gs IH]; intros x y H Hc; cbn [fold_left]; [exact H|].
  destruct Hc as [Hg Hc]. apply IH; [apply rel_inner_step; assumption | exact Hc].
Qed.

Lemma rel_outer_step : forall o x y item,
  rel x y -> choices_ok o x (if fst item =? 0 then [] else snd item) ->
  rel (fold_left (sub_step o) (if fst item =? 0 then [] else snd item) x) (py_startup_loop1 o y item).
Proof.
  intros o x [[[[s av] k'] ws'] c] [ep_id ep] H Hc. cbn [fst snd] in *. destruct c.
  - unfold py_startup_loop1. destruct (ep_id =? 0); [exact H|].
    pose proof (rel_inner_fold o ep x _ H Hc) as Hr.
    destruct (fold_left (py_startup_loop2 o) ep (s, av, k', ws', Running)) as [[[[s1 av1] k1] ws1] c1].
    destruct c1; exact Hr.
  - destruct x as [[[st k] ws] r]. destruct H as (Hsim & <- & <- & [[_ Hx]|[-> _]]); [discriminate|].
    rewrite sub_step_raised. cbn [py_startup_loop1 rel]. (split; [exact Hsim|]); (split; [reflexivity|]); (split; [reflexivity|]). right. split; reflexivity.
Qed.

Lemma rel_outer_fold : forall o coordinator x y,
  rel x y -> choices_ok o x (startup_groups coordinator) ->
  rel (fold_left (sub_step o) (startup_groups coordinator) x) (fold_left (py_startup_loop1 o) coordinator y).
Proof.
  intros o coordinator. induction coordinator as [|item co IH]; intros x y H Hc; [exact H|].
  unfold startup_groups in *. cbn [flat_map fold_left] in *. rewrite fold_left_app.
  apply choices_ok_app in Hc. destruct Hc as [Hc1 Hc2].
  apply IH; [apply rel_outer_step; assumption | exact Hc2].
Qed.

Lemma src_startup : forall st ss rs coordinator cfg rd o,
  size_answer cfg 6 ss (ncp st) -> reads_table rd (ncp st) rs ->
  choices_ok o (after_init st ss rs) (startup_groups coordinator) ->
  let '(s', av', k, ws, r) := py_startup (subs st) (avail st) coordinator cfg rd o in
  let '(st', k', ws', r') := model_startup st ss rs coordinator o in
  subs st' = s' /\ seteq (avail st') av' /\ k' = k /\ ws' = ws /\ r' = r.
Proof.
  intros st ss rs coordinator cfg rd o Hc Hr Hv. unfold py_startup, model_startup.
  destruct st as [s0 a0 t]. cbn [subs avail ncp] in *.
  rewrite (src_initialize_eq s0 a0 t ss rs cfg rd Hc Hr).
  set (st1 := st_of (step {| subs := s0; avail := a0; ncp := t |} (Init ss rs))) in *.
  assert (Hn1 : NoDup (avail st1)).
  { subst st1. unfold st_of. cbn [step ncp]. destruct (status_ok ss); [|cbn [fst avail]; constructor].
    pose proof (scan_nodup t 0 rs [] [] (NoDup_nil N)) as Hn. destruct (scan 0 t rs [] []); exact Hn. }
  assert (H0 : rel (after_init {| subs := s0; avail := a0; ncp := t |} ss rs) (subs st1, avail st1, 0, [], Running)).
  { unfold after_init. fold st1. cbn [rel]. split; [|split; [reflexivity|split; [reflexivity|left; split; reflexivity]]].
    unfold sim. split; [reflexivity|split; [apply seteq_refl|split; exact Hn1]]. }
  pose proof (rel_outer_fold o coordinator _ _ H0 Hv) as H.
  destruct (fold_left (py_startup_loop1 o) coordinator (subs st1, avail st1, 0, [], Running)) as [[[[s' av'] k] ws] c].
  destruct (fold_left (sub_step o) (startup_groups coordinator) (after_init {| subs := s0; avail := a0; ncp := t |} ss rs)) as [[[st' k'] ws'] r'].
  destruct H as ((Hs & He & _ & _) & Hk & Hw & [[-> ->]|[-> ->]]); repeat split; assumption || reflexivity.
Qed.

(* start-up is a run of the model's operations: [Init], then subscribe calls only *)
Lemma sub_step_run : forall o gs st k ws r, r <> RRaised ->
  exists ops, Forall is_call ops /\ (length ops <= length gs)%nat /\
    fst (fst (fst (fold_left (sub_step o) gs (st, k, ws, r)))) = run st ops.
Proof.
  intros o gs. induction gs as [|g gs IH]; intros st k ws r Hr.
  - exists []. repeat split; [constructor | cbn; lia].
  - cbn [fold_left sub_step]. destruct r as [sr|]; [|contradiction].
    destruct (step st (Subscribe g (fst (o k)) (snd (o k)))) as [[st1 r1] w1] eqn:E. destruct r1 as [s1|].
    + destruct (IH st1 (k + 1) (ws ++ py_opt_list w1) (RStatus 0) ltac:(discriminate)) as (ops & Hf & Hl & Hrun).
      exists (Subscribe g (fst (o k)) (snd (o k)) :: ops). repeat split.
      * constructor; [exact I | exact Hf].
      * cbn [length]. lia.
      * cbn [run]. unfold st_of. rewrite E. cbn [fst]. exact Hrun.
    + rewrite sub_step_raised. exists [Subscribe g (fst (o k)) (snd (o k))]. repeat split.
      * constructor; [exact I | constructor].
      * cbn [length]. lia.
      * cbn [run fst]. unfold st_of. rewrite E. reflexivity.
Qed.

Lemma startup_is_run : forall st ss rs coordinator o,
  exists ops, Forall is_call ops /\
    fst (fst (fst (model_startup st ss rs coordinator o))) = run st (Init ss rs :: ops).
Proof.
  intros st ss rs coordinator o. unfold model_startup, after_init.
  destruct (sub_step_run o (startup_groups coordinator) (st_of (step st (Init ss rs))) 0 [] (RStatus 0) ltac:(discriminate))
    as (ops & Hf & _ & Hrun).
  exists ops. split; [exact Hf|]. cbn [run]. exact Hrun.
Qed.

(* hence start-up on an admissible, readable table leaves every index free or used by exactly one group, whatever the
   table writes are answered *)
Lemma startup_partition : forall t ss rs coordinator o,
  distinct_groups t -> status_ok ss = true -> Forall (fun r => status_ok r = true) rs ->
  let st := fst (fst (fst (model_startup {| subs := []; avail := []; ncp := t |} ss rs coordinator o))) in
  wf st /\ full_partition st.
Proof.
  intros t ss rs coordinator o Hd Hs Hr.
  destruct (startup_is_run {| subs := []; avail := []; ncp := t |} ss rs coordinator o) as (ops & Hf & Hrun).
  cbv zeta. rewrite Hrun. destruct (reachable t ss rs ops Hd Hs Hr Hf) as (Hw & Hp & _). split; assumption.
Qed.
