(* C17 proofs: operations completed by an NCP event (model/Events.v). *)
From Coq Require Import ZArith NArith List Bool.
Import ListNotations.
Require Import BV.model.Events.
Open Scope N_scope.

Definition efinal (es : list evt) : estate := fst (erun e_init es).
Definition eouts (es : list evt) : list eout := concat (snd (erun e_init es)).
Definition idle (st : estate) : Prop := active st = None /\ listeners st = [] /\ scan_cbs st = 0.

Definition items_of (l : list cbframe) : list Z :=
  flat_map (fun c => match c with CItem r => [r] | _ => [] end) l.

(* ---- erun ---------------------------------------------------------------------------------------- *)

Lemma erun_cons : forall st e es,
  erun st (e :: es) = (fst (erun (fst (estep st e)) es), snd (estep st e) :: snd (erun (fst (estep st e)) es)).
Proof.
  intros st e es. cbn [erun]. destruct (estep st e) as [st1 o]. cbn [fst snd].
  destruct (erun st1 es) as [st2 os]. reflexivity.
Qed.

Lemma erun_nil : forall st, erun st [] = (st, []).
Proof. reflexivity. Qed.

(* ---- notify -------------------------------------------------------------------------------------- *)

Lemma notify_map_fst : forall s ls, map fst (fst (notify s ls)) = map fst ls.
Proof.
  intros s ls. induction ls as [|[s' p] ls IH]; cbn [notify].
  - reflexivity.
  - destruct (s' =? s).
    + destruct p.
      * destruct (notify s ls) as [r hit]. cbn [fst map] in *. f_equal. exact IH.
      * reflexivity.
    + destruct (notify s ls) as [r hit]. cbn [fst map] in *. f_equal. exact IH.
Qed.

Lemma notify_hit_in : forall s ls, snd (notify s ls) = true -> In s (map fst ls).
Proof.
  intros s ls. induction ls as [|[s' p] ls IH]; cbn [notify]; intro Hhit.
  - discriminate Hhit.
  - destruct (s' =? s) eqn:E.
    + apply N.eqb_eq in E. left. exact E.
    + destruct (notify s ls) as [r hit]. cbn [snd] in *. right. exact (IH Hhit).
Qed.

(* ---- handle_cb: what a callback frame cannot change ------------------------------------------------- *)

Lemma handle_cb_active : forall st c, active (handle_cb st c) = active st.
Proof.
  intros st c. destruct c as [s|r|ok]; cbn [handle_cb].
  - destruct (notify s (listeners st)) as [ls hit]. reflexivity.
  - destruct (0 <? scan_cbs st); reflexivity.
  - destruct ((0 <? scan_cbs st) && negb (event_seen st)); reflexivity.
Qed.

Lemma handle_cb_scan_cbs : forall st c, scan_cbs (handle_cb st c) = scan_cbs st.
Proof.
  intros st c. destruct c as [s|r|ok]; cbn [handle_cb].
  - destruct (notify s (listeners st)) as [ls hit]. reflexivity.
  - destruct (0 <? scan_cbs st); reflexivity.
  - destruct ((0 <? scan_cbs st) && negb (event_seen st)); reflexivity.
Qed.

Lemma handle_cb_listeners : forall st c, map fst (listeners (handle_cb st c)) = map fst (listeners st).
Proof.
  intros st c. destruct c as [s|r|ok]; cbn [handle_cb].
  - pose proof (notify_map_fst s (listeners st)) as H.
    destruct (notify s (listeners st)) as [ls hit]. exact H.
  - destruct (0 <? scan_cbs st); reflexivity.
  - destruct ((0 <? scan_cbs st) && negb (event_seen st)); reflexivity.
Qed.

Lemma handle_cb_seen : forall st c, scan_cbs st = 0 -> event_seen (handle_cb st c) = true ->
  event_seen st = true \/ exists s, c = CStatus s /\ In s (map fst (listeners st)).
Proof.
  intros st c Hcbs Hseen. destruct c as [s|r|ok]; cbn [handle_cb] in Hseen.
  - pose proof (notify_hit_in s (listeners st)) as H.
    destruct (notify s (listeners st)) as [ls hit]. cbn [event_seen snd] in *.
    apply orb_true_iff in Hseen. destruct Hseen as [Hs|Hh].
    + left. exact Hs.
    + right. exists s. split; [reflexivity | exact (H Hh)].
  - rewrite Hcbs in Hseen. left. exact Hseen.
  - rewrite Hcbs in Hseen. left. exact Hseen.
Qed.

Lemma fold_active : forall l st, active (fold_left handle_cb l st) = active st.
Proof.
  induction l as [|c l IH]; intro st; cbn [fold_left].
  - reflexivity.
  - rewrite IH. apply handle_cb_active.
Qed.

Lemma fold_scan_cbs : forall l st, scan_cbs (fold_left handle_cb l st) = scan_cbs st.
Proof.
  induction l as [|c l IH]; intro st; cbn [fold_left].
  - reflexivity.
  - rewrite IH. apply handle_cb_scan_cbs.
Qed.

Lemma fold_listeners : forall l st, map fst (listeners (fold_left handle_cb l st)) = map fst (listeners st).
Proof.
  induction l as [|c l IH]; intro st; cbn [fold_left].
  - reflexivity.
  - rewrite IH. apply handle_cb_listeners.
Qed.

Lemma fold_seen : forall l st, scan_cbs st = 0 -> event_seen (fold_left handle_cb l st) = true ->
  event_seen st = true \/ exists s, In (CStatus s) l /\ In s (map fst (listeners st)).
Proof.
  induction l as [|c l IH]; intros st Hcbs Hseen; cbn [fold_left] in Hseen.
  - left. exact Hseen.
  - apply IH in Hseen; [| rewrite handle_cb_scan_cbs; exact Hcbs].
    destruct Hseen as [Hs | [s [Hin Hls]]].
    + apply handle_cb_seen in Hs; [| exact Hcbs].
      destruct Hs as [Hs | [s [Hc Hls]]].
      * left. exact Hs.
      * right. exists s. split; [left; exact Hc | exact Hls].
    + right. exists s. split; [right; exact Hin |].
      rewrite handle_cb_listeners in Hls. exact Hls.
Qed.

Lemma filter_map_fst_in : forall (s : N) (ls : list (N * bool)),
  In s (map fst (filter (fun x => snd x) ls)) -> In s (map fst ls).
Proof.
  intros s ls Hin. apply in_map_iff in Hin. destruct Hin as [x [Hx Hf]].
  apply filter_In in Hf. destruct Hf as [Hf _]. apply in_map_iff. exists x. split; assumption.
Qed.

(* ---- settle / finish ------------------------------------------------------------------------------- *)

Lemma finish_idle : forall st k o, idle (fst (finish st k o)).
Proof. intros st k o. unfold idle. cbn. repeat split. Qed.

Lemma settle_cases : forall st,
  settle st = (st, []) \/
  exists k o, active st = Some (k, StEvent) /\ event_seen st = true /\ settle st = finish st k o.
Proof.
  intro st. unfold settle. destruct (active st) as [[k stg]|].
  - destruct stg.
    + left. reflexivity.
    + destruct (event_seen st).
      * right. destruct k.
        -- exists OForm, (DoneOk []). repeat split.
        -- exists OLeave, (DoneOk []). repeat split.
        -- exists OBringup, (DoneOk []). repeat split.
        -- destruct (completion_ok st).
           ++ exists OScan, (DoneOk (items st)). repeat split.
           ++ exists OScan, DoneScanFailed. repeat split.
      * left. reflexivity.
  - left. reflexivity.
Qed.

(* ---- an idle state without a new EStart: nothing happens ------------------------------------------------ *)

Lemma idle_step : forall st e, idle st -> (forall k, e <> EStart k) ->
  snd (estep st e) = [] /\ idle (fst (estep st e)).
Proof.
  intros st e [Hact [Hls Hcbs]] Hne. destruct e as [k|ok nj|l| |]; cbn [estep].
  - exfalso. exact (Hne k eq_refl).
  - rewrite Hact. cbn [fst snd]. split; [reflexivity | repeat split; assumption].
  - set (st1 := fold_left handle_cb l st).
    assert (Ha : active st1 = None) by (unfold st1; rewrite fold_active; exact Hact).
    assert (Hc : scan_cbs st1 = 0) by (unfold st1; rewrite fold_scan_cbs; exact Hcbs).
    assert (Hl : listeners st1 = []).
    { apply map_eq_nil with (f := @fst N bool). unfold st1. rewrite fold_listeners, Hls. reflexivity. }
    unfold settle. cbn [active]. rewrite Ha. cbn [fst snd]. split; [reflexivity |].
    unfold idle. cbn [active listeners scan_cbs]. rewrite Hl. cbn [filter]. repeat split; assumption.
  - rewrite Hact. cbn [fst snd]. split; [reflexivity | repeat split; assumption].
  - rewrite Hact. cbn [fst snd]. split; [reflexivity | repeat split; assumption].
Qed.

Lemma idle_run : forall body st, idle st -> (forall k, ~ In (EStart k) body) ->
  concat (snd (erun st body)) = [] /\ idle (fst (erun st body)).
Proof.
  induction body as [|e body IH]; intros st Hidle Hno.
  - cbn. split; [reflexivity | exact Hidle].
  - rewrite erun_cons. cbn [fst snd concat].
    assert (Hne : forall k, e <> EStart k).
    { intros k Heq. apply (Hno k). left. exact Heq. }
    destruct (idle_step st e Hidle Hne) as [Ho Hi].
    assert (Hno' : forall k, ~ In (EStart k) body).
    { intros k Hin. apply (Hno k). right. exact Hin. }
    destruct (IH (fst (estep st e)) Hi Hno') as [Ho' Hi'].
    rewrite Ho, Ho'. split; [reflexivity | exact Hi'].
Qed.

(* ---- the invariant of one running operation ------------------------------------------------------------ *)

Definition accepted (h : list evt) : Prop := exists nj, In (EReply true nj) h.
Definition matched (k : opkind) (h : list evt) : Prop :=
  exists l, In (ECallbacks l) h /\ In (CStatus (wanted k)) l.

Definition opinv (k : opkind) (pre : list evt) (st : estate) : Prop :=
  exists stg, active st = Some (k, stg) /\
    (stg = StEvent -> accepted pre) /\
    (k <> OScan ->
       scan_cbs st = 0 /\
       (forall s, In s (map fst (listeners st)) -> s = wanted k) /\
       (event_seen st = true -> matched k pre)).

Lemma accepted_mono : forall h x, accepted h -> accepted (h ++ x).
Proof. intros h x [nj Hin]. exists nj. apply in_or_app. left. exact Hin. Qed.

Lemma matched_mono : forall k h x, matched k h -> matched k (h ++ x).
Proof. intros k h x [l [Hin Hc]]. exists l. split; [apply in_or_app; left; exact Hin | exact Hc]. Qed.

Lemma opinv_mono : forall k pre x st, opinv k pre st -> opinv k (pre ++ x) st.
Proof.
  intros k pre x st [stg [Hact [Hacc Hns]]]. exists stg. split; [exact Hact |]. split.
  - intro Hs. apply accepted_mono. exact (Hacc Hs).
  - intro Hk. destruct (Hns Hk) as [Hcbs [Hls Hseen]]. split; [exact Hcbs |]. split; [exact Hls |].
    intro Hs. apply matched_mono. exact (Hseen Hs).
Qed.

Definition done_ok_justified (k : opkind) (h : list evt) (o : outcome) : Prop :=
  forall r, o = DoneOk r -> accepted h /\ (k <> OScan -> matched k h).

Lemma opinv_step : forall k pre st e, opinv k pre st -> (forall k', e <> EStart k') ->
  (snd (estep st e) = [] /\ opinv k (pre ++ [e]) (fst (estep st e)))
  \/ (exists o, snd (estep st e) = [ODone k o] /\ idle (fst (estep st e)) /\ done_ok_justified k (pre ++ [e]) o).
Proof.
  intros k pre st e Hinv Hne.
  pose proof (opinv_mono k pre [e] st Hinv) as Hinv'.
  destruct Hinv as [stg [Hact [Hacc Hns]]].
  destruct e as [k'|ok nj|l| |]; cbn [estep].
  - exfalso. exact (Hne k' eq_refl).
  - (* EReply *)
    rewrite Hact. destruct stg.
    + destruct ok.
      * set (st' := {| listeners := listeners st; scan_cbs := scan_cbs st; active := Some (k, StEvent);
                       event_seen := event_seen st; completion_ok := completion_ok st; items := items st |}).
        assert (Hacc' : accepted (pre ++ [EReply true nj])).
        { exists nj. apply in_or_app. right. left. reflexivity. }
        destruct (settle_cases st') as [Hs | [k2 [o [Ha [Hseen Hs]]]]]; rewrite Hs.
        -- left. cbn [fst snd]. split; [reflexivity |]. exists StEvent. split; [reflexivity |].
           split; [intros _; exact Hacc' |].
           intro Hk. destruct (Hns Hk) as [Hcbs [Hls Hsn]]. cbn [scan_cbs listeners event_seen st'].
           split; [exact Hcbs |]. split; [exact Hls |]. intro Hs'. apply matched_mono. exact (Hsn Hs').
        -- right. cbn [active st'] in Ha. injection Ha as Hk2. subst k2. exists o. cbn [finish fst snd].
           split; [reflexivity |]. split; [apply (finish_idle st' k o) |].
           intros r _. split; [exact Hacc' |]. intro Hk. destruct (Hns Hk) as [_ [_ Hsn]].
           apply matched_mono. apply Hsn. exact Hseen.
      * right. eexists. cbn [finish fst snd]. split; [reflexivity |].
        split; [unfold idle; cbn; repeat split |].
        intros r Hr. destruct k; try destruct nj; discriminate Hr.
    + left. cbn [fst snd]. split; [reflexivity | exact Hinv'].
  - (* ECallbacks *)
    set (st1 := fold_left handle_cb l st).
    set (st2 := {| listeners := filter (fun x => snd x) (listeners st1); scan_cbs := scan_cbs st1;
                   active := active st1; event_seen := event_seen st1; completion_ok := completion_ok st1;
                   items := items st1 |}).
    assert (Ha1 : active st1 = Some (k, stg)) by (unfold st1; rewrite fold_active; exact Hact).
    assert (Hmatch : k <> OScan -> event_seen st1 = true -> matched k (pre ++ [ECallbacks l])).
    { intros Hk Hs1. destruct (Hns Hk) as [Hcbs [Hls Hsn]].
      unfold st1 in Hs1. apply fold_seen in Hs1; [| exact Hcbs].
      destruct Hs1 as [Hs | [s [Hin Hs]]].
      - apply matched_mono. exact (Hsn Hs).
      - apply Hls in Hs. subst s. exists l. split; [apply in_or_app; right; left; reflexivity | exact Hin]. }
    destruct (settle_cases st2) as [Hs | [k2 [o [Ha [Hseen Hs]]]]]; rewrite Hs.
    + left. cbn [fst snd]. split; [reflexivity |]. exists stg. split; [exact Ha1 |].
      split; [intro Hstg; apply accepted_mono; exact (Hacc Hstg) |].
      intro Hk. destruct (Hns Hk) as [Hcbs [Hls Hsn]]. cbn [scan_cbs listeners event_seen st2].
      split; [unfold st1; rewrite fold_scan_cbs; exact Hcbs |]. split.
      * intros s Hin. apply filter_map_fst_in in Hin. unfold st1 in Hin. rewrite fold_listeners in Hin.
        exact (Hls s Hin).
      * exact (Hmatch Hk).
    + right. cbn [active st2] in Ha. rewrite Ha1 in Ha. injection Ha as Hk2 Hstg. subst k2.
      exists o. cbn [finish fst snd]. split; [reflexivity |]. split; [apply (finish_idle st2 k o) |].
      intros r _. split; [apply accepted_mono; exact (Hacc Hstg) |].
      intro Hk. cbn [event_seen st2] in Hseen. exact (Hmatch Hk Hseen).
  - (* ETimeout *)
    rewrite Hact.
    assert (Hstay : (st, @nil eout) = (st, []) -> snd (st, @nil eout) = [] /\ opinv k (pre ++ [ETimeout]) (fst (st, @nil eout))).
    { intros _. cbn [fst snd]. split; [reflexivity | exact Hinv']. }
    assert (Hfin : exists o, snd (finish st k DoneTimeout) = [ODone k o] /\ idle (fst (finish st k DoneTimeout))
                             /\ done_ok_justified k (pre ++ [ETimeout]) o).
    { exists DoneTimeout. split; [reflexivity |]. split; [apply finish_idle |]. intros r Hr. discriminate Hr. }
    destruct k, stg; try (left; exact (Hstay eq_refl)); destruct (event_seen st);
      try (left; exact (Hstay eq_refl)); right; exact Hfin.
  - (* ECancel *)
    rewrite Hact. right. exists DoneCancelled. split; [reflexivity |]. split; [apply finish_idle |].
    intros r Hr. discriminate Hr.
Qed.

(* the run of one operation: a DoneOk is output at a definite step, and by then (inclusive) the command was
   accepted and -- for form / leave / bring-up -- a matching status frame was processed *)
Lemma op_run_order : forall body k pre st k' r, opinv k pre st -> (forall k0, ~ In (EStart k0) body) ->
  In (ODone k' (DoneOk r)) (concat (snd (erun st body))) ->
  exists b1 e b2, body = b1 ++ e :: b2 /\
    In (ODone k' (DoneOk r)) (snd (estep (fst (erun st b1)) e)) /\
    k' = k /\ accepted (pre ++ b1 ++ [e]) /\ (k <> OScan -> matched k (pre ++ b1 ++ [e])).
Proof.
  induction body as [|e body IH]; intros k pre st k' r Hinv Hno Hin.
  - cbn in Hin. contradiction.
  - rewrite erun_cons in Hin. cbn [fst snd concat] in Hin.
    assert (Hne : forall k0, e <> EStart k0).
    { intros k0 Heq. apply (Hno k0). left. exact Heq. }
    assert (Hno' : forall k0, ~ In (EStart k0) body).
    { intros k0 Hi. apply (Hno k0). right. exact Hi. }
    destruct (opinv_step k pre st e Hinv Hne) as [[Ho Hinv1] | [o [Ho [Hidle Hjust]]]].
    + rewrite Ho in Hin. cbn [app] in Hin.
      destruct (IH k (pre ++ [e]) (fst (estep st e)) k' r Hinv1 Hno' Hin)
        as [b1 [e' [b2 [Hb [Hstep [Hk [Hacc Hm]]]]]]].
      exists (e :: b1), e', b2. split; [rewrite Hb; reflexivity |].
      split; [rewrite erun_cons; cbn [fst]; exact Hstep |].
      split; [exact Hk |].
      rewrite <- app_assoc in Hacc. rewrite <- app_assoc in Hm. cbn [app] in *.
      split; assumption.
    + apply in_app_or in Hin. destruct Hin as [Hin | Hin].
      * exists [], e, body. split; [reflexivity |]. cbn [erun fst app].
        split; [exact Hin |]. rewrite Ho in Hin. destruct Hin as [Heq | []].
        injection Heq as Hk Hoo. subst k'. destruct (Hjust r Hoo) as [Hacc Hm].
        split; [reflexivity |]. split; assumption.
      * destruct (idle_run body (fst (estep st e)) Hidle Hno') as [Hnil _].
        rewrite Hnil in Hin. contradiction.
Qed.

Lemma start_opinv : forall st k, idle st ->
  snd (estep st (EStart k)) = [OCommand k] /\ opinv k [] (fst (estep st (EStart k))).
Proof.
  intros st k [Hact [Hls Hcbs]]. cbn [estep]. rewrite Hact. cbn [fst snd]. split; [reflexivity |].
  exists StCommand. cbn [active scan_cbs listeners event_seen]. split; [reflexivity |].
  split; [intro Hs; discriminate Hs |].
  intro Hk. rewrite Hls, Hcbs. split; [destruct k; try reflexivity; exfalso; exact (Hk eq_refl) |].
  split; [| intro Hs; discriminate Hs].
  intros s Hin. destruct k; cbn [app map fst In] in Hin;
    try (destruct Hin as [Heq | []]; symmetry; exact Heq).
  exfalso. exact (Hk eq_refl).
Qed.

Lemma no_start_conv : forall body : list evt,
  ~ (exists k', In (EStart k') body) -> forall k0, ~ In (EStart k0) body.
Proof. intros body Hno k0 Hin. apply Hno. exists k0. exact Hin. Qed.

Theorem complete_order : forall st body k r, idle st -> ~ (exists k', In (EStart k') body) ->
  In (ODone k (DoneOk r)) (concat (snd (erun st (EStart k :: body)))) ->
  exists b1 e b2, body = b1 ++ e :: b2 /\
    In (ODone k (DoneOk r)) (snd (estep (fst (erun st (EStart k :: b1))) e)) /\
    (exists nj, In (EReply true nj) (b1 ++ [e])) /\
    (k <> OScan -> exists l, In (ECallbacks l) (b1 ++ [e]) /\ In (CStatus (wanted k)) l).
Proof.
  intros st body k r Hidle Hno Hin.
  destruct (start_opinv st k Hidle) as [Ho Hinv].
  rewrite erun_cons in Hin. cbn [fst snd concat] in Hin. rewrite Ho in Hin.
  cbn [app] in Hin. destruct Hin as [Hbad | Hin]; [discriminate Hbad |].
  destruct (op_run_order body k [] _ k r Hinv (no_start_conv body Hno) Hin)
    as [b1 [e [b2 [Hb [Hstep [_ [Hacc Hm]]]]]]].
  exists b1, e, b2. split; [exact Hb |].
  split; [rewrite erun_cons; cbn [fst]; exact Hstep |].
  cbn [app] in Hacc, Hm. split; [exact Hacc | exact Hm].
Qed.

Theorem complete_needs_event : forall st body k r, idle st -> k <> OScan -> ~ (exists k', In (EStart k') body) ->
  In (ODone k (DoneOk r)) (concat (snd (erun st (EStart k :: body)))) ->
  exists l, In (ECallbacks l) body /\ In (CStatus (wanted k)) l.
Proof.
  intros st body k r Hidle Hk Hno Hin.
  destruct (complete_order st body k r Hidle Hno Hin) as [b1 [e [b2 [Hb [_ [_ Hm]]]]]].
  destruct (Hm Hk) as [l [Hl Hc]]. exists l. split; [| exact Hc].
  rewrite Hb. apply in_app_or in Hl. apply in_or_app. destruct Hl as [Hl | [Hl | []]].
  - left. exact Hl.
  - right. left. exact Hl.
Qed.

Theorem complete_needs_accept : forall st body k r, idle st -> ~ (exists k', In (EStart k') body) ->
  In (ODone k (DoneOk r)) (concat (snd (erun st (EStart k :: body)))) ->
  exists nj, In (EReply true nj) body.
Proof.
  intros st body k r Hidle Hno Hin.
  destruct (complete_order st body k r Hidle Hno Hin) as [b1 [e [b2 [Hb [_ [[nj Hl] _]]]]]].
  exists nj. rewrite Hb. apply in_app_or in Hl. apply in_or_app. destruct Hl as [Hl | [Hl | []]].
  - left. exact Hl.
  - right. left. exact Hl.
Qed.

(* ---- concrete batches ------------------------------------------------------------------------------ *)

Lemma fold_nohit : forall w l act seen cok its, ~ In (CStatus w) l ->
  fold_left handle_cb l (Build_estate [(w, true)] 0 act seen cok its) = Build_estate [(w, true)] 0 act seen cok its.
Proof.
  intros w l act. induction l as [|c l IH]; intros seen cok its Hno; cbn [fold_left].
  - reflexivity.
  - assert (Hno' : ~ In (CStatus w) l) by (intro Hi; apply Hno; right; exact Hi).
    destruct c as [s|r|ok]; cbn [handle_cb listeners scan_cbs active event_seen completion_ok items notify].
    + destruct (w =? s) eqn:E.
      * exfalso. apply N.eqb_eq in E. subst s. apply Hno. left. reflexivity.
      * rewrite orb_false_r. exact (IH seen cok its Hno').
    + cbn. exact (IH seen cok its Hno').
    + cbn. exact (IH seen cok its Hno').
Qed.

Lemma fold_resolved : forall w l act cok its,
  fold_left handle_cb l (Build_estate [(w, false)] 0 act true cok its) = Build_estate [(w, false)] 0 act true cok its.
Proof.
  intros w l act. induction l as [|c l IH]; intros cok its; cbn [fold_left].
  - reflexivity.
  - destruct c as [s|r|ok]; cbn [handle_cb listeners scan_cbs active event_seen completion_ok items notify].
    + destruct (w =? s); cbn [orb]; exact (IH cok its).
    + cbn. exact (IH cok its).
    + cbn. exact (IH cok its).
Qed.

Lemma fold_hit : forall w l act seen cok its, In (CStatus w) l ->
  fold_left handle_cb l (Build_estate [(w, true)] 0 act seen cok its) = Build_estate [(w, false)] 0 act true cok its.
Proof.
  intros w l act. induction l as [|c l IH]; intros seen cok its Hin; cbn [fold_left].
  - contradiction.
  - destruct c as [s|r|ok]; cbn [handle_cb listeners scan_cbs active event_seen completion_ok items notify].
    + destruct (w =? s) eqn:E.
      * rewrite orb_true_r. apply fold_resolved.
      * rewrite orb_false_r. apply IH. destruct Hin as [Heq | Hin]; [| exact Hin].
        injection Heq as Hs. subst s. rewrite N.eqb_refl in E. discriminate E.
    + cbn. apply IH. destruct Hin as [Heq | Hin]; [discriminate Heq | exact Hin].
    + cbn. apply IH. destruct Hin as [Heq | Hin]; [discriminate Heq | exact Hin].
Qed.

Lemma fold_idle : forall l act seen cok its,
  fold_left handle_cb l (Build_estate [] 0 act seen cok its) = Build_estate [] 0 act seen cok its.
Proof.
  intros l act. induction l as [|c l IH]; intros seen cok its; cbn [fold_left].
  - reflexivity.
  - destruct c as [s|r|ok]; cbn [handle_cb listeners scan_cbs active event_seen completion_ok items notify].
    + rewrite orb_false_r. apply IH.
    + cbn. apply IH.
    + cbn. apply IH.
Qed.

Lemma fold_scan_collect : forall l act cok its, ~ In (CComplete true) l -> ~ In (CComplete false) l ->
  fold_left handle_cb l (Build_estate [] 1 act false cok its) = Build_estate [] 1 act false cok (its ++ items_of l).
Proof.
  intros l act. induction l as [|c l IH]; intros cok its Ht Hf; cbn [fold_left].
  - unfold items_of. cbn. rewrite app_nil_r. reflexivity.
  - assert (Ht' : ~ In (CComplete true) l) by (intro Hi; apply Ht; right; exact Hi).
    assert (Hf' : ~ In (CComplete false) l) by (intro Hi; apply Hf; right; exact Hi).
    destruct c as [s|r|ok]; cbn [handle_cb listeners scan_cbs active event_seen completion_ok items notify].
    + cbn [orb]. rewrite (IH cok its Ht' Hf'). reflexivity.
    + cbn -[items_of]. rewrite (IH cok (its ++ [r]) Ht' Hf'). rewrite <- app_assoc. reflexivity.
    + exfalso. destruct ok; [apply Ht | apply Hf]; left; reflexivity.
Qed.

Lemma fold_scan_after : forall l act cok its,
  fold_left handle_cb l (Build_estate [] 1 act true cok its) = Build_estate [] 1 act true cok (its ++ items_of l).
Proof.
  intros l act. induction l as [|c l IH]; intros cok its; cbn [fold_left].
  - unfold items_of. cbn. rewrite app_nil_r. reflexivity.
  - destruct c as [s|r|ok]; cbn [handle_cb listeners scan_cbs active event_seen completion_ok items notify].
    + cbn [orb]. rewrite (IH cok its). reflexivity.
    + cbn -[items_of]. rewrite (IH cok (its ++ [r])). rewrite <- app_assoc. reflexivity.
    + cbn -[items_of]. rewrite (IH cok its). reflexivity.
Qed.

Lemma idle_shape : forall st, idle st ->
  st = Build_estate [] 0 None (event_seen st) (completion_ok st) (items st).
Proof.
  intros [ls cbs act seen cok its] [Ha [Hl Hc]]. cbn in *. subst. reflexivity.
Qed.

Theorem not_missed_before_reply : forall st k l nj, idle st -> k <> OScan -> In (CStatus (wanted k)) l ->
  concat (snd (erun st [EStart k; ECallbacks l; EReply true nj])) = [OCommand k; ODone k (DoneOk [])].
Proof.
  intros st k l nj Hidle Hk Hin. rewrite (idle_shape st Hidle).
  generalize (event_seen st) (completion_ok st) (items st). intros seen cok its.
  destruct k; try (exfalso; exact (Hk eq_refl));
    cbn [erun estep active listeners scan_cbs app]; rewrite (fold_hit _ l _ _ _ _ Hin); reflexivity.
Qed.

Theorem not_missed_after_reply : forall st k l nj, idle st -> k <> OScan -> In (CStatus (wanted k)) l ->
  concat (snd (erun st [EStart k; EReply true nj; ECallbacks l])) = [OCommand k; ODone k (DoneOk [])].
Proof.
  intros st k l nj Hidle Hk Hin. rewrite (idle_shape st Hidle).
  generalize (event_seen st) (completion_ok st) (items st). intros seen cok its.
  destruct k; try (exfalso; exact (Hk eq_refl));
    cbn [erun estep settle active listeners scan_cbs event_seen completion_ok items app];
    rewrite (fold_hit _ l _ _ _ _ Hin); reflexivity.
Qed.

Theorem refused_raises : forall st k, idle st ->
  concat (snd (erun st [EStart k; EReply false false])) = [OCommand k; ODone k DoneRefused].
Proof.
  intros st k Hidle. rewrite (idle_shape st Hidle). destruct k; reflexivity.
Qed.

Theorem timeout_raises : forall st k l nj, idle st -> k <> OScan -> ~ In (CStatus (wanted k)) l ->
  concat (snd (erun st [EStart k; EReply true nj; ECallbacks l; ETimeout])) = [OCommand k; ODone k DoneTimeout].
Proof.
  intros st k l nj Hidle Hk Hno. rewrite (idle_shape st Hidle).
  generalize (event_seen st) (completion_ok st) (items st). intros seen cok its.
  destruct k; try (exfalso; exact (Hk eq_refl));
    cbn [erun estep settle active listeners scan_cbs event_seen completion_ok items app];
    rewrite (fold_nohit _ l _ _ _ _ Hno); reflexivity.
Qed.

Theorem scan_results : forall st before l1 l2 nj, idle st ->
  ~ In (CComplete true) l1 -> ~ In (CComplete false) l1 ->
  concat (snd (erun st [ECallbacks before; EStart OScan; EReply true nj; ECallbacks l1; ECallbacks (CComplete true :: l2)]))
  = [OCommand OScan;
     ODone OScan (DoneOk (flat_map (fun c => match c with CItem r => [r] | _ => [] end) (l1 ++ l2)))].
Proof.
  intros st before l1 l2 nj Hidle Ht Hf. rewrite (idle_shape st Hidle).
  generalize (event_seen st) (completion_ok st) (items st). intros seen cok its.
  cbn [erun estep]. rewrite fold_idle.
  cbn [settle active listeners scan_cbs event_seen completion_ok items filter N.add Pos.add].
  rewrite (fold_scan_collect l1 _ _ _ Ht Hf).
  cbn [settle active listeners scan_cbs event_seen completion_ok items filter fold_left handle_cb].
  cbn [N.ltb N.compare andb negb].
  rewrite fold_scan_after.
  cbn [settle active listeners scan_cbs event_seen completion_ok items filter finish fst snd concat app].
  rewrite flat_map_app. reflexivity.
Qed.

(* ---- no residue ------------------------------------------------------------------------------------- *)

Definition clean (st : estate) : Prop := active st = None -> listeners st = [] /\ scan_cbs st = 0.

Lemma clean_step : forall st e, clean st -> clean (fst (estep st e)).
Proof.
  intros st e Hclean. destruct (active st) as [[k stg]|] eqn:Hact.
  - (* an operation is running: it either goes on or finishes *)
    destruct e as [k'|ok nj|l| |]; cbn [estep]; try rewrite Hact.
    + exact Hclean.
    + destruct stg; [| exact Hclean]. destruct ok.
      * match goal with |- clean (fst (settle ?s)) => destruct (settle_cases s) as [Hs | [k2 [o [_ [_ Hs]]]]]; rewrite Hs end.
        -- intro Hbad. discriminate Hbad.
        -- intros _. cbn. split; reflexivity.
      * intros _. cbn. split; reflexivity.
    + match goal with |- clean (fst (settle ?s)) => destruct (settle_cases s) as [Hs | [k2 [o [_ [_ Hs]]]]]; rewrite Hs end.
      * intro Hbad. cbn [fst active] in Hbad. rewrite fold_active, Hact in Hbad. discriminate Hbad.
      * intros _. cbn. split; reflexivity.
    + destruct k, stg; try exact Hclean; destruct (event_seen st); try exact Hclean;
        intros _; cbn; split; reflexivity.
    + intros _. cbn. split; reflexivity.
  - destruct (Hclean Hact) as [Hls Hcbs].
    destruct e as [k'|ok nj|l| |].
    + cbn [estep]. rewrite Hact. intro Hbad. discriminate Hbad.
    + destruct (idle_step st (EReply ok nj)) as [_ [_ [Hl Hc]]];
        [repeat split; assumption | intros k0 Hk0; discriminate Hk0 |]. intros _. split; assumption.
    + destruct (idle_step st (ECallbacks l)) as [_ [_ [Hl Hc]]];
        [repeat split; assumption | intros k0 Hk0; discriminate Hk0 |]. intros _. split; assumption.
    + destruct (idle_step st ETimeout) as [_ [_ [Hl Hc]]];
        [repeat split; assumption | intros k0 Hk0; discriminate Hk0 |]. intros _. split; assumption.
    + destruct (idle_step st ECancel) as [_ [_ [Hl Hc]]];
        [repeat split; assumption | intros k0 Hk0; discriminate Hk0 |]. intros _. split; assumption.
Qed.

Lemma clean_run : forall es st, clean st -> clean (fst (erun st es)).
Proof.
  induction es as [|e es IH]; intros st Hclean.
  - exact Hclean.
  - rewrite erun_cons. cbn [fst]. apply IH. apply clean_step. exact Hclean.
Qed.

Theorem no_residue : forall es, active (efinal es) = None -> idle (efinal es).
Proof.
  intros es Hact. unfold efinal in *.
  assert (Hc : clean (fst (erun e_init es))).
  { apply clean_run. intros _. split; reflexivity. }
  destruct (Hc Hact) as [Hl Hs]. repeat split; assumption.
Qed.

Theorem done_means_idle : forall st e k o, In (ODone k o) (snd (estep st e)) -> idle (fst (estep st e)).
Proof.
  intros st e k o Hin. destruct e as [k'|ok nj|l| |]; cbn [estep] in *.
  - destruct (active st) as [p|]; cbn [snd] in Hin.
    + contradiction.
    + destruct Hin as [Hbad | []]. discriminate Hbad.
  - destruct (active st) as [[k1 stg]|]; [| contradiction]. destruct stg; [| contradiction].
    destruct ok; [| apply finish_idle].
    match goal with |- idle (fst (settle ?s)) => destruct (settle_cases s) as [Hs | [k2 [o2 [_ [_ Hs]]]]]; rewrite Hs in * end.
    + contradiction.
    + apply finish_idle.
  - match goal with |- idle (fst (settle ?s)) => destruct (settle_cases s) as [Hs | [k2 [o2 [_ [_ Hs]]]]]; rewrite Hs in * end.
    + contradiction.
    + apply finish_idle.
  - destruct (active st) as [[k1 stg]|]; [| contradiction].
    destruct k1, stg; try contradiction; destruct (event_seen st); try contradiction; apply finish_idle.
  - destruct (active st) as [[k1 stg]|]; [| contradiction]. apply finish_idle.
Qed.
