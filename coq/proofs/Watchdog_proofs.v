From Coq Require Import NArith List Bool Lia.
Import ListNotations.
Require Import BV.model.Watchdog.
Open Scope N_scope.

Section P.
  Variable M P : N.

  (* number of consecutive failed feeds at the end of a history (newest last) *)
  Fixpoint streak (v : N) (acc : N) (l : list (ans * ans)) : N :=
    match l with
    | [] => acc
    | (a1, a2) :: l' => streak v (if feed_failed v a1 a2 then acc + 1 else 0) l'
    end.

  Lemma final_failures v l : forall st,
    failures (final M P v st l) = streak v (failures st) l.
  Proof.
    induction l as [|[a1 a2] l IH]; intros st; cbn [final streak]; [reflexivity|].
    rewrite IH. unfold feed. destruct (feed_failed v a1 a2); reflexivity.
  Qed.

  Lemma streak_app v l1 l2 acc : streak v acc (l1 ++ l2) = streak v (streak v acc l1) l2.
  Proof.
    revert acc; induction l1 as [|[a1 a2] l1 IH]; intros acc; cbn [app streak]; [reflexivity|].
    apply IH.
  Qed.

  Lemma final_app v l1 l2 st : final M P v st (l1 ++ l2) = final M P v (final M P v st l1) l2.
  Proof.
    revert st; induction l1 as [|a l1 IH]; intros st; cbn [app final]; [reflexivity|]. apply IH.
  Qed.

  Lemma run_app v l1 l2 st :
    run M P v st (l1 ++ l2) = run M P v st l1 ++ run M P v (final M P v st l1) l2.
  Proof.
    revert st; induction l1 as [|a l1 IH]; intros st; cbn [app run final]; [reflexivity|].
    destruct (feed M P v st a) as [[st' r] c] eqn:E. cbn [fst]. rewrite IH. reflexivity.
  Qed.

  (* the feed after history [pre] raises iff it failed and the run of failures ending with it
     exceeds M *)
  Lemma raise_iff v pre a1 a2 :
    let st := final M P v winit pre in
    snd (fst (feed M P v st (a1, a2))) =
      feed_failed v a1 a2 && (M <? streak v 0 pre + 1).
  Proof.
    cbn zeta. unfold feed.
    change (streak v 0 pre) with (streak v (failures winit) pre).
    rewrite <- (final_failures v pre winit).
    destruct (feed_failed v a1 a2); reflexivity.
  Qed.

  Lemma success_clears v st a1 a2 :
    feed_failed v a1 a2 = false -> failures (fst (fst (feed M P v st (a1, a2)))) = 0.
  Proof. intros H. unfold feed. rewrite H. reflexivity. Qed.

  Lemma feeds_count v l : forall st,
    feeds (final M P v st l) = if v =? 4 then feeds st else feeds st + N.of_nat (length l).
  Proof.
    induction l as [|[a1 a2] l IH]; intros st; cbn [final length].
    - destruct (v =? 4); lia.
    - rewrite IH. unfold feed. destruct (feed_failed v a1 a2); cbn [fst feeds]; destruct (v =? 4); lia.
  Qed.

  Lemma keepalive_cmd v pre a1 a2 :
    let st := final M P v winit pre in
    let k := N.of_nat (length pre) + 1 in      (* ordinal of this feed, 1-based *)
    snd (feed M P v st (a1, a2)) =
      if v =? 4 then [KNop]
      else (if 0 <? k mod P then KReadCounters else KReadAndClearCounters)
             :: (if ans_ok a1 then [KGetValue] else []).
  Proof.
    cbn zeta. unfold feed, feed_cmds. rewrite (feeds_count v pre winit). cbn [feeds winit].
    destruct (v =? 4) eqn:E; destruct (feed_failed v a1 a2); cbn [snd]; try reflexivity;
      rewrite N.add_0_l; reflexivity.
  Qed.
End P.
