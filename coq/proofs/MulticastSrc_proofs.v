(* Multicast.subscribe / unsubscribe as emitted from their SOURCE TEXT (gen/GenMulticastFn.v) against the
   host side of the hand-written model (model/Multicast.v, [step]): same dict, same set of free indices,
   same reported result, same table write. *)
From Coq Require Import NArith List Bool Lia.
Import ListNotations.
Require Import BV.gen.GenStatus BV.model.Status BV.model.Multicast BV.gen.GenMulticastFn.
Open Scope N_scope.

(* the free indices are a set: the model keeps the list as it was where the source pops an index and adds it back *)
Definition seteq (a b : list N) : Prop := forall i, mem i a = mem i b.

Lemma mem_set_add : forall i j a, mem j (set_add i a) = (i =? j) || mem j a.
Proof.
  intros i j a. unfold set_add. destruct (mem i a) eqn:Hm.
  - destruct (i =? j) eqn:E; [apply N.eqb_eq in E; subst; rewrite Hm; reflexivity | reflexivity].
  - induction a as [|x a IH]; cbn [app mem].
    + rewrite orb_false_r. reflexivity.
    + cbn [mem] in Hm. apply orb_false_iff in Hm. destruct Hm as [Hx Ha].
      rewrite (IH Ha). destruct (x =? j), (i =? j); reflexivity.
Qed.

Lemma mem_remove_other : forall i j a, i <> j -> mem j (remove_idx i a) = mem j a.
Proof.
  intros i j a Hij. induction a as [|x a IH]; cbn [remove_idx mem]; [reflexivity|].
  destruct (x =? i) eqn:E.
  - apply N.eqb_eq in E. subst x. replace (i =? j) with false by (symmetry; apply N.eqb_neq; exact Hij). reflexivity.
  - cbn [mem]. rewrite IH. reflexivity.
Qed.

Lemma pick_mem : forall c a i, pick c a = Some i -> mem i a = true.
Proof.
  intros c a i H. destruct a as [|h a]; [discriminate|]. cbn [pick] in H.
  destruct (mem c (h :: a)) eqn:Hm; injection H as <-; [exact Hm|].
  cbn [mem]. rewrite N.eqb_refl. reflexivity.
Qed.

Lemma pop_add_back : forall c a i, pick c a = Some i -> seteq a (set_add i (remove_idx i a)).
Proof.
  intros c a i H j. rewrite mem_set_add. destruct (i =? j) eqn:E.
  - apply N.eqb_eq in E. subst j. rewrite (pick_mem _ _ _ H). reflexivity.
  - apply N.eqb_neq in E. rewrite (mem_remove_other i j a E). reflexivity.
Qed.

Lemma seteq_refl : forall a, seteq a a.
Proof. intros a i. reflexivity. Qed.

Lemma src_subscribe : forall st g choice a,
  let '(s', av', r, w) := py_subscribe (subs st) (avail st) g choice a in
  let '(st', r', w') := step st (Subscribe g choice a) in
  subs st' = s' /\ seteq (avail st') av' /\ r' = r /\ w' = w.
Proof.
  intros st g choice a. unfold py_subscribe. cbn [step].
  destruct (lookup g (subs st)) as [i0|].
  - repeat split; try reflexivity; try apply seteq_refl.
  - destruct (pick choice (avail st)) as [i|] eqn:Hp.
    + destruct a as [s| |].
      * destruct (status_ok s); cbn [negb]; repeat split; try reflexivity;
          try apply seteq_refl; try exact (pop_add_back _ _ _ Hp).
      * repeat split; try reflexivity; try exact (pop_add_back _ _ _ Hp).
      * repeat split; try reflexivity; try exact (pop_add_back _ _ _ Hp).
    + repeat split; try reflexivity; try apply seteq_refl.
Qed.

Lemma src_unsubscribe : forall st g a,
  let '(s', av', r, w) := py_unsubscribe (subs st) (avail st) g a in
  let '(st', r', w') := step st (Unsubscribe g a) in
  subs st' = s' /\ avail st' = av' /\ r' = r /\ w' = w.
Proof.
  intros st g a. unfold py_unsubscribe. cbn [step].
  destruct (lookup g (subs st)) as [i|].
  - destruct a as [s| |]; [destruct (status_ok s); cbn [negb]|..]; repeat split; reflexivity.
  - repeat split; reflexivity.
Qed.
