(* Proofs for C06 (props/C06.v): the EZSP command/response machine of model/EzspProto.v.

   Plan.  [proto_step] is first flattened into a handful of "outcomes" (nothing / one call record
   updated / the holder's call finishes with a return / with a raise), see [outcome] and
   [step_outcome]; ECall and the cancellation of a queued call are treated directly.  Each property
   is then one pass over these outcomes:
     - [Inv]      the slot/queue/calls invariant          (one_in_flight, queue_sorted, no_slot_leak,
                                                           no_cross, timeout_raises)
     - [AwOK/RpOK] provenance of awaiting entries/replies (own_response)
     - [SeqStep]  at most one send per step, p_seq        (seq_consecutive)
     - ids        call ids in progress come from ECall    (freshness from calls_unique)          *)
From Coq Require Import String ZArith NArith List Bool Sorting.Sorted Lia ZifyBool ZifyN.
Import ListNotations.
Require Import BV.lib.EzspTypes BV.gen.GenProto BV.model.EzspCodec BV.model.EzspProto.
Open Scope N_scope.

(* ---- vocabulary of props/C06.v ------------------------------------------------------------------ *)
Definition outs (es : list pevent) : list pout := concat (snd (proto_run p_init es)).
Definition final (es : list pevent) : pstate := fst (proto_run p_init es).
Definition calls (es : list pevent) : list N :=
  flat_map (fun e => match e with ECall id _ _ => [id] | _ => [] end) es.
Definition calls_unique (es : list pevent) : Prop := NoDup (calls es).
Definition sends (l : list pout) : list (N * N * N) :=
  flat_map (fun o => match o with OSend id s f => [(id, s, f)] | _ => [] end) l.
Definition in_flight (st : pstate) : list pcall :=
  filter (fun c => match k_stage c with PQueued => false | _ => true end) (p_calls st).
(* (-priority, arrival counter, call): smaller first *)
Definition q_before (a b : Z * N * N) : Prop := q_le a b = true.
(* the states the machine can be in: every call has its own identity *)
Definition reachable (st : pstate) : Prop := exists es, calls_unique es /\ st = final es.

(* the priority classes named by the property, over every command name of every version *)
Definition spec_priority (name : string) : Z :=
  if existsb (String.eqb name) ["nop"; "readCounters"; "readAndClearCounters"; "getValue"]%string then 999%Z
  else if existsb (String.eqb name)
       ["sendUnicast"; "sendMulticast"; "sendBroadcast"; "setSourceRoute"; "setExtendedTimeout"]%string then (-1)%Z
  else 0%Z.

(* ---- runs ---------------------------------------------------------------------------------------- *)
Lemma proto_run_app : forall es1 es2 st,
  proto_run st (es1 ++ es2) =
  let '(st1, o1) := proto_run st es1 in
  let '(st2, o2) := proto_run st1 es2 in (st2, o1 ++ o2).
Proof.
  induction es1 as [|e es1 IH]; intros es2 st; cbn [proto_run app].
  - destruct (proto_run st es2) as [st2 o2]. reflexivity.
  - destruct (proto_step st e) as [st1 o]. rewrite IH.
    destruct (proto_run st1 es1) as [st2 os]. destruct (proto_run st2 es2) as [st3 os2]. reflexivity.
Qed.

Lemma final_snoc : forall es e, final (es ++ [e]) = fst (proto_step (final es) e).
Proof.
  intros es e. unfold final. rewrite proto_run_app.
  destruct (proto_run p_init es) as [st1 o1]. cbn [proto_run fst].
  destruct (proto_step st1 e) as [st2 o]. reflexivity.
Qed.

Lemma outs_snoc : forall es e, outs (es ++ [e]) = outs es ++ snd (proto_step (final es) e).
Proof.
  intros es e. unfold outs, final. rewrite proto_run_app.
  destruct (proto_run p_init es) as [st1 o1]. cbn [proto_run fst snd].
  destruct (proto_step st1 e) as [st2 o]. cbn [snd].
  rewrite concat_app. cbn [concat]. rewrite app_nil_r. reflexivity.
Qed.

Lemma calls_snoc : forall es e,
  calls (es ++ [e]) = calls es ++ match e with ECall id _ _ => [id] | _ => [] end.
Proof.
  intros es e. unfold calls. rewrite flat_map_app. cbn [flat_map]. rewrite app_nil_r. reflexivity.
Qed.

Lemma calls_unique_snoc : forall es e, calls_unique (es ++ [e]) ->
  calls_unique es /\ (forall id p f, e = ECall id p f -> ~ In id (calls es)).
Proof.
  unfold calls_unique. intros es e H. rewrite calls_snoc in H. destruct e as [id p f| | | |].
  - apply NoDup_remove in H. rewrite app_nil_r in H. destruct H as [H1 H2].
    split; [exact H1|]. intros id' p' f' E. inversion E; subst. exact H2.
  - rewrite app_nil_r in H. split; [exact H|]. intros; discriminate.
  - rewrite app_nil_r in H. split; [exact H|]. intros; discriminate.
  - rewrite app_nil_r in H. split; [exact H|]. intros; discriminate.
  - rewrite app_nil_r in H. split; [exact H|]. intros; discriminate.
Qed.

(* ---- the call dictionary ------------------------------------------------------------------------- *)
Definition ids (l : list pcall) : list N := map k_id l.

Lemma call_get_In : forall id l c, call_get id l = Some c -> In c l /\ k_id c = id.
Proof.
  induction l as [|a l IH]; intros c H; cbn [call_get] in H; [discriminate|].
  destruct (N.eqb_spec (k_id a) id) as [E|E].
  - inversion H; subst. split; [left; reflexivity|reflexivity].
  - destruct (IH c H) as [H1 H2]. split; [right; exact H1|exact H2].
Qed.

Lemma call_get_None : forall id l, call_get id l = None <-> ~ In id (ids l).
Proof.
  induction l as [|a l IH]; cbn [call_get ids map In].
  - split; [intros _ F; exact F|reflexivity].
  - destruct (N.eqb_spec (k_id a) id) as [E|E].
    + split; [discriminate|]. intros F. exfalso. apply F. left. exact E.
    + rewrite IH. unfold ids. tauto.
Qed.

Lemma In_call_get : forall l c, NoDup (ids l) -> In c l -> call_get (k_id c) l = Some c.
Proof.
  induction l as [|a l IH]; intros c ND H; [destruct H|].
  cbn [ids map] in ND. inversion ND as [|x xs Hn ND']; subst. cbn [call_get].
  destruct H as [H|H].
  - subst. rewrite N.eqb_refl. reflexivity.
  - destruct (N.eqb_spec (k_id a) (k_id c)) as [E|E].
    + exfalso. apply Hn. rewrite E. apply in_map. exact H.
    + apply IH; assumption.
Qed.

Lemma call_get_set : forall x c l,
  call_get x (call_set c l) = if k_id c =? x then Some c else call_get x l.
Proof.
  induction l as [|a l IH]; cbn [call_set call_get].
  - reflexivity.
  - destruct (N.eqb_spec (k_id a) (k_id c)) as [E|E]; cbn [call_get].
    + rewrite E. destruct (k_id c =? x); reflexivity.
    + rewrite IH. destruct (N.eqb_spec (k_id a) x) as [E1|E1]; [|reflexivity].
      destruct (N.eqb_spec (k_id c) x) as [E2|E2]; [|reflexivity]. exfalso. apply E. congruence.
Qed.

Lemma call_get_del : forall x id l, NoDup (ids l) ->
  call_get x (call_del id l) = if id =? x then None else call_get x l.
Proof.
  induction l as [|a l IH]; intros ND; cbn [call_del call_get].
  - destruct (id =? x); reflexivity.
  - cbn [ids map] in ND. inversion ND as [|y ys Hn ND']; subst.
    destruct (N.eqb_spec (k_id a) id) as [E|E].
    + destruct (N.eqb_spec id x) as [E1|E1].
      * apply call_get_None. rewrite <- E1, <- E. exact Hn.
      * destruct (N.eqb_spec (k_id a) x) as [E2|E2]; [exfalso; apply E1; congruence|reflexivity].
    + cbn [call_get]. rewrite (IH ND').
      destruct (N.eqb_spec (k_id a) x) as [E2|E2]; [|reflexivity].
      destruct (N.eqb_spec id x) as [E1|E1]; [exfalso; apply E; congruence|reflexivity].
Qed.

Lemma In_call_set : forall x c l, In x (call_set c l) -> x = c \/ In x l.
Proof.
  induction l as [|a l IH]; cbn [call_set]; intros H.
  - destruct H as [H|[]]. left. symmetry. exact H.
  - destruct (k_id a =? k_id c).
    + destruct H as [H|H]; [left; symmetry; exact H|right; right; exact H].
    + destruct H as [H|H]; [right; left; exact H|].
      destruct (IH H) as [H1|H1]; [left; exact H1|right; right; exact H1].
Qed.

Lemma In_call_del : forall x id l, In x (call_del id l) -> In x l.
Proof.
  induction l as [|a l IH]; cbn [call_del]; intros H; [exact H|].
  destruct (k_id a =? id); [right; exact H|].
  destruct H as [H|H]; [left; exact H|right; exact (IH H)].
Qed.

Lemma ids_call_set : forall x c l, In x (ids (call_set c l)) -> x = k_id c \/ In x (ids l).
Proof.
  unfold ids. intros x c l H. apply in_map_iff in H. destruct H as [y [E H]].
  apply In_call_set in H. destruct H as [H|H].
  - left. subst. reflexivity.
  - right. subst. apply in_map. exact H.
Qed.

Lemma ids_call_del : forall x id l, In x (ids (call_del id l)) -> In x (ids l).
Proof.
  unfold ids. intros x id l H. apply in_map_iff in H. destruct H as [y [E H]].
  apply In_call_del in H. subst. apply in_map. exact H.
Qed.

Lemma NoDup_call_set : forall c l, NoDup (ids l) -> NoDup (ids (call_set c l)).
Proof.
  induction l as [|a l IH]; intros ND; cbn [call_set].
  - cbn. constructor; [intros []|constructor].
  - cbn [ids map] in ND. inversion ND as [|y ys Hn ND']; subst.
    destruct (N.eqb_spec (k_id a) (k_id c)) as [E|E]; cbn [ids map].
    + rewrite <- E. constructor; assumption.
    + constructor; [|exact (IH ND')]. intros F. apply ids_call_set in F.
      destruct F as [F|F]; [exact (E F)|exact (Hn F)].
Qed.

Lemma NoDup_call_del : forall id l, NoDup (ids l) -> NoDup (ids (call_del id l)).
Proof.
  induction l as [|a l IH]; intros ND; cbn [call_del]; [exact ND|].
  cbn [ids map] in ND. inversion ND as [|y ys Hn ND']; subst.
  destruct (k_id a =? id); [exact ND'|]. cbn [ids map].
  constructor; [|exact (IH ND')]. intros F. apply Hn. exact (ids_call_del _ _ _ F).
Qed.

(* replacing the record of a call and then forgetting the call = forgetting the call *)
Lemma call_del_set : forall c l, call_get (k_id c) l <> None ->
  call_del (k_id c) (call_set c l) = call_del (k_id c) l.
Proof.
  induction l as [|a l IH]; intros H; cbn [call_get] in H; [exfalso; apply H; reflexivity|].
  cbn [call_set call_del]. destruct (N.eqb_spec (k_id a) (k_id c)) as [E|E]; cbn [call_del].
  - rewrite N.eqb_refl. reflexivity.
  - destruct (N.eqb_spec (k_id a) (k_id c)) as [E'|_]; [exfalso; exact (E E')|].
    rewrite (IH H). reflexivity.
Qed.

(* ---- the awaiting dictionary (membership is enough) ---------------------------------------------- *)
Lemma aw_get_In : forall s v l, aw_get s l = Some v -> In (s, v) l.
Proof.
  induction l as [|[s' v'] l IH]; cbn [aw_get]; intros H; [discriminate|].
  destruct (N.eqb_spec s' s) as [E|E].
  - inversion H; subst. left. reflexivity.
  - right. exact (IH H).
Qed.

Lemma In_aw_del : forall x s l, In x (aw_del s l) -> In x l.
Proof.
  induction l as [|[s' v'] l IH]; cbn [aw_del]; intros H; [exact H|].
  destruct (s' =? s); [right; exact H|].
  destruct H as [H|H]; [left; exact H|right; exact (IH H)].
Qed.

Lemma In_aw_set : forall x s v l, In x (aw_set s v l) -> x = (s, v) \/ In x l.
Proof.
  induction l as [|[s' v'] l IH]; cbn [aw_set]; intros H.
  - destruct H as [H|[]]. left. symmetry. exact H.
  - destruct (s' =? s).
    + destruct H as [H|H]; [left; symmetry; exact H|right; right; exact H].
    + destruct H as [H|H]; [right; left; exact H|].
      destruct (IH H) as [H1|H1]; [left; exact H1|right; right; exact H1].
Qed.

(* ---- the queue ----------------------------------------------------------------------------------- *)
Definition q_ids (q : list (Z * N * N)) : list N := map snd q.

Lemma q_le_trans : forall a b c, q_le a b = true -> q_le b c = true -> q_le a c = true.
Proof. intros [[pa ca] ia] [[pb cb] ib] [[pc cc] ic]; unfold q_le; lia. Qed.

Lemma q_le_total : forall a b, q_le a b = false -> q_le b a = true.
Proof. intros [[pa ca] ia] [[pb cb] ib]; unfold q_le; lia. Qed.

Lemma Forall_q_insert : forall (P : Z * N * N -> Prop) x q,
  P x -> Forall P q -> Forall P (q_insert x q).
Proof.
  induction q as [|y q IH]; intros Hx Hq; cbn [q_insert].
  - constructor; [exact Hx|constructor].
  - inversion Hq as [|y' q' Hy Hq']; subst. destruct (q_le y x).
    + constructor; [exact Hy|exact (IH Hx Hq')].
    + constructor; [exact Hx|exact Hq].
Qed.

Lemma Forall_q_remove : forall (P : Z * N * N -> Prop) id q,
  Forall P q -> Forall P (q_remove id q).
Proof.
  induction q as [|[[p n] i] q IH]; intros Hq; cbn [q_remove]; [exact Hq|].
  inversion Hq as [|y' q' Hy Hq']; subst. destruct (i =? id); [exact Hq'|].
  constructor; [exact Hy|exact (IH Hq')].
Qed.

Lemma q_insert_sorted : forall x q,
  StronglySorted q_before q -> StronglySorted q_before (q_insert x q).
Proof.
  induction q as [|y q IH]; intros H; cbn [q_insert].
  - constructor; constructor.
  - apply StronglySorted_inv in H. destruct H as [Hs Hf]. destruct (q_le y x) eqn:E.
    + constructor; [exact (IH Hs)|]. apply Forall_q_insert; [exact E|exact Hf].
    + apply q_le_total in E. constructor.
      * constructor; assumption.
      * constructor; [exact E|].
        eapply Forall_impl; [|exact Hf]. intros z Hz. unfold q_before in *.
        exact (q_le_trans _ _ _ E Hz).
Qed.

Lemma q_remove_sorted : forall id q,
  StronglySorted q_before q -> StronglySorted q_before (q_remove id q).
Proof.
  induction q as [|[[p n] i] q IH]; intros H; cbn [q_remove]; [exact H|].
  apply StronglySorted_inv in H. destruct H as [Hs Hf]. destruct (i =? id); [exact Hs|].
  constructor; [exact (IH Hs)|]. apply Forall_q_remove. exact Hf.
Qed.

Lemma q_ids_insert : forall x p n i q,
  In x (q_ids (q_insert (p, n, i) q)) <-> x = i \/ In x (q_ids q).
Proof.
  induction q as [|y q IH]; cbn [q_insert q_ids map In snd].
  - split; intros [H|[]]; left; congruence.
  - destruct (q_le y (p, n, i)); cbn [q_ids map In snd].
    + unfold q_ids in IH. rewrite IH. split; intros H; intuition congruence.
    + split; intros H; intuition congruence.
Qed.

Lemma NoDup_q_insert : forall p n i q,
  ~ In i (q_ids q) -> NoDup (q_ids q) -> NoDup (q_ids (q_insert (p, n, i) q)).
Proof.
  induction q as [|y q IH]; intros Hn ND; cbn [q_insert].
  - cbn. constructor; [intros []|constructor].
  - cbn [q_ids map] in ND, Hn. inversion ND as [|z zs Hz ND']; subst.
    destruct (q_le y (p, n, i)); cbn [q_ids map snd].
    + constructor.
      * intros F. apply (q_ids_insert (snd y) p n i q) in F. destruct F as [F|F].
        -- apply Hn. left. exact F.
        -- exact (Hz F).
      * apply IH; [|exact ND']. intros F. apply Hn. right. exact F.
    + constructor; [exact Hn|exact ND].
Qed.

Lemma q_ids_remove : forall x id q, NoDup (q_ids q) ->
  (In x (q_ids (q_remove id q)) <-> x <> id /\ In x (q_ids q)).
Proof.
  induction q as [|[[p n] i] q IH]; intros ND; cbn [q_remove q_ids map In snd].
  - tauto.
  - cbn [q_ids map snd] in ND. inversion ND as [|z zs Hz ND']; subst.
    destruct (N.eqb_spec i id) as [E|E].
    + subst. split.
      * intros H. split; [intros F; subst; exact (Hz H)|right; exact H].
      * intros [H1 [H2|H2]]; [exfalso; apply H1; symmetry; exact H2|exact H2].
    + cbn [q_ids map In snd]. unfold q_ids in IH. rewrite (IH ND'). split.
      * intros [H|[H1 H2]]; [split; [congruence|left; exact H]|split; [exact H1|right; exact H2]].
      * intros [H1 [H2|H2]]; [left; exact H2|right; split; assumption].
Qed.

Lemma NoDup_q_remove : forall id q, NoDup (q_ids q) -> NoDup (q_ids (q_remove id q)).
Proof.
  induction q as [|[[p n] i] q IH]; intros ND; cbn [q_remove]; [exact ND|].
  cbn [q_ids map snd] in ND. inversion ND as [|z zs Hz ND']; subst.
  destruct (i =? id); [exact ND'|]. cbn [q_ids map snd]. constructor; [|exact (IH ND')].
  intros F. apply (q_ids_remove i id q ND') in F. exact (Hz (proj2 F)).
Qed.

(* ---- release / finish, and the outcomes of a step ------------------------------------------------ *)
Definition started (sq : N) (c : pcall) : pcall :=
  {| k_id := k_id c; k_prio := k_prio c; k_fid := k_fid c; k_seq := sq; k_stage := PSending;
     k_reply := RNone |}.

Lemma finish_fst : forall st id o,
  fst (finish st id o) = fst (release (with_calls st (call_del id (p_calls st)))).
Proof. intros st id o. unfold finish. destruct (release _) as [st1 os]. reflexivity. Qed.

Lemma finish_snd : forall st id o,
  snd (finish st id o) = o :: snd (release (with_calls st (call_del id (p_calls st)))).
Proof. intros st id o. unfold finish. destruct (release _) as [st1 os]. reflexivity. Qed.

Lemma finish_after_set : forall st c o, call_get (k_id c) (p_calls st) <> None ->
  finish (with_calls st (call_set c (p_calls st))) (k_id c) o = finish st (k_id c) o.
Proof.
  intros st c o H. unfold finish, with_calls.
  cbn [p_seq p_awaiting p_holder p_queue p_counter p_calls].
  rewrite (call_del_set c (p_calls st) H). reflexivity.
Qed.

Lemma release_out_sends : forall st o, In o (snd (release st)) -> exists id s f, o = OSend id s f.
Proof.
  intros st o. unfold release. destruct (p_queue st) as [|[[p n] h] q']; cbn [snd]; [intros []|].
  destruct (call_get h (p_calls st)) as [c|]; cbn [snd start_call]; [|intros []].
  intros [H|[]]. eexists _, _, _. symmetry. exact H.
Qed.

(* What a step that is not an ECall and does not cancel a queued call can do.  [tgt]/[ro]: the call
   a reply is being delivered to, and that reply (RNone when the event delivers nothing). *)
Inductive outcome (st : pstate) (tgt : N) (ro : reply) : pstate * list pout -> Prop :=
| oc_noop : outcome st tgt ro (st, [])
| oc_upd : forall id c c',
    call_get id (p_calls st) = Some c -> k_id c' = id ->
    (k_stage c = PQueued <-> k_stage c' = PQueued) ->
    (k_stage c' = PWaiting -> k_reply c' = RNone) ->
    (k_reply c' = k_reply c \/ (k_reply c' = ro /\ id = tgt)) ->
    outcome st tgt ro (with_calls st (call_set c' (p_calls st)), [])
| oc_ret : forall id c vs,
    call_get id (p_calls st) = Some c -> k_stage c <> PQueued ->
    (k_reply c = RValues vs \/ (ro = RValues vs /\ id = tgt)) ->
    outcome st tgt ro (finish st id (OReturn id vs))
| oc_raise : forall id c k,
    call_get id (p_calls st) = Some c -> k_stage c <> PQueued ->
    outcome st tgt ro (finish st id (ORaise id k)).

Lemma deliver_outcome : forall st call r, outcome st call r (deliver st call r).
Proof.
  intros st call r. unfold deliver.
  destruct (call_get call (p_calls st)) as [c|] eqn:G; [|apply oc_noop].
  cbv zeta.
  assert (Hid : k_id (set_reply c r) = call) by (cbn; apply call_get_In in G; tauto).
  assert (Hrep : k_reply (set_reply c r) = k_reply c \/ (k_reply (set_reply c r) = r /\ call = call)).
  { cbn. destruct (k_reply c); [right; split; reflexivity|left; reflexivity|left; reflexivity]. }
  change (k_stage (set_reply c r)) with (k_stage c).
  destruct (k_stage c) eqn:S.
  - eapply oc_upd; [exact G|exact Hid|cbn [set_reply k_stage]; tauto| |exact Hrep].
    cbn [set_reply k_stage]. rewrite S. discriminate.
  - eapply oc_upd; [exact G|exact Hid|cbn [set_reply k_stage]; tauto| |exact Hrep].
    cbn [set_reply k_stage]. rewrite S. discriminate.
  - unfold complete_with_reply. destruct (k_reply (set_reply c r)) as [|vs|] eqn:R.
    + eapply oc_upd; [exact G|exact Hid|cbn [set_reply k_stage]; tauto|intros _; exact R|rewrite R; exact Hrep].
    + rewrite finish_after_set by (rewrite Hid, G; discriminate). rewrite Hid.
      eapply oc_ret; [exact G|rewrite S; discriminate|].
      destruct Hrep as [H|[H _]]; [left; symmetry; exact H|right; split; [symmetry; exact H|reflexivity]].
    + rewrite finish_after_set by (rewrite Hid, G; discriminate). rewrite Hid.
      eapply oc_raise; [exact G|rewrite S; discriminate].
Qed.

Lemma sdone_outcome : forall st id ok, outcome st 0 RNone (proto_step st (ESendDone id ok)).
Proof.
  intros st id ok. cbn [proto_step].
  destruct (call_get id (p_calls st)) as [c|] eqn:G; [|apply oc_noop].
  destruct (k_stage c) eqn:S; [apply oc_noop| |apply oc_noop].
  assert (Hid : k_id c = id) by (apply call_get_In in G; tauto).
  destruct ok.
  - cbv zeta. unfold complete_with_reply.
    assert (Hid' : k_id (set_stage c PWaiting) = id) by exact Hid.
    destruct (k_reply (set_stage c PWaiting)) as [|vs|] eqn:R.
    + eapply oc_upd; [exact G|exact Hid'| |intros _; exact R|left; reflexivity].
      rewrite S. cbn. split; discriminate.
    + rewrite finish_after_set by (rewrite Hid', G; discriminate). rewrite Hid'.
      eapply oc_ret; [exact G|rewrite S; discriminate|left; exact R].
    + rewrite finish_after_set by (rewrite Hid', G; discriminate). rewrite Hid'.
      eapply oc_raise; [exact G|rewrite S; discriminate].
  - eapply oc_raise; [exact G|rewrite S; discriminate].
Qed.

Definition frame_reply (inv : bool) (expected f : N) (vs : list ival) : reply :=
  if inv then RInvalidCommand else if expected =? f then RValues vs else RNone.

Lemma frame_outcome : forall st s f inv vs expected call,
  aw_get s (p_awaiting st) = Some (expected, call) ->
  outcome (pop_awaiting st s) call (frame_reply inv expected f vs)
          (proto_step st (EFrame (DOk s f inv vs))).
Proof.
  intros st s f inv vs expected call A. cbn [proto_step]. rewrite A. cbv zeta. unfold frame_reply.
  destruct inv; [apply deliver_outcome|].
  destruct (expected =? f); [apply deliver_outcome|apply oc_noop].
Qed.

Lemma timeout_outcome : forall st id, outcome st 0 RNone (proto_step st (ETimeout id)).
Proof.
  intros st id. cbn [proto_step].
  destruct (call_get id (p_calls st)) as [c|] eqn:G; [|apply oc_noop].
  destruct (k_stage c) eqn:S; [apply oc_noop|apply oc_noop|].
  destruct (k_reply c); [|apply oc_noop|apply oc_noop].
  eapply oc_raise; [exact G|rewrite S; discriminate].
Qed.

Definition cancel_queued (st : pstate) (id : N) : pstate :=
  {| p_seq := p_seq st; p_awaiting := p_awaiting st; p_holder := p_holder st;
     p_queue := q_remove id (p_queue st); p_counter := p_counter st;
     p_calls := call_del id (p_calls st) |}.

Lemma cancel_outcome : forall st id,
  outcome st 0 RNone (proto_step st (ECancel id)) \/
  exists c, call_get id (p_calls st) = Some c /\ k_stage c = PQueued /\
            proto_step st (ECancel id) = (cancel_queued st id, [ORaise id KCancelled]).
Proof.
  intros st id. cbn [proto_step].
  destruct (call_get id (p_calls st)) as [c|] eqn:G; [|left; apply oc_noop].
  destruct (k_stage c) eqn:S.
  - right. exists c. split; [reflexivity|]. split; [exact S|reflexivity].
  - left. eapply oc_raise; [exact G|rewrite S; discriminate].
  - left. eapply oc_raise; [exact G|rewrite S; discriminate].
Qed.

(* ---- pass: the ids of the calls in progress come from ECall events ------------------------------- *)
Lemma release_ids : forall st x,
  In x (ids (p_calls (fst (release st)))) -> In x (ids (p_calls st)).
Proof.
  intros st x. unfold release. destruct (p_queue st) as [|[[p n] h] q']; cbn [fst p_calls]; [tauto|].
  destruct (call_get h (p_calls st)) as [c|] eqn:G; cbn [fst start_call p_calls]; [|tauto].
  intros H. apply ids_call_set in H. cbn [k_id] in H. destruct H as [H|H]; [|exact H].
  apply call_get_In in G. destruct G as [G _]. subst. apply in_map. exact G.
Qed.

Lemma finish_ids : forall st id o x,
  In x (ids (p_calls (fst (finish st id o)))) -> In x (ids (p_calls st)).
Proof.
  intros st id o x H. rewrite finish_fst in H. apply release_ids in H.
  cbn [with_calls p_calls] in H. exact (ids_call_del _ _ _ H).
Qed.

Lemma outcome_ids : forall st tgt ro res x, outcome st tgt ro res ->
  In x (ids (p_calls (fst res))) -> In x (ids (p_calls st)).
Proof.
  intros st tgt ro res x O. destruct O as [|id c c' G Hid _ _ _|id c vs G _ _|id c k G _]; cbn [fst].
  - tauto.
  - cbn [with_calls p_calls]. intros H. apply ids_call_set in H. destruct H as [H|H]; [|exact H].
    apply call_get_In in G. destruct G as [G1 G2]. rewrite H, Hid, <- G2. apply in_map. exact G1.
  - apply finish_ids.
  - apply finish_ids.
Qed.

Lemma step_ids : forall st e x, In x (ids (p_calls (fst (proto_step st e)))) ->
  In x (ids (p_calls st)) \/ exists p f, e = ECall x p f.
Proof.
  intros st e x H. destruct e as [id prio fid|id ok|d|id|id].
  - cbn [proto_step] in H.
    assert (HH : x = id \/ In x (ids (p_calls st))).
    { destruct (p_holder st); [|destruct (p_queue st)]; cbn [fst start_call p_calls] in H;
        apply ids_call_set in H; exact H. }
    destruct HH as [HH|HH]; [right; subst; eauto|left; exact HH].
  - left. exact (outcome_ids _ _ _ _ _ (sdone_outcome st id ok) H).
  - left. destruct d as [|s f|s f|s f inv vs]; try exact H.
    destruct (aw_get s (p_awaiting st)) as [[expected call]|] eqn:A.
    + exact (outcome_ids _ _ _ _ _ (frame_outcome st s f inv vs expected call A) H).
    + cbn [proto_step] in H. rewrite A in H. exact H.
  - left. exact (outcome_ids _ _ _ _ _ (timeout_outcome st id) H).
  - left. destruct (cancel_outcome st id) as [O|[c [G [S E]]]].
    + exact (outcome_ids _ _ _ _ _ O H).
    + rewrite E in H. cbn [fst cancel_queued p_calls] in H. exact (ids_call_del _ _ _ H).
Qed.

(* ---- pass: the slot / queue / calls invariant ---------------------------------------------------- *)
Record InvC (h : option N) (q : list (Z * N * N)) (cs : list pcall) : Prop := {
  iv_nodup : NoDup (ids cs);
  (* a call that is sending or waiting holds the slot *)
  iv_hold : forall id c, call_get id cs = Some c -> k_stage c <> PQueued -> h = Some id;
  (* the queue lists exactly the queued calls, once each *)
  iv_q1 : forall id, In id (q_ids q) -> exists c, call_get id cs = Some c /\ k_stage c = PQueued;
  iv_q2 : forall id c, call_get id cs = Some c -> k_stage c = PQueued -> In id (q_ids q);
  iv_qnodup : NoDup (q_ids q);
  (* nobody queues while the slot is free *)
  iv_free : h = None -> q = [];
  (* the slot is held by a call that is sending or waiting *)
  iv_holder : forall x, h = Some x -> exists c, call_get x cs = Some c /\ k_stage c <> PQueued;
  iv_sorted : StronglySorted q_before q;
  (* a waiting call has no reply yet (a reply completes it at once) *)
  iv_wait : forall id c, call_get id cs = Some c -> k_stage c = PWaiting -> k_reply c = RNone
}.

Definition Inv (st : pstate) : Prop := InvC (p_holder st) (p_queue st) (p_calls st).

Lemma Inv_init : Inv p_init.
Proof.
  unfold Inv, p_init. cbn. constructor; cbn; try discriminate; try tauto.
  - constructor.
  - constructor.
  - constructor.
Qed.

Lemma InvC_upd : forall h q cs id c c',
  InvC h q cs -> call_get id cs = Some c -> k_id c' = id ->
  (k_stage c = PQueued <-> k_stage c' = PQueued) ->
  (k_stage c' = PWaiting -> k_reply c' = RNone) ->
  InvC h q (call_set c' cs).
Proof.
  intros h q cs id c c' I G Hid Hq Hw. destruct I as [i1 i2 i3 i4 i5 i6 i7 i8 i9].
  constructor.
  - apply NoDup_call_set. exact i1.
  - intros x cx. rewrite call_get_set, Hid. destruct (N.eqb_spec id x) as [E|E].
    + intros H S. inversion H; subst cx. subst x. apply (i2 id c G). tauto.
    + apply i2.
  - intros x Hx. destruct (i3 x Hx) as [cx [Gx Sx]]. rewrite call_get_set, Hid.
    destruct (N.eqb_spec id x) as [E|E].
    + exists c'. split; [reflexivity|]. subst x. rewrite G in Gx. inversion Gx; subst cx. tauto.
    + exists cx. split; assumption.
  - intros x cx. rewrite call_get_set, Hid. destruct (N.eqb_spec id x) as [E|E].
    + intros H S. inversion H; subst cx. subst x. apply (i4 id c G). tauto.
    + apply i4.
  - exact i5.
  - exact i6.
  - intros x Hx. destruct (i7 x Hx) as [cx [Gx Sx]]. rewrite call_get_set, Hid.
    destruct (N.eqb_spec id x) as [E|E].
    + exists c'. split; [reflexivity|]. subst x. rewrite G in Gx. inversion Gx; subst cx. tauto.
    + exists cx. split; assumption.
  - exact i8.
  - intros x cx. rewrite call_get_set, Hid. destruct (N.eqb_spec id x) as [E|E].
    + intros H S. inversion H; subst cx. exact (Hw S).
    + apply i9.
Qed.

(* the holder's call ends and nobody is queued *)
Lemma InvC_finish_nil : forall h cs id c,
  InvC h [] cs -> call_get id cs = Some c -> k_stage c <> PQueued ->
  InvC None [] (call_del id cs).
Proof.
  intros h cs id c I G S. destruct I as [i1 i2 i3 i4 i5 i6 i7 i8 i9].
  assert (Hh : h = Some id) by exact (i2 id c G S).
  assert (Hall : forall x cx, call_get x (call_del id cs) = Some cx -> False).
  { intros x cx. rewrite (call_get_del x id cs i1). destruct (N.eqb_spec id x) as [E|E]; [discriminate|].
    intros Gx. destruct (k_stage cx) eqn:Sx.
    - exact (i4 x cx Gx Sx).
    - assert (HH : h = Some x) by (apply (i2 x cx Gx); rewrite Sx; discriminate). congruence.
    - assert (HH : h = Some x) by (apply (i2 x cx Gx); rewrite Sx; discriminate). congruence. }
  constructor.
  - apply NoDup_call_del. exact i1.
  - intros x cx Gx. destruct (Hall x cx Gx).
  - intros x [].
  - intros x cx Gx. destruct (Hall x cx Gx).
  - constructor.
  - reflexivity.
  - discriminate.
  - constructor.
  - intros x cx Gx. destruct (Hall x cx Gx).
Qed.

(* the holder's call ends and the head of the queue starts *)
Lemma InvC_finish_cons : forall h p n hd q' cs id c,
  InvC h ((p, n, hd) :: q') cs -> call_get id cs = Some c -> k_stage c <> PQueued ->
  exists ch, call_get hd (call_del id cs) = Some ch /\
    forall sq, InvC (Some hd) q' (call_set (started sq ch) (call_del id cs)).
Proof.
  intros h p n hd q' cs id c I G S. destruct I as [i1 i2 i3 i4 i5 i6 i7 i8 i9].
  assert (Hh : h = Some id) by exact (i2 id c G S).
  destruct (i3 hd (or_introl eq_refl)) as [ch [Gh Sh]].
  assert (Hne : id <> hd).
  { intros E. subst hd. rewrite G in Gh. inversion Gh; subst ch. exact (S Sh). }
  cbn [q_ids map snd] in i5. inversion i5 as [|z zs Hz ND']; subst z zs.
  assert (Hidh : k_id ch = hd) by (apply call_get_In in Gh; tauto).
  exists ch. split.
  { rewrite (call_get_del hd id cs i1). destruct (N.eqb_spec id hd) as [E|E]; [destruct (Hne E)|exact Gh]. }
  intros sq.
  assert (GG : forall x, call_get x (call_set (started sq ch) (call_del id cs)) =
                         if hd =? x then Some (started sq ch)
                         else if id =? x then None else call_get x cs).
  { intros x. rewrite call_get_set. cbn [started k_id]. rewrite Hidh.
    rewrite (call_get_del x id cs i1). reflexivity. }
  constructor.
  - apply NoDup_call_set. apply NoDup_call_del. exact i1.
  - intros x cx. rewrite GG. destruct (N.eqb_spec hd x) as [E|E]; [intros _ _; congruence|].
    destruct (N.eqb_spec id x) as [E1|E1]; [discriminate|].
    intros Gx Sx. assert (HH : h = Some x) by exact (i2 x cx Gx Sx). congruence.
  - intros x Hx. destruct (i3 x (or_intror Hx)) as [cx [Gx Sx]]. exists cx. rewrite GG.
    destruct (N.eqb_spec hd x) as [E|E]; [subst x; destruct (Hz Hx)|].
    destruct (N.eqb_spec id x) as [E1|E1].
    + subst x. rewrite G in Gx. inversion Gx; subst cx. destruct (S Sx).
    + split; assumption.
  - intros x cx. rewrite GG. destruct (N.eqb_spec hd x) as [E|E].
    + intros H Sx. inversion H; subst cx. cbn in Sx. discriminate.
    + destruct (N.eqb_spec id x) as [E1|E1]; [discriminate|]. intros Gx Sx.
      destruct (i4 x cx Gx Sx) as [H|H]; [destruct (E H)|exact H].
  - exact ND'.
  - discriminate.
  - intros x Hx. inversion Hx; subst x. exists (started sq ch). rewrite GG, N.eqb_refl.
    split; [reflexivity|cbn; discriminate].
  - apply StronglySorted_inv in i8. exact (proj1 i8).
  - intros x cx. rewrite GG. destruct (N.eqb_spec hd x) as [E|E].
    + intros H Sx. inversion H; subst cx. cbn in Sx. discriminate.
    + destruct (N.eqb_spec id x) as [E1|E1]; [discriminate|]. apply i9.
Qed.

Lemma Inv_finish : forall st id c o,
  Inv st -> call_get id (p_calls st) = Some c -> k_stage c <> PQueued ->
  Inv (fst (finish st id o)).
Proof.
  intros st id c o I G S. rewrite finish_fst. unfold Inv in *. unfold release.
  cbn [with_calls p_seq p_awaiting p_holder p_queue p_counter p_calls].
  destruct (p_queue st) as [|[[p n] hd] q'].
  - cbn [fst p_holder p_queue p_calls]. exact (InvC_finish_nil _ _ _ _ I G S).
  - destruct (InvC_finish_cons _ _ _ _ _ _ _ _ I G S) as [ch [Gh Ih]]. rewrite Gh.
    cbn [fst start_call p_holder p_queue p_calls p_seq].
    assert (Hidh : k_id ch = hd) by (apply call_get_In in Gh; tauto). rewrite Hidh.
    specialize (Ih (p_seq st)). unfold started in Ih. rewrite Hidh in Ih. exact Ih.
Qed.

Lemma Inv_outcome : forall st tgt ro res, Inv st -> outcome st tgt ro res -> Inv (fst res).
Proof.
  intros st tgt ro res I O.
  destruct O as [|id c c' G Hid Hq Hw _|id c vs G S _|id c k G S]; cbn [fst].
  - exact I.
  - unfold Inv in *. cbn [with_calls p_holder p_queue p_calls].
    exact (InvC_upd _ _ _ _ _ _ I G Hid Hq Hw).
  - exact (Inv_finish _ _ _ _ I G S).
  - exact (Inv_finish _ _ _ _ I G S).
Qed.

Lemma InvC_call_start : forall cs c,
  InvC None [] cs -> k_stage c = PSending ->
  InvC (Some (k_id c)) [] (call_set c cs).
Proof.
  intros cs c I S. destruct I as [i1 i2 i3 i4 i5 i6 i7 i8 i9].
  constructor.
  - apply NoDup_call_set. exact i1.
  - intros x cx. rewrite call_get_set. destruct (N.eqb_spec (k_id c) x) as [E|E]; [intros; congruence|].
    intros Gx Sx. assert (HH : None = Some x) by exact (i2 x cx Gx Sx). discriminate.
  - intros x [].
  - intros x cx. rewrite call_get_set. destruct (N.eqb_spec (k_id c) x) as [E|E].
    + intros H Sx. inversion H; subst cx. congruence.
    + apply i4.
  - constructor.
  - discriminate.
  - intros x Hx. inversion Hx; subst x. exists c. rewrite call_get_set, N.eqb_refl.
    split; [reflexivity|rewrite S; discriminate].
  - constructor.
  - intros x cx. rewrite call_get_set. destruct (N.eqb_spec (k_id c) x) as [E|E].
    + intros H Sx. inversion H; subst cx. congruence.
    + apply i9.
Qed.

Lemma InvC_call_queue : forall h q cs c p n,
  InvC h q cs -> h <> None -> call_get (k_id c) cs = None -> k_stage c = PQueued ->
  InvC h (q_insert (p, n, k_id c) q) (call_set c cs).
Proof.
  intros h q cs c p n I Hh Hfresh S. destruct I as [i1 i2 i3 i4 i5 i6 i7 i8 i9].
  constructor.
  - apply NoDup_call_set. exact i1.
  - intros x cx. rewrite call_get_set. destruct (N.eqb_spec (k_id c) x) as [E|E].
    + intros H Sx. inversion H; subst cx. destruct (Sx S).
    + apply i2.
  - intros x Hx. apply q_ids_insert in Hx. rewrite call_get_set.
    destruct (N.eqb_spec (k_id c) x) as [E|E].
    + exists c. split; [reflexivity|exact S].
    + destruct Hx as [Hx|Hx]; [destruct (E (eq_sym Hx))|]. exact (i3 x Hx).
  - intros x cx. rewrite call_get_set. destruct (N.eqb_spec (k_id c) x) as [E|E].
    + intros _ _. apply q_ids_insert. left. symmetry. exact E.
    + intros Gx Sx. apply q_ids_insert. right. exact (i4 x cx Gx Sx).
  - apply NoDup_q_insert; [|exact i5]. intros F. destruct (i3 _ F) as [cx [Gx _]]. congruence.
  - intros F. destruct (Hh F).
  - intros x Hx. destruct (i7 x Hx) as [cx [Gx Sx]]. exists cx. rewrite call_get_set.
    destruct (N.eqb_spec (k_id c) x) as [E|E]; [congruence|]. split; assumption.
  - apply q_insert_sorted. exact i8.
  - intros x cx. rewrite call_get_set. destruct (N.eqb_spec (k_id c) x) as [E|E].
    + intros H Sx. inversion H; subst cx. congruence.
    + apply i9.
Qed.

Lemma InvC_cancel_queued : forall h q cs id c,
  InvC h q cs -> call_get id cs = Some c -> k_stage c = PQueued ->
  InvC h (q_remove id q) (call_del id cs).
Proof.
  intros h q cs id c I G S. destruct I as [i1 i2 i3 i4 i5 i6 i7 i8 i9].
  constructor.
  - apply NoDup_call_del. exact i1.
  - intros x cx. rewrite (call_get_del x id cs i1).
    destruct (N.eqb_spec id x) as [E|E]; [discriminate|apply i2].
  - intros x Hx. apply (q_ids_remove x id q i5) in Hx. destruct Hx as [Hne Hx].
    destruct (i3 x Hx) as [cx [Gx Sx]]. exists cx. rewrite (call_get_del x id cs i1).
    destruct (N.eqb_spec id x) as [E|E]; [destruct (Hne (eq_sym E))|]. split; assumption.
  - intros x cx. rewrite (call_get_del x id cs i1).
    destruct (N.eqb_spec id x) as [E|E]; [discriminate|]. intros Gx Sx.
    apply (q_ids_remove x id q i5). split; [intros F; exact (E (eq_sym F))|exact (i4 x cx Gx Sx)].
  - apply NoDup_q_remove. exact i5.
  - intros Hh. rewrite (i6 Hh). reflexivity.
  - intros x Hx. destruct (i7 x Hx) as [cx [Gx Sx]]. exists cx. rewrite (call_get_del x id cs i1).
    destruct (N.eqb_spec id x) as [E|E]; [|split; assumption].
    subst x. rewrite G in Gx. inversion Gx; subst cx. destruct (Sx S).
  - apply q_remove_sorted. exact i8.
  - intros x cx. rewrite (call_get_del x id cs i1).
    destruct (N.eqb_spec id x) as [E|E]; [discriminate|apply i9].
Qed.

Lemma Inv_pop : forall st s, Inv st -> Inv (pop_awaiting st s).
Proof. intros st s I. exact I. Qed.

Lemma Inv_step : forall st e, Inv st ->
  (forall id p f, e = ECall id p f -> call_get id (p_calls st) = None) ->
  Inv (fst (proto_step st e)).
Proof.
  intros st e I Hfresh. destruct e as [id prio fid|id ok|d|id|id].
  - specialize (Hfresh id prio fid eq_refl). unfold Inv in *. cbn [proto_step].
    destruct (p_holder st) as [h|] eqn:Hh.
    + cbn [fst p_holder p_queue p_calls].
      apply (InvC_call_queue (Some h) (p_queue st) (p_calls st)
               {| k_id := id; k_prio := prio; k_fid := fid; k_seq := 0; k_stage := PQueued;
                  k_reply := RNone |}); [exact I|discriminate|exact Hfresh|reflexivity].
    + assert (Hq : p_queue st = []) by exact (iv_free _ _ _ I eq_refl). rewrite Hq in *.
      cbn [fst start_call p_holder p_queue p_calls k_id k_prio k_fid]. rewrite Hq.
      apply (InvC_call_start (p_calls st)
               {| k_id := id; k_prio := prio; k_fid := fid; k_seq := p_seq st; k_stage := PSending;
                  k_reply := RNone |}); [exact I|reflexivity].
  - exact (Inv_outcome _ _ _ _ I (sdone_outcome st id ok)).
  - destruct d as [|s f|s f|s f inv vs]; try exact I.
    destruct (aw_get s (p_awaiting st)) as [[expected call]|] eqn:A.
    + exact (Inv_outcome _ _ _ _ (Inv_pop st s I) (frame_outcome st s f inv vs expected call A)).
    + cbn [proto_step]. rewrite A. exact I.
  - exact (Inv_outcome _ _ _ _ I (timeout_outcome st id)).
  - destruct (cancel_outcome st id) as [O|[c [G [S E]]]].
    + exact (Inv_outcome _ _ _ _ I O).
    + rewrite E. unfold Inv in *. cbn [fst cancel_queued p_holder p_queue p_calls].
      exact (InvC_cancel_queued _ _ _ _ _ I G S).
Qed.

Lemma reach_Inv : forall es, calls_unique es ->
  Inv (final es) /\ (forall x, In x (ids (p_calls (final es))) -> In x (calls es)).
Proof.
  induction es as [|e es IH] using rev_ind; intros U.
  - split; [exact Inv_init|]. intros x [].
  - apply calls_unique_snoc in U. destruct U as [U Hf]. destruct (IH U) as [I Hsub].
    rewrite final_snoc. split.
    + apply Inv_step; [exact I|]. intros id p f E. apply call_get_None. intros F.
      exact (Hf id p f E (Hsub id F)).
    + intros x Hx. rewrite calls_snoc. apply in_or_app. apply step_ids in Hx.
      destruct Hx as [Hx|[p [f E]]]; [left; exact (Hsub x Hx)|right; subst e; left; reflexivity].
Qed.

Lemma reachable_Inv : forall st, reachable st -> Inv st.
Proof. intros st [es [U E]]. subst st. exact (proj1 (reach_Inv es U)). Qed.

(* ---- consequences of the invariant ---------------------------------------------------------------- *)
Lemma in_flight_In : forall st c,
  In c (in_flight st) <-> In c (p_calls st) /\ k_stage c <> PQueued.
Proof.
  intros st c. unfold in_flight. rewrite filter_In.
  destruct (k_stage c); split; intros [H1 H2]; split; try exact H1; try reflexivity;
    try discriminate; exfalso; apply H2; reflexivity.
Qed.

Lemma Inv_in_flight_holder : forall st c, Inv st -> In c (in_flight st) ->
  p_holder st = Some (k_id c).
Proof.
  intros st c I H. apply in_flight_In in H. destruct H as [H S].
  apply (iv_hold _ _ _ I (k_id c) c); [|exact S]. apply In_call_get; [exact (iv_nodup _ _ _ I)|exact H].
Qed.

Lemma filter_le1 : forall (f : pcall -> bool) h l, NoDup (ids l) ->
  (forall c, In c l -> f c = true -> k_id c = h) -> (List.length (filter f l) <= 1)%nat.
Proof.
  induction l as [|a l IH]; intros ND H; cbn [filter]; [cbn; lia|].
  cbn [ids map] in ND. inversion ND as [|y ys Hn ND']; subst y ys.
  assert (H' : forall c, In c l -> f c = true -> k_id c = h)
    by (intros c Hc; apply H; right; exact Hc).
  destruct (f a) eqn:Fa; [|exact (IH ND' H')].
  assert (E : filter f l = []).
  { destruct (filter f l) as [|b t] eqn:E; [reflexivity|]. exfalso.
    assert (Hb : In b (filter f l)) by (rewrite E; left; reflexivity).
    apply filter_In in Hb. destruct Hb as [Hb Fb]. apply Hn.
    rewrite (H a (or_introl eq_refl) Fa), <- (H' b Hb Fb). apply in_map. exact Hb. }
  rewrite E. cbn. lia.
Qed.

Lemma one_in_flight : forall es, calls_unique es ->
  (List.length (in_flight (final es)) <= 1)%nat /\
  (forall c, In c (in_flight (final es)) -> p_holder (final es) = Some (k_id c)).
Proof.
  intros es U. destruct (reach_Inv es U) as [I _]. split.
  - assert (Hall : forall c, In c (p_calls (final es)) ->
                     match k_stage c with PQueued => false | _ => true end = true ->
                     p_holder (final es) = Some (k_id c)).
    { intros c Hc Fc. apply (Inv_in_flight_holder _ _ I). unfold in_flight. apply filter_In.
      split; assumption. }
    unfold in_flight. destruct (p_holder (final es)) as [h|].
    + apply (filter_le1 _ h); [exact (iv_nodup _ _ _ I)|].
      intros c Hc Fc. specialize (Hall c Hc Fc). congruence.
    + apply (filter_le1 _ 0); [exact (iv_nodup _ _ _ I)|].
      intros c Hc Fc. specialize (Hall c Hc Fc). discriminate.
  - intros c Hc. exact (Inv_in_flight_holder _ _ I Hc).
Qed.

Lemma queue_sorted : forall es, calls_unique es -> StronglySorted q_before (p_queue (final es)).
Proof. intros es U. exact (iv_sorted _ _ _ (proj1 (reach_Inv es U))). Qed.

Lemma no_slot_leak : forall es, calls_unique es ->
  p_holder (final es) = None -> p_queue (final es) = [] /\ in_flight (final es) = [].
Proof.
  intros es U Hh. destruct (reach_Inv es U) as [I _]. split; [exact (iv_free _ _ _ I Hh)|].
  destruct (in_flight (final es)) as [|c t] eqn:E; [reflexivity|]. exfalso.
  assert (Hc : In c (in_flight (final es))) by (rewrite E; left; reflexivity).
  rewrite (Inv_in_flight_holder _ _ I Hc) in Hh. discriminate.
Qed.

(* the other half of "no exit path leaks the slot": a held slot is held by a call in flight *)
Lemma holder_in_flight : forall es h, calls_unique es -> p_holder (final es) = Some h ->
  exists c, In c (in_flight (final es)) /\ k_id c = h.
Proof.
  intros es h U Hh. destruct (reach_Inv es U) as [I _].
  destruct (iv_holder _ _ _ I h Hh) as [c [G S]]. apply call_get_In in G. destruct G as [G1 G2].
  exists c. split; [|exact G2]. apply in_flight_In. split; assumption.
Qed.

Lemma head_starts : forall st p n id q c, p_queue st = (p, n, id) :: q ->
  call_get id (p_calls st) = Some c ->
  exists s, In (OSend id s (k_fid c)) (snd (release st)).
Proof.
  intros st p n id q c Hq G. unfold release. rewrite Hq, G. cbn [snd start_call].
  exists (p_seq st). left. apply call_get_In in G. destruct G as [_ G]. rewrite G. reflexivity.
Qed.

Lemma callbacks_once : forall st s f inv vs,
  aw_get s (p_awaiting st) = None ->
  proto_step st (EFrame (DOk s f inv vs)) = (st, [OCallback f vs]).
Proof. intros st s f inv vs A. cbn [proto_step]. rewrite A. reflexivity. Qed.

Lemma finish_out : forall st id o x, In x (snd (finish st id o)) ->
  x = o \/ exists id' s f, x = OSend id' s f.
Proof.
  intros st id o x H. rewrite finish_snd in H. destruct H as [H|H].
  - left. symmetry. exact H.
  - right. exact (release_out_sends _ _ H).
Qed.

Lemma outcome_no_callback : forall st tgt ro res f vs, outcome st tgt ro res ->
  ~ In (OCallback f vs) (snd res).
Proof.
  intros st tgt ro res f vs O H. destruct O as [|id c c' _ _ _ _ _|id c vs0 _ _ _|id c k _ _];
    cbn [snd] in H.
  - exact H.
  - exact H.
  - apply finish_out in H. destruct H as [H|[a [b [d H]]]]; discriminate.
  - apply finish_out in H. destruct H as [H|[a [b [d H]]]]; discriminate.
Qed.

Lemma pending_not_callback : forall st s f inv vs x f' vs',
  aw_get s (p_awaiting st) = Some x ->
  ~ In (OCallback f' vs') (snd (proto_step st (EFrame (DOk s f inv vs)))).
Proof.
  intros st s f inv vs [expected call] f' vs' A.
  exact (outcome_no_callback _ _ _ _ _ _ (frame_outcome st s f inv vs expected call A)).
Qed.

Lemma deliver_return : forall st call r id vs',
  (forall c, call_get call (p_calls st) = Some c -> k_stage c = PWaiting -> k_reply c = RNone) ->
  In (OReturn id vs') (snd (deliver st call r)) -> id = call /\ r = RValues vs'.
Proof.
  intros st call r id vs' Hw H. unfold deliver in H.
  destruct (call_get call (p_calls st)) as [c|] eqn:G; [|destruct H].
  cbv zeta in H. change (k_stage (set_reply c r)) with (k_stage c) in H.
  destruct (k_stage c) eqn:S; [destruct H|destruct H|].
  assert (E : k_reply (set_reply c r) = r) by (cbn; rewrite (Hw c eq_refl S); reflexivity).
  assert (Hid : k_id (set_reply c r) = call) by (cbn; apply call_get_In in G; tauto).
  unfold complete_with_reply in H. rewrite E, Hid in H. destruct r as [|vs0|].
  - destruct H.
  - apply finish_out in H. destruct H as [H|[a [b [d H]]]]; [|discriminate].
    inversion H. split; reflexivity.
  - apply finish_out in H. destruct H as [H|[a [b [d H]]]]; discriminate.
Qed.

Lemma no_cross : forall st s f inv vs id vs', reachable st ->
  In (OReturn id vs') (snd (proto_step st (EFrame (DOk s f inv vs)))) ->
  aw_get s (p_awaiting st) = Some (f, id) /\ inv = false /\ vs' = vs.
Proof.
  intros st s f inv vs id vs' R H. apply reachable_Inv in R. cbn [proto_step] in H.
  destruct (aw_get s (p_awaiting st)) as [[expected call]|] eqn:A.
  - cbv zeta in H.
    assert (Hw : forall c, call_get call (p_calls (pop_awaiting st s)) = Some c ->
                   k_stage c = PWaiting -> k_reply c = RNone)
      by (intros c; exact (iv_wait _ _ _ R call c)).
    destruct inv.
    + apply (deliver_return _ _ _ _ _ Hw) in H. destruct H as [_ H]. discriminate.
    + destruct (N.eqb_spec expected f) as [E|E]; [|destruct H].
      apply (deliver_return _ _ _ _ _ Hw) in H. destruct H as [H1 H2].
      inversion H2. subst. split; [reflexivity|]. split; reflexivity.
  - destruct H as [H|[]]. discriminate.
Qed.

Lemma timeout_raises_nodup : forall st id c, NoDup (ids (p_calls st)) ->
  call_get id (p_calls st) = Some c -> k_stage c = PWaiting -> k_reply c = RNone ->
  In (ORaise id KTimeout) (snd (proto_step st (ETimeout id))) /\
  call_get id (p_calls (fst (proto_step st (ETimeout id)))) = None.
Proof.
  intros st id c ND G S R. cbn [proto_step]. rewrite G, S, R. split.
  - rewrite finish_snd. left. reflexivity.
  - apply call_get_None. intros F. rewrite finish_fst in F. apply release_ids in F.
    cbn [with_calls p_calls] in F. revert F. apply call_get_None.
    rewrite (call_get_del id id _ ND), N.eqb_refl. reflexivity.
Qed.

Lemma timeout_raises : forall st id c, reachable st -> call_get id (p_calls st) = Some c ->
  k_stage c = PWaiting -> k_reply c = RNone ->
  In (ORaise id KTimeout) (snd (proto_step st (ETimeout id))) /\
  call_get id (p_calls (fst (proto_step st (ETimeout id)))) = None.
Proof.
  intros st id c R. apply timeout_raises_nodup. exact (iv_nodup _ _ _ (reachable_Inv st R)).
Qed.

(* ---- the priority table --------------------------------------------------------------------------- *)
Lemma priorities_check :
  forallb (fun x => Z.eqb (snd x) (spec_priority (fst x))) PRIORITIES = true.
Proof. vm_compute. reflexivity. Qed.

Lemma priority_classes : forall name p, In (name, p) PRIORITIES -> p = spec_priority name.
Proof.
  intros name p H. pose proof (proj1 (forallb_forall _ _) priorities_check _ H) as E.
  cbn [fst snd] in E. apply Z.eqb_eq in E. exact E.
Qed.

(* ---- pass: sequence numbers ------------------------------------------------------------------------ *)
Lemma sends_app : forall a b, sends (a ++ b) = sends a ++ sends b.
Proof. intros a b. unfold sends. apply flat_map_app. Qed.

(* a step sends at most one request; it carries the current sequence number, which then advances *)
Definition SeqStep (sq : N) (res : pstate * list pout) : Prop :=
  (sends (snd res) = [] /\ p_seq (fst res) = sq) \/
  (exists id f, sends (snd res) = [(id, sq, f)] /\ p_seq (fst res) = (sq + 1) mod 256).

Lemma release_seq : forall st, SeqStep (p_seq st) (release st).
Proof.
  intros st. unfold release, SeqStep. destruct (p_queue st) as [|[[p n] h] q'].
  - left. split; reflexivity.
  - destruct (call_get h (p_calls st)) as [c|].
    + right. exists (k_id c), (k_fid c). split; reflexivity.
    + left. split; reflexivity.
Qed.

Lemma finish_seq : forall st id o, match o with OSend _ _ _ => False | _ => True end ->
  SeqStep (p_seq st) (finish st id o).
Proof.
  intros st id o Ho. pose proof (release_seq (with_calls st (call_del id (p_calls st)))) as H.
  cbn [with_calls p_seq] in H. unfold SeqStep in *. rewrite finish_fst, finish_snd.
  assert (E : forall l, sends (o :: l) = sends l) by (intros l; destruct o; [destruct Ho| | |]; reflexivity).
  rewrite E. exact H.
Qed.

Lemma outcome_seq : forall st tgt ro res, outcome st tgt ro res -> SeqStep (p_seq st) res.
Proof.
  intros st tgt ro res O. destruct O as [|id c c' _ _ _ _ _|id c vs _ _ _|id c k _ _].
  - left. split; reflexivity.
  - left. split; reflexivity.
  - apply finish_seq. exact I.
  - apply finish_seq. exact I.
Qed.

Lemma step_seq : forall st e, SeqStep (p_seq st) (proto_step st e).
Proof.
  intros st e. destruct e as [id prio fid|id ok|d|id|id].
  - cbn [proto_step]. destruct (p_holder st); [left; split; reflexivity|].
    destruct (p_queue st); [|left; split; reflexivity].
    right. exists id, fid. split; reflexivity.
  - exact (outcome_seq _ _ _ _ (sdone_outcome st id ok)).
  - destruct d as [|s f|s f|s f inv vs]; try (left; split; reflexivity).
    destruct (aw_get s (p_awaiting st)) as [[expected call]|] eqn:A.
    + exact (outcome_seq _ _ _ _ (frame_outcome st s f inv vs expected call A)).
    + cbn [proto_step]. rewrite A. left. split; reflexivity.
  - exact (outcome_seq _ _ _ _ (timeout_outcome st id)).
  - destruct (cancel_outcome st id) as [O|[c [G [S E]]]].
    + exact (outcome_seq _ _ _ _ O).
    + rewrite E. left. split; reflexivity.
Qed.

Lemma seq_next : forall n, (N.of_nat n mod 256 + 1) mod 256 = N.of_nat (S n) mod 256.
Proof.
  intros n. rewrite Nat2N.inj_succ, <- N.add_1_r.
  rewrite N.add_mod_idemp_l by discriminate. reflexivity.
Qed.

Lemma seq_trace : forall es,
  map (fun x => snd (fst x)) (sends (outs es)) =
    map (fun k => N.of_nat k mod 256) (seq 0 (List.length (sends (outs es)))) /\
  p_seq (final es) = N.of_nat (List.length (sends (outs es))) mod 256.
Proof.
  induction es as [|e es IH] using rev_ind.
  - split; reflexivity.
  - destruct IH as [IH1 IH2]. rewrite outs_snoc, final_snoc, sends_app.
    destruct (step_seq (final es) e) as [[E1 E2]|[id [f [E1 E2]]]]; rewrite E1, E2.
    + rewrite app_nil_r. split; assumption.
    + rewrite app_length, map_app. cbn [List.length map fst snd].
      rewrite Nat.add_1_r, seq_S, map_app. cbn [map Nat.add]. rewrite IH2. split.
      * rewrite IH1. reflexivity.
      * apply seq_next.
Qed.

Lemma seq_consecutive : forall es, calls_unique es ->
  map (fun x => snd (fst x)) (sends (outs es)) =
    map (fun k => N.of_nat k mod 256) (seq 0 (List.length (sends (outs es)))).
Proof. intros es _. exact (proj1 (seq_trace es)). Qed.

(* ---- pass: where awaiting entries, replies and returns come from --------------------------------- *)
(* Sent id s f: the request of call id went out with sequence number s and frame id f;
   Wit id vs: a frame answering that request carried vs *)
Definition AwOK (Sent : N -> N -> N -> Prop) (st : pstate) : Prop :=
  forall s f id, In (s, (f, id)) (p_awaiting st) -> Sent id s f.
Definition RpOK (Wit : N -> list ival -> Prop) (st : pstate) : Prop :=
  forall c vs, In c (p_calls st) -> k_reply c = RValues vs -> Wit (k_id c) vs.
Definition ProvOK (Sent : N -> N -> N -> Prop) (Wit : N -> list ival -> Prop)
           (res : pstate * list pout) : Prop :=
  AwOK Sent (fst res) /\ RpOK Wit (fst res) /\
  (forall id vs, In (OReturn id vs) (snd res) -> Wit id vs).

Lemma release_prov : forall Sent Wit st, AwOK Sent st -> RpOK Wit st ->
  (forall id s f, In (OSend id s f) (snd (release st)) -> Sent id s f) ->
  AwOK Sent (fst (release st)) /\ RpOK Wit (fst (release st)).
Proof.
  intros Sent Wit st HA HR. unfold release. destruct (p_queue st) as [|[[p n] h] q'].
  - intros _. split; [exact HA|exact HR].
  - destruct (call_get h (p_calls st)) as [c|]; [|intros _; split; [exact HA|exact HR]].
    cbn [fst snd start_call p_seq p_awaiting p_calls]. intros Hs. split.
    + intros s f id H. apply In_aw_set in H. destruct H as [H|H]; [|exact (HA s f id H)].
      inversion H; subst. apply Hs. left. reflexivity.
    + intros x vs H R. apply In_call_set in H. destruct H as [H|H]; [|exact (HR x vs H R)].
      subst x. cbn in R. discriminate.
Qed.

Lemma finish_prov : forall Sent Wit st id o, AwOK Sent st -> RpOK Wit st ->
  (forall id' s f, In (OSend id' s f) (snd (finish st id o)) -> Sent id' s f) ->
  (forall i vs, o = OReturn i vs -> Wit i vs) ->
  ProvOK Sent Wit (finish st id o).
Proof.
  intros Sent Wit st id o HA HR Hs Ho. unfold ProvOK. rewrite finish_fst. rewrite finish_snd in *.
  destruct (release_prov Sent Wit (with_calls st (call_del id (p_calls st)))) as [H1 H2].
  - exact HA.
  - intros c vs H R. cbn [with_calls p_calls] in H. apply In_call_del in H. exact (HR c vs H R).
  - intros id' s f H. apply Hs. right. exact H.
  - split; [exact H1|]. split; [exact H2|]. intros i vs [H|H].
    + exact (Ho i vs H).
    + apply release_out_sends in H. destruct H as [a [b [d H]]]. discriminate.
Qed.

Lemma outcome_prov : forall Sent Wit st tgt ro res, AwOK Sent st -> RpOK Wit st ->
  (forall id s f, In (OSend id s f) (snd res) -> Sent id s f) ->
  (forall vs, ro = RValues vs -> Wit tgt vs) ->
  outcome st tgt ro res -> ProvOK Sent Wit res.
Proof.
  intros Sent Wit st tgt ro res HA HR Hs Hro O.
  destruct O as [|id c c' G Hid _ _ Hrep|id c vs G _ Hrep|id c k G _].
  - split; [exact HA|]. split; [exact HR|]. intros id vs [].
  - split; [exact HA|]. split; [|intros i vs []].
    intros x vs H R. cbn [fst with_calls p_calls] in H. apply In_call_set in H.
    destruct H as [H|H]; [|exact (HR x vs H R)]. subst x.
    apply call_get_In in G. destruct G as [G1 G2].
    destruct Hrep as [Hrep|[Hrep Ht]].
    + rewrite Hid, <- G2. apply HR; [exact G1|]. rewrite <- Hrep. exact R.
    + rewrite Hid, Ht. apply Hro. rewrite <- Hrep. exact R.
  - apply finish_prov; [exact HA|exact HR|exact Hs|].
    intros i vs0 E. inversion E; subst i vs0.
    apply call_get_In in G. destruct G as [G1 G2].
    destruct Hrep as [Hrep|[Hrep Ht]].
    + rewrite <- G2. exact (HR c vs G1 Hrep).
    + rewrite Ht. exact (Hro vs Hrep).
  - apply finish_prov; [exact HA|exact HR|exact Hs|]. intros i vs E. discriminate.
Qed.

Lemma step_prov : forall Sent Wit st e, AwOK Sent st -> RpOK Wit st ->
  (forall id s f, In (OSend id s f) (snd (proto_step st e)) -> Sent id s f) ->
  (forall s f vs id, e = EFrame (DOk s f false vs) -> In (s, (f, id)) (p_awaiting st) -> Wit id vs) ->
  ProvOK Sent Wit (proto_step st e).
Proof.
  intros Sent Wit st e HA HR Hs Hf.
  assert (Hnone : forall vs, RNone = RValues vs -> Wit 0 vs) by (intros; discriminate).
  destruct e as [id prio fid|id ok|d|id|id].
  - cbn [proto_step] in *.
    assert (Hq : ProvOK Sent Wit
              ({| p_seq := p_seq st; p_awaiting := p_awaiting st; p_holder := p_holder st;
                  p_queue := q_insert ((- prio)%Z, p_counter st + 1, id) (p_queue st);
                  p_counter := p_counter st + 1;
                  p_calls := call_set {| k_id := id; k_prio := prio; k_fid := fid; k_seq := 0;
                                         k_stage := PQueued; k_reply := RNone |} (p_calls st) |}, [])).
    { split; [exact HA|]. split; [|intros i vs []].
      intros x vs H R. cbn [fst p_calls] in H. apply In_call_set in H.
      destruct H as [H|H]; [subst x; discriminate|exact (HR x vs H R)]. }
    destruct (p_holder st); [exact Hq|]. destruct (p_queue st); [|exact Hq].
    cbn [start_call fst snd k_id k_fid k_prio] in *. split; [|split].
    + intros s f i H. cbn [p_awaiting] in H. apply In_aw_set in H.
      destruct H as [H|H]; [|exact (HA s f i H)]. inversion H; subst. apply Hs. left. reflexivity.
    + intros x vs H R. cbn [p_calls] in H. apply In_call_set in H.
      destruct H as [H|H]; [subst x; discriminate|exact (HR x vs H R)].
    + intros i vs [H|[]]. discriminate.
  - exact (outcome_prov _ _ _ _ _ _ HA HR Hs Hnone (sdone_outcome st id ok)).
  - destruct d as [|s f|s f|s f inv vs];
      try (split; [exact HA|split; [exact HR|intros i vs0 []]]).
    destruct (aw_get s (p_awaiting st)) as [[expected call]|] eqn:A.
    + apply (outcome_prov Sent Wit (pop_awaiting st s) call (frame_reply inv expected f vs)).
      * intros s' f' i H. cbn [pop_awaiting p_awaiting] in H. apply In_aw_del in H. exact (HA s' f' i H).
      * exact HR.
      * exact Hs.
      * unfold frame_reply. intros vs0 E. destruct inv; [discriminate|].
        destruct (N.eqb_spec expected f) as [E1|E1]; [|discriminate]. inversion E; subst.
        apply (Hf s f vs0 call eq_refl). apply aw_get_In. exact A.
      * exact (frame_outcome st s f inv vs expected call A).
    + cbn [proto_step]. rewrite A. split; [exact HA|]. split; [exact HR|].
      intros i vs0 [H|[]]. discriminate.
  - exact (outcome_prov _ _ _ _ _ _ HA HR Hs Hnone (timeout_outcome st id)).
  - destruct (cancel_outcome st id) as [O|[c [G [S E]]]].
    + exact (outcome_prov _ _ _ _ _ _ HA HR Hs Hnone O).
    + rewrite E. split; [exact HA|]. split.
      * intros x vs H R. cbn [fst cancel_queued p_calls] in H. apply In_call_del in H.
        exact (HR x vs H R).
      * intros i vs [H|[]]. discriminate.
Qed.

Definition witness (es : list pevent) (id : N) (vs : list ival) : Prop :=
  exists es1 es2 s f, es = es1 ++ EFrame (DOk s f false vs) :: es2 /\ In (OSend id s f) (outs es1).

Lemma witness_snoc : forall es e id vs, witness es id vs -> witness (es ++ [e]) id vs.
Proof.
  intros es e id vs [es1 [es2 [s [f [E H]]]]]. exists es1, (es2 ++ [e]), s, f.
  split; [|exact H]. rewrite E, <- app_assoc. reflexivity.
Qed.

Lemma prov_trace : forall es,
  AwOK (fun id s f => In (OSend id s f) (outs es)) (final es) /\
  RpOK (witness es) (final es) /\
  (forall id vs, In (OReturn id vs) (outs es) -> witness es id vs).
Proof.
  induction es as [|e es IH] using rev_ind.
  - split; [intros s f id []|]. split; [intros c vs []|intros id vs []].
  - destruct IH as [HA [HR Ho]].
    destruct (step_prov (fun id s f => In (OSend id s f) (outs (es ++ [e]))) (witness (es ++ [e]))
                        (final es) e) as [H1 [H2 H3]].
    + intros s f id H. rewrite outs_snoc. apply in_or_app. left. exact (HA s f id H).
    + intros c vs H R. apply witness_snoc. exact (HR c vs H R).
    + intros id s f H. rewrite outs_snoc. apply in_or_app. right. exact H.
    + intros s f vs id E H. subst e. exists es, [], s, f. split; [reflexivity|exact (HA s f id H)].
    + rewrite final_snoc. split; [exact H1|]. split; [exact H2|].
      intros id vs H. rewrite outs_snoc in H. apply in_app_or in H. destruct H as [H|H].
      * apply witness_snoc. exact (Ho id vs H).
      * exact (H3 id vs H).
Qed.

Lemma own_response : forall es id vs, calls_unique es ->
  In (OReturn id vs) (outs es) ->
  exists es1 es2 s f, es = es1 ++ EFrame (DOk s f false vs) :: es2 /\ In (OSend id s f) (outs es1).
Proof. intros es id vs _ H. exact (proj2 (proj2 (prov_trace es)) id vs H). Qed.
