(* Proofs for C06 (props/C06.v): the EZSP command/response machine of model/EzspProto.v.

   Plan.  [proto_step] is first flattened into a handful of "outcomes" (nothing / one call record
   updated / the holder's call finishes with a return / with a raise), see [outcome] and
   [step_outcome]; ECall and the cancellation of a queued call are treated directly.  Each property
   is then one pass over these outcomes:
     - [Inv]      the slot/queue/calls invariant          (one_in_flight, queue_sorted, no_slot_leak,
                                                           no_cross, timeout_raises)
     - [AwOK/RpOK] provenance of awaiting entries/replies (own_response)
     - [SeqStep]  at most one send per step, p_seq        (seq_consecutive)
     - ids        call ids in progress come from ECall    (freshness from calls_unique)          *)
From Coq Require Import String ZArith NArith List Bool Sorting.Sorted Lia ZifyBool ZifyN.
Import ListNotations.
Require Import BV.lib.EzspTypes BV.gen.GenProto BV.model.EzspCodec BV.model.EzspProto.
Open Scope N_scope.

(* ---- vocabulary of props/C06.v ------------------------------------------------------------------ *)
Definition outs (es : list pevent) : list pout := concat (snd (proto_run p_init es)).
Definition final (es : list pevent) : pstate := fst (proto_run p_init es).
Definition calls (es : list pevent) : list N :=
  flat_map (fun e => match e with ECall id _ _ => [id] | _ => [] end) es.
Definition calls_unique (es : list pevent) : Prop := NoDup (calls es).
Definition sends (l : list pout) : list (N * N * N) :=
  flat_map (fun o => match o with OSend id s f => [(id, s, f)] | _ => [] end) l.
Definition in_flight (st : pstate) : list pcall :=
  filter (fun c => match k_stage c with PQueued => false | _ => true end) (p_calls st).
(* (-priority, arrival counter, call): smaller first *)
Definition q_before (a b : Z * N * N) : Prop := q_le a b = true.
(* the states the machine can be in: every call has its own identity *)
Definition reachable (st : pstate) : Prop := exists es, calls_unique es /\ st = final es.

(* the priority classes named by the property, over every command name of every version *)
Definition spec_priority (name : string) : Z :=
  if existsb (String.eqb name) ["nop"; "readCounters"; "readAndClearCounters"; "getValue"]%string then 999%Z
  else if existsb (String.eqb name)
       ["sendUnicast"; "sendMulticast"; "sendBroadcast"; "setSourceRoute"; "setExtendedTimeout"]%string then (-1)%Z
  else 0%Z.

(* ---- runs ---------------------------------------------------------------------------------------- *)
Lemma proto_run_app : forall es1 es2 st,
  proto_run st (es1 ++ es2) =
  let '(st1, o1) := proto_run st es1 in
  let '(st2, o2) := proto_run st1 es2 in (st2, o1 ++ o2).
Proof.
  induction es1 as [|e es1 IH]; intros es2 st; cbn [proto_run app].
  - destruct (proto_run st es2) as [st2 o2]. reflexivity.
  - destruct (proto_step st e) as [st1 o]. rewrite IH.
    destruct (proto_run st1 es1) as [st2 os]. destruct (proto_run st2 es2) as [st3 os2]. reflexivity.
Qed.

Lemma final_snoc : forall es e, final (es ++ [e]) = fst (proto_step (final es) e).
Proof.
  intros es e. unfold final. rewrite proto_run_app.
  destruct (proto_run p_init es) as [st1 o1]. cbn [proto_run fst].
  destruct (proto_step st1 e) as [st2 o]. reflexivity.
Qed.

Lemma outs_snoc : forall es e, outs (es ++ [e]) = outs es ++ snd (proto_step (final es) e).
Proof.
  intros es e. unfold outs, final. rewrite proto_run_app.
  destruct (proto_run p_init es) as [st1 o1]. cbn [proto_run fst snd].
  destruct (proto_step st1 e) as [st2 o]. cbn [snd].
  rewrite concat_app. cbn [concat]. rewrite app_nil_r. reflexivity.
Qed.

Lemma calls_snoc : forall es e,
  calls (es ++ [e]) = calls es ++ match e with ECall id _ _ => [id] | _ => [] end.
Proof.
  intros es e. unfold calls. rewrite flat_map_app. cbn [flat_map]. rewrite app_nil_r. reflexivity.
Qed.

Lemma calls_unique_snoc : forall es e, calls_unique (es ++ [e]) ->
  calls_unique es /\ (forall id p f, e = ECall id p f -> ~ In id (calls es)).
Proof.
  unfold calls_unique. intros es e H. rewrite calls_snoc in H. destruct e as [id p f| | | |].
  - apply NoDup_remove in H. rewrite app_nil_r in H. destruct H as [H1 H2].
    split; [exact H1|]. intros id' p' f' E. inversion E; subst. exact H2.
  - rewrite app_nil_r in H. split; [exact H|]. intros; discriminate.
  - rewrite app_nil_r in H. split; [exact H|]. intros; discriminate.
  - rewrite app_nil_r in H. split; [exact H|]. intros; discriminate.
  - rewrite app_nil_r in H. split; [exact H|]. intros; discriminate.
Qed.

(* ---- the call dictionary ------------------------------------------------------------------------- *)
Definition ids (l : list pcall) : list N := map k_id l.

Lemma call_get_In : forall id l c, call_get id l = Some c -> In c l /\ k_id c = id.
Proof.
  induction l as [|a l IH]; intros c H; cbn [call_get] in H; [discriminate|].
  destruct (N.eqb_spec (k_id a) id) as [E|E].
  - inversion H; subst. split; [left; reflexivity|reflexivity].
  - destruct (IH c H) as [H1 H2]. split; [right; exact H1|exact H2].
Qed.

Lemma call_get_None : forall id l, call_get id l = None <-> ~ In id (ids l).
Proof.
  induction l as [|a l IH]; cbn [call_get ids map In].
  - split; [intros _ F; exact F|reflexivity].
  - destruct (N.eqb_spec (k_id a) id) as [E|E].
    + split; [discriminate|]. intros F. exfalso. apply F. left. exact E.
    + rewrite IH. unfold ids. tauto.
Qed.

Lemma In_call_get : forall l c, NoDup (ids l) -> In c l -> call_get (k_id c) l = Some c.
Proof.
  induction l as [|a l IH]; intros c ND H; [destruct H|].
  cbn [ids map] in ND. inversion ND as [|x xs Hn ND']; subst. cbn [call_get].
  destruct H as [H|H].
  - subst. rewrite N.eqb_refl. reflexivity.
  - destruct (N.eqb_spec (k_id a) (k_id c)) as [E|E].
    + exfalso. apply Hn. rewrite E. apply in_map. exact H.
    + apply IH; assumption.
Qed.

Lemma call_get_set : forall x c l,
  call_get x (call_set c l) = if k_id c =? x then Some c else call_get x l.
Proof.
  induction l as [|a l IH]; cbn [call_set call_get].
  - reflexivity.
  - destruct (N.eqb_spec (k_id a) (k_id c)) as [E|E]; cbn [call_get].
    + rewrite E. destruct (k_id c =? x); reflexivity.
    + rewrite IH. destruct (N.eqb_spec (k_id a) x) as [E1|E1]; [|reflexivity].
      destruct (N.eqb_spec (k_id c) x) as [E2|E2]; [|reflexivity]. exfalso. apply E. congruence.
Qed.

Lemma call_get_del : forall x id l, NoDup (ids l) ->
  call_get x (call_del id l) = if id =? x then None else call_get x l.
Proof.
  induction l as [|a l IH]; intros ND; cbn [call_del call_get].
  - destruct (id =? x); reflexivity.
  - cbn [ids map] in ND. inversion ND as [|y ys Hn ND']; subst.
    destruct (N.eqb_spec (k_id a) id) as [E|E].
    + destruct (N.eqb_spec id x) as [E1|E1].
      * apply call_get_None. rewrite <- E1, <- E. exact Hn.
      * destruct (N.eqb_spec (k_id a) x) as [E2|E2]; [exfalso; apply E1; congruence|reflexivity].
    + cbn [call_get]. rewrite (IH ND').
      destruct (N.eqb_spec (k_id a) x) as [E2|E2]; [|reflexivity].
      destruct (N.eqb_spec id x) as [E1|E1]; [exfalso; apply E; congruence|reflexivity].
Qed.

Lemma In_call_set : forall x c l, In x (call_set c l) -> x = c \/ In x l.
Proof.
  induction l as [|a l IH]; cbn [call_set]; intros H.
  - destruct H as [H|[]]. left. symmetry. exact H.
  - destruct (k_id a =? k_id c).
    + destruct H as [H|H]; [left; symmetry; exact H|right; right; exact H].
    + destruct H as [H|H]; [right; left; exact H|].
      destruct (IH H) as [H1|H1]; [left; exact H1|right; right; exact H1].
Qed.

Lemma In_call_del : forall x id l, In x (call_del id l) -> In x l.
Proof.
  induction l as [|a l IH]; cbn [call_del]; intros H; [exact H|].
  destruct (k_id a =? id); [right; exact H|].
  destruct H as [H|H]; [left; exact H|right; exact (IH H)].
Qed.

Lemma ids_call_set : forall x c l, In x (ids (call_set c l)) -> x = k_id c \/ In x (ids l).
Proof.
  unfold ids. intros x c l H. apply in_map_iff in H. destruct H as [y [E H]].
  apply In_call_set in H. destruct H as [H|H].
  - left. subst. reflexivity.
  - right. subst. apply in_map. exact H.
Qed.

Lemma ids_call_del : forall x id l, In x (ids (call_del id l)) -> In x (ids l).
Proof.
  unfold ids. intros x id l H. apply in_map_iff in H. destruct H as [y [E H]].
  apply In_call_del in H. subst. apply in_map. exact H.
Qed.

Lemma NoDup_call_set : forall c l, NoDup (ids l) -> NoDup (ids (call_set c l)).
Proof.
  induction l as [|a l IH]; intros ND; cbn [call_set].
  - cbn. constructor; [intros []|constructor].
  - cbn [ids map] in ND. inversion ND as [|y ys Hn ND']; subst.
    destruct (N.eqb_spec (k_id a) (k_id c)) as [E|E]; cbn [ids map].
    + rewrite <- E. constructor; assumption.
    + constructor; [|exact (IH ND')]. intros F. apply ids_call_set in F.
      destruct F as [F|F]; [exact (E F)|exact (Hn F)].
Qed.

Lemma NoDup_call_del : forall id l, NoDup (ids l) -> NoDup (ids (call_del id l)).
Proof.
  induction l as [|a l IH]; intros ND; cbn [call_del]; [exact ND|].
  cbn [ids map] in ND. inversion ND as [|y ys Hn ND']; subst.
  destruct (k_id a =? id); [exact ND'|]. cbn [ids map].
  constructor; [|exact (IH ND')]. intros F. apply Hn. exact (ids_call_del _ _ _ F).
Qed.

(* replacing the record of a call and then forgetting the call = forgetting the call *)
Lemma call_del_set : forall c l, call_get (k_id c) l <> None ->
  call_del (k_id c) (call_set c l) = call_del (k_id c) l.
Proof.
  induction l as [|a l IH]; intros H; cbn [call_get] in H; [exfalso; apply H; reflexivity|].
  cbn [call_set call_del]. destruct (N.eqb_spec (k_id a) (k_id c)) as [E|E]; cbn [call_del].
  - rewrite N.eqb_refl. reflexivity.
  - destruct (N.eqb_spec (k_id a) (k_id c)) as [E'|_]; [exfalso; exact (E E')|].
    rewrite (IH H). reflexivity.
Qed.

(* ---- the awaiting dictionary (membership is enough) ---------------------------------------------- *)
Lemma aw_get_In : forall s v l, aw_get s l = Some v -> In (s, v) l.
Proof.
  induction l as [|[s' v'] l IH]; cbn [aw_get]; intros H; [discriminate|].
  destruct (N.eqb_spec s' s) as [E|E].
  - inversion H; subst. left. reflexivity.
  - right. exact (IH H).
Qed.

Lemma In_aw_del : forall x s l, In x (aw_del s l) -> In x l.
Proof.
  induction l as [|[s' v'] l IH]; cbn [aw_del]; intros H; [exact H|].
  destruct (s' =? s); [right; exact H|].
  destruct H as [H|H]; [left; exact H|right; exact (IH H)].
Qed.

Lemma In_aw_set : forall x s v l, In x (aw_set s v l) -> x = (s, v) \/ In x l.
Proof.
  induction l as [|[s' v'] l IH]; cbn [aw_set]; intros H.
  - destruct H as [H|[]]. left. symmetry. exact H.
  - destruct (s' =? s).
    + destruct H as [H|H]; [left; symmetry; exact H|right; right; exact H].
    + destruct H as [H|H]; [right; left; exact H|].
      destruct (IH H) as [H1|H1]; [left; exact H1|right; right; exact H1].
Qed.

(* ---- the queue ----------------------------------------------------------------------------------- *)
Definition q_ids (q : list (Z * N * N)) : list N := map snd q.

Lemma q_le_trans : forall a b c, q_le a b = true -> q_le b c = true -> q_le a c = true.
Proof. intros [[pa ca] ia] [[pb cb] ib] [[pc cc] ic]; unfold q_le; lia. Qed.

Lemma q_le_total : forall a b, q_le a b = false -> q_le b a = true.
Proof. intros [[pa ca] ia] [[pb cb] ib]; unfold q_le; lia. Qed.

Lemma Forall_q_insert : forall (P : Z * N * N -> Prop) x q,
  P x -> Forall P q -> Forall P (q_insert x q).
Proof.
  induction q as [|y q IH]; intros Hx Hq; cbn [q_insert].
  - constructor; [exact Hx|constructor].
  - inversion Hq as [|y' q' Hy Hq']; subst. destruct (q_le y x).
    + constructor; [exact Hy|exact (IH Hx Hq')].
    + constructor; [exact Hx|exact Hq].
Qed.

Lemma Forall_q_remove : forall (P : Z * N * N -> Prop) id q,
  Forall P q -> Forall P (q_remove id q).
Proof.
  induction q as [|[[p n] i] q IH]; intros Hq; cbn [q_remove]; [exact Hq|].
  inversion Hq as [|y' q' Hy Hq']; subst. destruct (i =? id); [exact Hq'|].
  constructor; [exact Hy|exact (IH Hq')].
Qed.

Lemma q_insert_sorted : forall x q,
  StronglySorted q_before q -> StronglySorted q_before (q_insert x q).
Proof.
  induction q as [|y q IH]; intros H; cbn [q_insert].
  - constructor; constructor.
  - apply StronglySorted_inv in H. destruct H as [Hs Hf]. destruct (q_le y x) eqn:E.
    + constructor; [exact (IH Hs)|]. apply Forall_q_insert; [exact E|exact Hf].
    + apply q_le_total in E. constructor.
      * constructor; assumption.
      * constructor; [exact E|].
        eapply Forall_impl; [|exact Hf]. intros z Hz. unfold q_before in *.
        exact (q_le_trans _ _ _ E Hz).
Qed.

Lemma q_remove_sorted : forall id q,
  StronglySorted q_before q -> StronglySorted q_before (q_remove id q).
Proof.
  induction q as [|[[p n] i] q IH]; intros H; cbn [q_remove]; [exact H|].
  apply StronglySorted_inv in H. destruct H as [Hs Hf]. destruct (i =? id); [exact Hs|].
  constructor; [exact (IH Hs)|]. apply Forall_q_remove. exact Hf.
Qed.

Lemma q_ids_insert : forall x p n i q,
  In x (q_ids (q_insert (p, n, i) q)) <-> x = i \/ In x (q_ids q).
Proof.
  induction q as [|y q IH]; cbn [q_insert q_ids map In snd].
  - split; intros [H|[]]; left; congruence.
  - destruct (q_le y (p, n, i)); cbn [q_ids map In snd].
    + unfold q_ids in IH. rewrite IH. split; intros H; intuition congruence.
    + split; intros H; intuition congruence.
Qed.

Lemma NoDup_q_insert : forall p n i q,
  ~ In i (q_ids q) -> NoDup (q_ids q) -> NoDup (q_ids (q_insert (p, n, i) q)).
Proof.
  induction q as [|y q IH]; intros Hn ND; cbn [q_insert].
  - cbn. constructor; [intros []|constructor].
  - cbn [q_ids map] in ND, Hn. inversion ND as [|z zs Hz ND']; subst.
    destruct (q_le y (p, n, i)); cbn [q_ids map snd].
    + constructor.
      * intros F. apply (q_ids_insert (snd y) p n i q) in F. destruct F as [F|F].
        -- apply Hn. left. exact F.
        -- exact (Hz F).
      * apply IH; [|exact ND']. intros F. apply Hn. right. exact F.
    + constructor; [exact Hn|exact ND].
Qed.

Lemma q_ids_remove : forall x id q, NoDup (q_ids q) ->
  (In x (q_ids (q_remove id q)) <-> x <> id /\ In x (q_ids q)).
Proof.
  induction q as [|[[p n] i] q IH]; intros ND; cbn [q_remove q_ids map In snd].
  - tauto.
  - cbn [q_ids map snd] in ND. inversion ND as [|z zs Hz ND']; subst.
    destruct (N.eqb_spec i id) as [E|E].
    + subst. split.
      * intros H. split; [intros F; subst; exact (Hz H)|right; exact H].
      * intros [H1 [H2|H2]]; [exfalso; apply H1; symmetry; exact H2|exact H2].
    + cbn [q_ids map In snd]. unfold q_ids in IH. rewrite (IH ND'). split.
      * intros [H|[H1 H2]]; [split; [congruence|left; exact H]|split; [exact H1|right; exact H2]].
      * intros [H1 [H2|H2]]; [left; exact H2|right; split; assumption].
Qed.

Lemma NoDup_q_remove : forall id q, NoDup (q_ids q) -> NoDup (q_ids (q_remove id q)).
Proof.
  induction q as [|[[p n] i] q IH]; intros ND; cbn [q_remove]; [exact ND|].
  cbn [q_ids map snd] in ND. inversion ND as [|z zs Hz ND']; subst.
  destruct (i =? id); [exact ND'|]. cbn [q_ids map snd]. constructor; [|exact (IH ND')].
  intros F. apply (q_ids_remove i id q ND') in F. exact (Hz (proj2 F)).
Qed.
