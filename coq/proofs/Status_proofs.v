From Coq Require Import NArith List Bool String Lia.
Import ListNotations.
Require Import BV.lib.Sweep BV.gen.GenStatus BV.model.Status.
Open Scope N_scope.

(* boolean form of "OK exactly for the family's success code", one byte-wide family *)
Definition ok_iff_b (f : family) (c : N) : bool :=
  Bool.eqb (normalise f c =? sl_OK) (c =? success_code f).

Lemma ok_iff_sweep_ezsp : forallb (ok_iff_b FEzsp) (Nbelow 256) = true.
Proof. vm_compute. reflexivity. Qed.

Lemma ok_iff_sweep_ember : forallb (ok_iff_b FEmber) (Nbelow 256) = true.
Proof. vm_compute. reflexivity. Qed.

Lemma ok_iff_legacy (f : family) (c : N) :
  f <> FUnified -> c < 256 -> (normalise f c = sl_OK <-> c = success_code f).
Proof.
  intros Hf Hc.
  assert (H : ok_iff_b f c = true).
  { destruct f; [apply (forallb_byte _ ok_iff_sweep_ezsp c Hc)
                |apply (forallb_byte _ ok_iff_sweep_ember c Hc)|congruence]. }
  unfold ok_iff_b in H. apply Bool.eqb_prop in H.
  rewrite <- !N.eqb_eq. rewrite H. tauto.
Qed.

Lemma unified_unchanged (c : N) : normalise FUnified c = c.
Proof. reflexivity. Qed.

Lemma lookup_map_In tag c m u : lookup_map tag c m = Some u -> In (tag, c, u) m.
Proof.
  induction m as [|[[t c'] u'] m IH]; cbn [lookup_map]; [discriminate|].
  destruct (andb (t =? tag) (c' =? c)) eqn:E.
  - intros H. injection H as ->. apply andb_true_iff in E. destruct E as [E1 E2].
    apply N.eqb_eq in E1. apply N.eqb_eq in E2. subst. left. reflexivity.
  - intros H. right. apply IH. exact H.
Qed.

(* every output on a legacy family is FAIL or a value listed in the table: no invented codes *)
Lemma legacy_output (f : family) (c : N) :
  f <> FUnified ->
  normalise f c = sl_FAIL \/ In (fam_tag f, c, normalise f c) status_map.
Proof.
  intros Hf. unfold normalise, normalise_with.
  destruct f; try congruence.
  all: destruct (lookup_map _ c status_map) eqn:E; [right; apply lookup_map_In; exact E | left; reflexivity].
Qed.
