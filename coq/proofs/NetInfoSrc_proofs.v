(* C14, source tie: the functions emitted from the source text of util.zha_security, the two key conversions, the
   per-version write accessors and ControllerApplication.write_network_info (gen/GenNetInfoFn.v) against the
   hand-written model (model/NetInfo.v). *)
From Coq Require Import String ZArith NArith List Bool Lia.
Import ListNotations.
Require Import BV.gen.GenSecurity BV.model.NetInfo BV.gen.GenNetInfoFn.
Open Scope N_scope.

(* ---- zha_security ---------------------------------------------------------------------------------------------- *)
Lemma src_security_state : forall ni use_hashed hashed,
  (use_hashed = true -> hashed_tclk ni = Some hashed) ->
  py_zha_security ni use_hashed = Some (zha_security ni use_hashed hashed).
Proof.
  intros ni u h H. unfold py_zha_security, zha_security, py_key_of_hex.
  destruct u.
  - rewrite (H eq_refl). destruct (tc_address ni); reflexivity.
  - destruct (tc_address ni); reflexivity.
Qed.

Lemma src_security_state_no_hash : forall ni, hashed_tclk ni = None -> py_zha_security ni true = None.
Proof. intros ni H. unfold py_zha_security. rewrite H. destruct (tc_address ni); reflexivity. Qed.

(* ---- the key conversions ------------------------------------------------------------------------------------------ *)
Definition kbit (name : string) : N := flag name KEY_STRUCT_BITS.
Definition unknown_eui : bytes := [255; 255; 255; 255; 255; 255; 255; 255].

(* which bit of the key struct's bitmask guards which field; a field whose bit is clear keeps the default of zigpy's Key *)
Lemma src_key_from_ezsp : forall e,
  let z := py_ezsp_key_to_zigpy_key e in
  zk_key z = ek_key e /\
  zk_seq z = (if has_bits (ek_bitmask e) (kbit "KEY_HAS_SEQUENCE_NUMBER") then ek_sequenceNumber e else Some 0) /\
  zk_tx_counter z = (if has_bits (ek_bitmask e) (kbit "KEY_HAS_OUTGOING_FRAME_COUNTER") then ek_outgoingFrameCounter e else Some 0) /\
  zk_rx_counter z = (if has_bits (ek_bitmask e) (kbit "KEY_HAS_INCOMING_FRAME_COUNTER") then ek_incomingFrameCounter e else Some 0) /\
  zk_partner_ieee z = (if has_bits (ek_bitmask e) (kbit "KEY_HAS_PARTNER_EUI64") then ek_partnerEUI64 e else Some unknown_eui).
Proof.
  intro e. unfold py_ezsp_key_to_zigpy_key. cbn [zk_key zk_seq zk_tx_counter zk_rx_counter zk_partner_ieee].
  change (kbit "KEY_HAS_SEQUENCE_NUMBER") with 1. change (kbit "KEY_HAS_OUTGOING_FRAME_COUNTER") with 2.
  change (kbit "KEY_HAS_INCOMING_FRAME_COUNTER") with 4. change (kbit "KEY_HAS_PARTNER_EUI64") with 8.
  repeat split;
    match goal with |- context [has_bits ?m ?b] => destruct (has_bits m b) end; reflexivity.
Qed.

(* the other way: every field that is present is copied and its bit set; no other bit is set *)
Lemma src_key_to_ezsp : forall z,
  let e := py_zigpy_key_to_ezsp_key z in
  ek_key e = zk_key z /\ ek_sequenceNumber e = zk_seq z /\ ek_outgoingFrameCounter e = zk_tx_counter z /\
  ek_incomingFrameCounter e = zk_rx_counter z /\ ek_partnerEUI64 e = zk_partner_ieee z /\
  ek_bitmask e = N.lor (N.lor (N.lor (if zk_seq z then kbit "KEY_HAS_SEQUENCE_NUMBER" else 0)
                                     (if zk_tx_counter z then kbit "KEY_HAS_OUTGOING_FRAME_COUNTER" else 0))
                              (if zk_rx_counter z then kbit "KEY_HAS_INCOMING_FRAME_COUNTER" else 0))
                       (if zk_partner_ieee z then kbit "KEY_HAS_PARTNER_EUI64" else 0).
Proof.
  intro z. unfold py_zigpy_key_to_ezsp_key.
  destruct (zk_seq z), (zk_tx_counter z), (zk_rx_counter z), (zk_partner_ieee z); repeat split; reflexivity.
Qed.

Lemma src_key_roundtrip_zigpy : forall k tx rx seq p,
  let z := {| zk_key := k; zk_tx_counter := Some tx; zk_rx_counter := Some rx; zk_seq := Some seq; zk_partner_ieee := Some p |} in
  py_ezsp_key_to_zigpy_key (py_zigpy_key_to_ezsp_key z) = z.
Proof. intros. reflexivity. Qed.

Lemma src_key_roundtrip_ezsp : forall k tx rx seq p,
  let e := {| ek_bitmask := N.lor (N.lor (N.lor (kbit "KEY_HAS_SEQUENCE_NUMBER") (kbit "KEY_HAS_OUTGOING_FRAME_COUNTER"))
                                         (kbit "KEY_HAS_INCOMING_FRAME_COUNTER")) (kbit "KEY_HAS_PARTNER_EUI64");
              ek_key := k; ek_outgoingFrameCounter := Some tx; ek_incomingFrameCounter := Some rx;
              ek_sequenceNumber := Some seq; ek_partnerEUI64 := Some p |} in
  py_zigpy_key_to_ezsp_key (py_ezsp_key_to_zigpy_key e) = e.
Proof. intros. reflexivity. Qed.

(* a field that is absent (None) comes back as the default, not as None: the conversion is not injective there *)
Lemma src_key_absent_field_defaulted : forall k,
  let z := {| zk_key := k; zk_tx_counter := None; zk_rx_counter := None; zk_seq := None; zk_partner_ieee := None |} in
  py_ezsp_key_to_zigpy_key (py_zigpy_key_to_ezsp_key z) =
  {| zk_key := k; zk_tx_counter := Some 0; zk_rx_counter := Some 0; zk_seq := Some 0; zk_partner_ieee := Some unknown_eui |}.
Proof. intros. reflexivity. Qed.

(* ---- the write accessors: what the commands they send store (the reading of a command as a store of the model's
   NCP is the firmware assumption of NetInfo.v; value ids from the live enum) ------------------------------------ *)
Definition stores_of_cmd (c : py_cmd) : list wop :=
  match c with
  | CQuery _ | CGuard => []
  | CSetValue id n => if id =? VALUE_NWK_FRAME_COUNTER then [WNwkFc n]
                      else if id =? VALUE_APS_FRAME_COUNTER then [WApsFc n] else []
  | CAddOrUpdateKeyTableEntry a link_key k => if link_key then [WKeyByAddress a k] else []
  | CImportLinkKey i a k => [WKeyAt i a k]
  | CSetChildData i e n => [WChild i e n]
  end.
Definition stores_of (l : list py_cmd) : list wop := flat_map stores_of_cmd l.

Lemma version_cases : forall v, 4 <= v -> v <= 14 ->
  v = 4 \/ v = 5 \/ v = 6 \/ v = 7 \/ v = 8 \/ v = 9 \/ v = 10 \/ v = 11 \/ v = 12 \/ v = 13 \/ v = 14.
Proof. intros. lia. Qed.

Ltac each_version v H1 H2 :=
  destruct (version_cases v H1 H2) as [E|[E|[E|[E|[E|[E|[E|[E|[E|[E|E]]]]]]]]]]; subst v.

Lemma src_nwk_fc_stores : forall v n, 4 <= v -> v <= 14 ->
  stores_of (py_write_nwk_frame_counter v n) = if 4 <? v then [WNwkFc n] else [].
Proof. intros v n H1 H2. each_version v H1 H2; reflexivity. Qed.

Lemma src_aps_fc_stores : forall v n, 4 <= v -> v <= 14 ->
  stores_of (py_write_aps_frame_counter v n) = if 4 <? v then [WApsFc n] else [].
Proof. intros v n H1 H2. each_version v H1 H2; reflexivity. Qed.

Lemma keys_by_address_stores : forall l,
  stores_of (py_EZSPv4_write_link_keys l) = map (fun k => WKeyByAddress (fst k) (snd k)) l.
Proof. induction l as [|k l IH]; [reflexivity|]. unfold stores_of, py_EZSPv4_write_link_keys in *. simpl. now rewrite IH. Qed.

Lemma keys_at_stores_from : forall l i,
  stores_of (flat_map (fun '(index, key) => [CImportLinkKey index (fst key) (snd key)]) (enumerate i l))
  = map (fun x => WKeyAt (fst x) (fst (snd x)) (snd (snd x))) (enumerate i l).
Proof. induction l as [|k l IH]; intro i; [reflexivity|]. unfold stores_of in *. simpl. now rewrite IH. Qed.

Lemma src_link_keys_stores : forall v l, 4 <= v -> v <= 14 ->
  stores_of (py_write_link_keys v l) =
  if v <? 13 then map (fun k => WKeyByAddress (fst k) (snd k)) l
  else map (fun x => WKeyAt (fst x) (fst (snd x)) (snd (snd x))) (enumerate 0 l).
Proof.
  intros v l H1 H2. each_version v H1 H2;
    first [ exact (keys_by_address_stores l) | exact (keys_at_stores_from l 0) ].
Qed.

Lemma children_stores_from : forall (l : list (bytes * N)) i,
  stores_of (flat_map (fun '(index, (eui64, nwk)) => [CSetChildData index eui64 nwk]) (enumerate i l))
  = map (fun x => WChild (fst x) (fst (snd x)) (snd (snd x))) (enumerate i l).
Proof. induction l as [|[e a] l IH]; intro i; [reflexivity|]. unfold stores_of in *. simpl. now rewrite IH. Qed.

Lemma src_child_data_stores : forall v l, 4 <= v -> v <= 14 ->
  stores_of (py_write_child_data v l) =
  if v <? 9 then [] else map (fun x => WChild (fst x) (fst (snd x)) (snd (snd x))) (enumerate 0 l).
Proof.
  intros v l H1 H2. each_version v H1 H2;
    first [ reflexivity | exact (children_stores_from l 0) ].
Qed.

(* the dict comprehension of write_network_info is the model's known_children *)
Lemma src_known_children : forall ni,
  flat_map (fun c => if py_in_nwk_addresses c then
                       match py_nwk_address c with Some a => [(py_child_ieee c, a)] | None => [] end else []) (children ni)
  = known_children ni.
Proof.
  intro ni. unfold known_children. apply flat_map_ext. intros [e [a|]]; reflexivity.
Qed.

(* ---- write_network_info: the steps it awaits, read as steps of the model ------------------------------------------- *)
Definition step_of (v : N) (s : py_app_step) : list wstep :=
  match s with
  | AResetNetworkInfo => [StRestore]
  | AGetEui64 | ACanRewrite | ACanBurn | AGuard => []
  | AWriteCustomEui64 _ _ => [StWriteEui64]
  | AReset => [StReboot]
  | AWriteNwkFc n => map StStore (stores_of (py_write_nwk_frame_counter v n))
  | AWriteApsFc n => map StStore (stores_of (py_write_aps_frame_counter v n))
  | ASetInitialSecurityState s => [StStore (WSecurity s)]
  | AWriteLinkKeys l => map StStore (stores_of (py_write_link_keys v l))
  | AWriteChildData l => map StStore (stores_of (py_write_child_data v l))
  | AFormNetwork p => [StStore (WForm p)]
  | AEnsureRunning => [StNetworkUp]
  end.
Definition steps_of (v : N) (l : list py_app_step) : list wstep := flat_map (step_of v) l.

Definition OPT_IN : string := "i_understand_i_can_update_eui64_only_once_and_i_still_want_to_do_it".

Definition wn_steps (r : list py_app_step * py_wn_outcome * netinfo * py_eui) := fst (fst (fst r)).
Definition wn_outcome (r : list py_app_step * py_wn_outcome * netinfo * py_eui) := snd (fst (fst r)).
Definition wn_netinfo (r : list py_app_step * py_wn_outcome * netinfo * py_eui) := snd (fst r).
Definition wn_node_ieee (r : list py_app_step * py_wn_outcome * netinfo * py_eui) := snd r.

Lemma bytes_eqb_refl : forall a, bytes_eqb a a = true.
Proof. induction a; simpl; [reflexivity|]. now rewrite N.eqb_refl. Qed.

Lemma src_write_order : forall v ni node_ieee ncp_eui64 can_rewrite can_burn flags rh,
  4 <= v -> v <= 14 -> hashed_tclk ni <> Some [] ->
  let wrote := eui64_written node_ieee ncp_eui64 can_rewrite can_burn (flags OPT_IN) in
  let r := py_write_network_info v ni node_ieee ncp_eui64 can_rewrite can_burn flags rh in
  wn_outcome r = WnDone /\
  steps_of v (wn_steps r) = write_steps v wrote (effective_netinfo wrote ncp_eui64 ni) rh.
Proof.
  intros v ni node ncp cr cb flags rh H1 H2 Hh wrote r. subst wrote r.
  unfold py_write_network_info, eui64_written. fold OPT_IN.
  assert (Hsec : forall X u h, (u = true -> hashed_tclk X = Some h) ->
                 py_zha_security X u = Some (zha_security X u h)) by exact src_security_state.
  assert (Hpr : forall X a, hashed_tclk (ni_set_tc_address X a) = hashed_tclk X) by reflexivity.
  (* the ways through the EUI64 handling, the version test, the stack-specific hashed key *)
  destruct node as [a|]; cbn [py_eui_eqb negb andb];
    [destruct (bytes_eqb a ncp); cbn [negb andb]; destruct cr; cbn [negb andb orb];
     [..| destruct (flags OPT_IN); cbn [negb andb orb]; [destruct cb; cbn [negb andb orb]|]]|];
    destruct (4 <? v) eqn:Ev; cbn [andb]; rewrite ?Hpr;
    (destruct (hashed_tclk ni) as [[|x t]|] eqn:Eh; [exfalso; apply Hh; reflexivity|..]); cbn [py_truthy_hex negb].
  all: match goal with
       | |- context [py_zha_security ?X true] =>
           erewrite (Hsec X true) by (intros _; rewrite ?Hpr; first [exact Eh | reflexivity])
       | |- context [py_zha_security ?X false] =>
           rewrite (Hsec X false (match hashed_tclk ni with Some h => h | None => rh end)) by discriminate
       end.
  all: (split; [reflexivity|]).
  all: unfold wn_steps, steps_of, write_steps, write_plan, effective_netinfo; cbn [fst snd app flat_map step_of].
  all: rewrite ?src_nwk_fc_stores, ?src_aps_fc_stores, ?src_link_keys_stores, ?src_child_data_stores by assumption.
  all: rewrite ?src_known_children.
  all: cbn [hashed_tclk ni_set_hashed_tclk ni_set_tc_address link_keys children nwk_key_fc tclk_fc pan_id ext_pan_id channel
         channel_mask update_id manager_id].
  all: rewrite ?Ev, ?Eh; cbn [map app]; rewrite ?map_app, ?app_nil_r; cbn [map app].
  all: rewrite <- ?app_assoc; cbn [map app].
  all: reflexivity.
Qed.

(* an empty hex string under "hashed_tclk" is false for `not stack_specific.get(..)`: from v5 on the source replaces it
   by the random default, where [write_plan] would send the empty key (hence the hypothesis above) *)
Lemma src_empty_hash_replaced : forall v ni ncp rh, (4 < v) -> (hashed_tclk ni = Some []) ->
  let r := py_write_network_info v ni None ncp false false (fun _ => false) rh in
  hashed_tclk (wn_netinfo r) = Some rh /\
  In (ASetInitialSecurityState (zha_security (effective_netinfo false ncp ni) true rh)) (wn_steps r).
Proof.
  intros v ni ncp rh Hv Eh r. subst r. unfold py_write_network_info. cbn [py_eui_eqb negb andb].
  assert (Ev : (4 <? v) = true) by (apply N.ltb_lt; exact Hv). rewrite Ev. cbn [andb].
  change (hashed_tclk (ni_set_tc_address ni (Some ncp))) with (hashed_tclk ni). rewrite Eh. cbn [py_truthy_hex negb].
  erewrite src_security_state by (intros _; reflexivity).
  unfold wn_netinfo, wn_steps. cbn [fst snd]. split; [reflexivity|].
  apply in_or_app; left. apply in_or_app; left. apply in_or_app; left. apply in_or_app; left. apply in_or_app; left.
  apply in_or_app; right. left. reflexivity.
Qed.

(* ---- the order: frame counters and security state after every restart of the NCP, before the network is formed ----- *)
Fixpoint order_ok (l : list wstep) : bool :=
  match l with
  | [] => true
  | s :: r => (if staged_store s then forallb (fun x => negb (restarts_ncp x)) r && existsb forms_network r else true)
              && (if forms_network s then forallb (fun x => negb (staged_store x)) r else true)
              && order_ok r
  end.

Lemma order_ok_split : forall l pre s post, order_ok l = true -> l = pre ++ s :: post -> staged_store s = true ->
  forallb (fun x => negb (restarts_ncp x)) post = true /\ existsb forms_network post = true /\
  forallb (fun x => negb (forms_network x)) pre = true.
Proof.
  intros l pre. revert l. induction pre as [|x pre IH]; intros l s post Hok El Hs; subst l.
  - cbn [app order_ok] in Hok. rewrite Hs in Hok.
    apply andb_prop in Hok. destruct Hok as [Hok _]. apply andb_prop in Hok. destruct Hok as [Hok _].
    apply andb_prop in Hok. destruct Hok as [A B]. repeat split; assumption.
  - cbn [app order_ok] in Hok. apply andb_prop in Hok. destruct Hok as [Hok R]. apply andb_prop in Hok. destruct Hok as [_ F].
    destruct (IH _ s post R eq_refl Hs) as (A & B & C). repeat split; try assumption.
    cbn [forallb]. rewrite C, andb_true_r.
    destruct (forms_network x) eqn:Ex; [|reflexivity].
    rewrite forallb_app in F. apply andb_prop in F. destruct F as [_ F]. cbn [forallb] in F. rewrite Hs in F. discriminate F.
Qed.

Lemma no_restart_in_stores : forall l, forallb (fun x => negb (restarts_ncp x)) (map StStore l ++ [StNetworkUp]) = true.
Proof. induction l; [reflexivity|]. cbn. exact IHl. Qed.

Lemma form_at_end : forall l p, existsb forms_network (map StStore (l ++ [WForm p]) ++ [StNetworkUp]) = true.
Proof. induction l; intro p; [reflexivity|]. cbn [app map existsb]. rewrite IHl. apply orb_true_r. Qed.

Lemma order_ok_stores : forall l p, forallb (fun w => negb (forms_network (StStore w))) l = true ->
  order_ok (map StStore (l ++ [WForm p]) ++ [StNetworkUp]) = true.
Proof.
  induction l as [|w l IH]; intros p Hl; [reflexivity|].
  cbn [forallb] in Hl. apply andb_prop in Hl. destruct Hl as [Hw Hl].
  cbn [app map order_ok]. rewrite (IH p Hl), andb_true_r.
  apply negb_true_iff in Hw. rewrite Hw. rewrite andb_true_r.
  destruct (staged_store (StStore w)); [|reflexivity].
  rewrite no_restart_in_stores, form_at_end. reflexivity.
Qed.

Lemma write_plan_ends_with_form : forall v ni rh, exists l p,
  write_plan v ni rh = l ++ [WForm p] /\ forallb (fun w => negb (forms_network (StStore w))) l = true.
Proof.
  intros v ni rh. unfold write_plan.
  match goal with |- exists l p, ?A ++ ?B ++ ?K ++ ?C ++ [WForm ?P] = _ /\ _ =>
    exists (A ++ B ++ K ++ C), P; split; [now rewrite <- !app_assoc|] end.
  rewrite !forallb_app. apply andb_true_intro; split; [|apply andb_true_intro; split; [|apply andb_true_intro; split]].
  - destruct (4 <? v); reflexivity.
  - reflexivity.
  - destruct (v <? 13); apply forallb_forall; intros w Hw; apply in_map_iff in Hw; destruct Hw as (? & <- & _); reflexivity.
  - destruct (v <? 9); [reflexivity|].
    apply forallb_forall; intros w Hw; apply in_map_iff in Hw; destruct Hw as (? & <- & _); reflexivity.
Qed.

Lemma write_steps_order_ok : forall v wrote ni rh, order_ok (write_steps v wrote ni rh) = true.
Proof.
  intros v wrote ni rh. unfold write_steps.
  destruct (write_plan_ends_with_form v ni rh) as (l & p & -> & Hl).
  pose proof (order_ok_stores l p Hl) as Hok.
  destruct wrote; cbn [app order_ok staged_store forms_network restarts_ncp andb]; exact Hok.
Qed.

(* on the emitted coroutine *)
Lemma src_staged_after_restart_before_form : forall v ni node_ieee ncp_eui64 can_rewrite can_burn flags rh pre s post,
  4 <= v -> v <= 14 -> hashed_tclk ni <> Some [] ->
  steps_of v (wn_steps (py_write_network_info v ni node_ieee ncp_eui64 can_rewrite can_burn flags rh)) = pre ++ s :: post ->
  staged_store s = true ->
  forallb (fun x => negb (restarts_ncp x)) post = true /\ existsb forms_network post = true /\
  forallb (fun x => negb (forms_network x)) pre = true.
Proof.
  intros v ni node ncp cr cb flags rh pre s post H1 H2 Hh E Hs.
  destruct (src_write_order v ni node ncp cr cb flags rh H1 H2 Hh) as [_ Eq]. cbv zeta in Eq. rewrite Eq in E.
  exact (order_ok_split _ pre s post (write_steps_order_ok _ _ _ _) E Hs).
Qed.

(* the two frame counters (where the version has them) and the security state do occur *)
Lemma write_steps_has_security : forall v wrote ni rh,
  In (StStore (WSecurity (zha_security ni (4 <? v) (match hashed_tclk ni with Some h => h | None => rh end))))
     (write_steps v wrote ni rh).
Proof.
  intros. unfold write_steps, write_plan. apply in_or_app; right. apply in_or_app; right. apply in_or_app; left.
  apply in_map. apply in_or_app; right. left. reflexivity.
Qed.

(* what the two restarting steps call *)
Lemma src_reset_calls :
  py_calls_reset = [RCall "self._ezsp" "stop_ezsp"; RCall "self._ezsp" "startup_reset"; RCall "self._ezsp" "write_config"] /\
  py_calls_reset_network_info =
    [RCall "self._ezsp" "factory_reset"; RCall "self._ezsp" "reset_custom_eui64"; RCall "self" "_reset";
     RTryElse [RCall "self" "_ensure_network_running"] "NetworkNotFormed" [RCall "self._ezsp" "leaveNetwork"]].
Proof. split; reflexivity. Qed.
