(* The functions emitted from the SOURCE TEXT of bellows/ash.py (gen/GenAshFn.v, harness/pysrc.py) are
   equal to the hand-written codec model (model/AshCodec.v).  These lemmas are re-checked on every run
   against what the source says now. *)
From Coq Require Import ZArith NArith List Bool String Lia.
Import ListNotations.
Require Import BV.gen.GenAsh BV.gen.GenAshFn BV.model.AshCodec.
Open Scope N_scope.

Lemma mem_reserved : forall c, mem_N c RESERVED_BYTES = reserved c.
Proof.
  intro c.
  change RESERVED_BYTES with [126; 125; 17; 19; 24; 26].
  unfold mem_N, reserved, reserved_no_esc, FLAG, ESC, XON, XOFF, SUB, CANCEL.
  cbn [existsb].
  destruct (c =? 126), (c =? 125), (c =? 17), (c =? 19), (c =? 24), (c =? 26); reflexivity.
Qed.

(* ---- random sequence ------------------------------------------------------------------------- *)
Lemma iter_succ_r_local : forall (A : Type) (f : A -> A) n x,
  Nat.iter (S n) f x = Nat.iter n f (f x).
Proof.
  intros A f n x. induction n as [|n IH].
  - reflexivity.
  - change (Nat.iter (S (S n)) f x) with (f (Nat.iter (S n) f x)).
    rewrite IH. reflexivity.
Qed.

Lemma land1_testbit0 : forall r, (N.land r 1 =? 0) = negb (N.testbit r 0).
Proof.
  intros [|p]; [reflexivity|]. destruct p; reflexivity.
Qed.

Lemma src_random_iter : forall n acc r, exists r',
  Nat.iter n py_generate_random_sequence_step (Some (acc, r)) = Some (acc ++ lfsr n r, r').
Proof.
  induction n as [|n IH]; intros acc r.
  - exists r. cbn [Nat.iter nat_rect lfsr]. rewrite app_nil_r. reflexivity.
  - rewrite iter_succ_r_local.
    unfold py_generate_random_sequence_step at 2.
    rewrite land1_testbit0.
    cbn [lfsr].
    destruct (N.testbit r 0); cbn [negb].
    + destruct (IH (acc ++ [r]) (N.lxor (N.shiftr r 1) 184)) as [r' H].
      exists r'. rewrite H. rewrite <- app_assoc. reflexivity.
    + destruct (IH (acc ++ [r]) (N.shiftr r 1)) as [r' H].
      exists r'. rewrite H. rewrite <- app_assoc. reflexivity.
Qed.

Lemma src_random_sequence : forall n, py_generate_random_sequence n = Some (lfsr n 0x42).
Proof.
  intro n. unfold py_generate_random_sequence.
  destruct (src_random_iter n [] 66) as [r' H].
  rewrite H. reflexivity.
Qed.

Lemma src_module_sequence :
  py_generate_random_sequence py_sequence_length = Some PSEUDO_RANDOM_DATA_SEQUENCE.
Proof. vm_compute. reflexivity. Qed.

(* ---- stuffing -------------------------------------------------------------------------------- *)
Lemma src_stuff_fold : forall d acc,
  fold_left py_stuff_bytes_step d (Some acc) = Some (acc ++ stuff d).
Proof.
  induction d as [|c d IH]; intro acc.
  - cbn [fold_left stuff]. rewrite app_nil_r. reflexivity.
  - cbn [fold_left stuff]. unfold py_stuff_bytes_step at 2.
    rewrite mem_reserved.
    destruct (reserved c); rewrite IH, <- app_assoc; reflexivity.
Qed.

Lemma src_stuff : forall d, py_stuff_bytes d = Some (stuff d).
Proof.
  intro d. unfold py_stuff_bytes. rewrite src_stuff_fold. reflexivity.
Qed.

Definition unstuff_fin (s : option (list N * bool)) : option (list N) :=
  match s with
  | None => None
  | Some (out, escaped) => if escaped then None else Some out
  end.

Lemma unstuff_fold_none : forall d, fold_left py_unstuff_bytes_step d None = None.
Proof. induction d as [|c d IH]; [reflexivity|]. cbn [fold_left py_unstuff_bytes_step]. exact IH. Qed.

Lemma src_unstuff_fold : forall d acc esc,
  unstuff_fin (fold_left py_unstuff_bytes_step d (Some (acc, esc))) =
  option_map (app acc) (unstuff_aux esc d).
Proof.
  induction d as [|c d IH]; intros acc esc.
  - cbn [fold_left unstuff_aux unstuff_fin].
    destruct esc; cbn [option_map]; [reflexivity|]. rewrite app_nil_r. reflexivity.
  - cbn [fold_left unstuff_aux]. unfold py_unstuff_bytes_step at 2.
    destruct esc.
    + rewrite mem_reserved.
      destruct (reserved (N.lxor c 32)); cbn [negb].
      * rewrite IH. destruct (unstuff_aux false d); cbn [option_map]; [|reflexivity].
        rewrite <- app_assoc. reflexivity.
      * rewrite unstuff_fold_none. reflexivity.
    + change ESC with 125.
      destruct (c =? 125).
      * apply IH.
      * rewrite IH. destruct (unstuff_aux false d); cbn [option_map]; [|reflexivity].
        rewrite <- app_assoc. reflexivity.
Qed.

Lemma src_unstuff : forall d, py_unstuff_bytes d = unstuff d.
Proof.
  intro d. unfold unstuff.
  change (py_unstuff_bytes d) with
    (unstuff_fin (fold_left py_unstuff_bytes_step d (Some ([], false)))).
  rewrite src_unstuff_fold.
  destruct (unstuff_aux false d); reflexivity.
Qed.

(* ---- randomisation --------------------------------------------------------------------------- *)
Lemma src_randomize_zip : forall a b, py_randomize_zip a b = xor_zip a b.
Proof.
  induction a as [|x a IH]; intros [|y b]; cbn [py_randomize_zip xor_zip];
    try rewrite IH; reflexivity.
Qed.

Lemma src_randomize : forall d, py_randomize d = randomize d.
Proof.
  intro d. unfold py_randomize, randomize. rewrite src_randomize_zip. reflexivity.
Qed.

(* to_bytes: the bytes before the CRC are the source's header followed by the randomised payload *)
Lemma src_encode : forall f,
  encode f =
  match f with
  | Data frm re ack p => append_crc (py_DataFrame_header frm re ack ++ match py_randomize p with Some r => r | None => [] end)
  | Ack res nrdy ack => append_crc (py_AckFrame_header res nrdy ack)
  | Nak res nrdy ack => append_crc (py_NakFrame_header res nrdy ack)
  | Rst => append_crc py_RstFrame_header
  | Rstack v c => append_crc (py_RStackFrame_header v c)
  | Error v c => append_crc (py_ErrorFrame_header v c)
  end.
Proof.
  intros [frm re ack p|res nrdy ack|res nrdy ack| |v c|v c];
    unfold encode, py_DataFrame_header, py_AckFrame_header, py_NakFrame_header,
      py_RstFrame_header, py_RStackFrame_header, py_ErrorFrame_header;
    rewrite ?N.shiftl_0_r, ?src_randomize; reflexivity.
Qed.

(* ---- from_bytes ------------------------------------------------------------------------------- *)
Lemma unwrap_hd : forall d c rest, unwrap d = Some (c, rest) -> c = hd 0 d.
Proof.
  intros d c rest. unfold unwrap.
  destruct d as [|x [|y [|z d]]]; try (cbn [List.length Nat.ltb Nat.leb]; discriminate).
  cbn [List.length Nat.ltb Nat.leb Nat.sub firstn skipn hd].
  generalize (firstn (List.length d) (y :: z :: d)) as body'.
  generalize (skipn (List.length d) (y :: z :: d)) as tl'.
  intros tl' body'.
  destruct tl' as [|hi [|lo [|w tl']]]; try discriminate.
  destruct ((hi =? crc_hi (crc16 (x :: body'))) && (lo =? crc_lo (crc16 (x :: body')))); try discriminate.
  intro H. injection H as H1 H2. symmetry. exact H1.
Qed.

(* from_bytes: the fields of a parsed DATA / ACK / NAK frame are the source's expressions over the control byte *)
Lemma src_parse_fields : forall d f, parse d = Some f ->
  match f with
  | Data frm re ack _ => [frm; re; ack] = py_DataFrame_fields (hd 0 d)
  | Ack res nrdy ack => [res; nrdy; ack] = py_AckFrame_fields (hd 0 d)
  | Nak res nrdy ack => [res; nrdy; ack] = py_NakFrame_fields (hd 0 d)
  | _ => True
  end.
Proof.
  intros d f. unfold parse.
  destruct d as [|c0 d']; [discriminate|].
  cbn [hd].
  destruct (unwrap (c0 :: d')) as [[c rest]|] eqn:Hu.
  2:{ repeat (match goal with |- context [if ?b then _ else _] => destruct b end); discriminate. }
  apply unwrap_hd in Hu. cbn [hd] in Hu. subst c.
  unfold py_DataFrame_fields, py_AckFrame_fields, py_NakFrame_fields.
  rewrite N.shiftr_0_r.
  destruct (N.land c0 128 =? 0).
  { destruct (randomize rest); [|discriminate]. intro H. injection H as <-. reflexivity. }
  destruct (N.land c0 224 =? 128).
  { intro H. injection H as <-. reflexivity. }
  destruct (N.land c0 224 =? 160).
  { intro H. injection H as <-. reflexivity. }
  destruct (N.land c0 255 =? 192).
  { destruct rest; [|discriminate]. intro H. injection H as <-. exact I. }
  destruct (N.land c0 255 =? 193).
  { destruct rest as [|v [|code [|]]]; try discriminate.
    destruct (v =? 2); [|discriminate]. intro H. injection H as <-. exact I. }
  destruct (N.land c0 255 =? 194).
  { destruct rest as [|v [|code [|]]]; try discriminate.
    destruct (v =? 2); [|discriminate]. intro H. injection H as <-. exact I. }
  discriminate.
Qed.

(* parse_frame tries the classes in the order the model's classification uses, with the masks of the live classes *)
Lemma src_parse_order :
  py_parse_order = map (fun x => fst (fst x)) FRAME_MASKS.
Proof. vm_compute. reflexivity. Qed.
