From Coq Require Import ZArith NArith List Bool Lia.
Import ListNotations.
Require Import BV.model.Proxy.
Open Scope N_scope.

Lemma dispatch_table callable coroutine same closed :
  dispatch callable coroutine same closed =
    match callable, same, closed, coroutine with
    | false, _, _, _ => Refuse
    | true, true, _, _ => RunDirect
    | true, false, true, _ => Drop
    | true, false, false, true => Submit
    | true, false, false, false => Queue
    end.
Proof. destruct callable, coroutine, same, closed; reflexivity. Qed.

(* no step ever records an execution by the caller's loop: bodies run on the owner only *)
Lemma executed_on_owner_step st o :
  Forall (fun x => snd x = Owner) (executed st) -> Forall (fun x => snd x = Owner) (executed (pstep st o)).
Proof.
  intros H. destruct o as [id callable coroutine same closed b|]; cbn [pstep].
  - destruct (dispatch callable coroutine same closed); cbn [executed]; try exact H.
    apply Forall_app. split; [exact H|constructor; [reflexivity|constructor]].
  - destruct (queue st) as [|[[id awaited] b] q]; [exact H|]. cbn [executed].
    apply Forall_app. split; [exact H|constructor; [reflexivity|constructor]].
Qed.

Lemma executed_on_owner ops : Forall (fun x => snd x = Owner) (executed (prun ops)).
Proof.
  unfold prun. assert (G : forall st, Forall (fun x => snd x = Owner) (executed st) ->
                                      Forall (fun x => snd x = Owner) (executed (fold_left pstep ops st))).
  { induction ops as [|o ops IH]; intros st H; [exact H|]. cbn [fold_left]. apply IH.
    apply executed_on_owner_step. exact H. }
  apply G. constructor.
Qed.

(* a call from another loop never runs its body in the step of the call itself *)
Lemma cross_loop_call_does_not_execute st id callable coroutine closed b :
  executed (pstep st (PCall id callable coroutine false closed b)) = executed st.
Proof. cbn [pstep]. destruct callable, coroutine, closed; reflexivity. Qed.

(* coroutine methods: the caller receives exactly what the body produced, once the owner ran it *)
Lemma relay st id b closed_is_false :
  closed_is_false = false ->
  let st1 := pstep st (PCall id true true false closed_is_false b) in
  queue st = [] ->
  results (pstep st1 POwnerRuns) = results st ++ [(id, run_body b)] /\
  executed (pstep st1 POwnerRuns) = executed st ++ [(id, Owner)].
Proof.
  intros -> st1 Hq. subst st1. cbn [pstep dispatch negb]. cbn. rewrite Hq. cbn. split; reflexivity.
Qed.

(* plain methods: queued, the caller gets nothing; a returned value is an error in the owner *)
Lemma plain_queued st id b :
  let st1 := pstep st (PCall id true false false false b) in
  results st1 = results st ++ [(id, RNothing)] /\ queue st1 = queue st ++ [(id, false, b)].
Proof. cbn. split; reflexivity. Qed.

Lemma plain_must_return_nothing st id v q :
  queue st = (id, false, BReturns (Some v)) :: q ->
  owner_errors (pstep st POwnerRuns) = owner_errors st ++ [id].
Proof. intros H. cbn [pstep]. rewrite H. reflexivity. Qed.

Lemma plain_returning_nothing_is_fine st id q :
  queue st = (id, false, BReturns None) :: q -> owner_errors (pstep st POwnerRuns) = owner_errors st.
Proof. intros H. cbn [pstep]. rewrite H. reflexivity. Qed.

(* closed owner loop: dropped without executing (and without waiting: the result is immediate) *)
Lemma closed_drops st id coroutine b :
  let st1 := pstep st (PCall id true coroutine false true b) in
  executed st1 = executed st /\ queue st1 = queue st /\ results st1 = results st ++ [(id, RNothing)].
Proof. cbn. destruct coroutine; cbn; repeat split. Qed.

Lemma same_loop_direct st id coroutine closed b :
  let st1 := pstep st (PCall id true coroutine true closed b) in
  executed st1 = executed st ++ [(id, Owner)] /\ results st1 = results st ++ [(id, run_body b)] /\ queue st1 = queue st.
Proof. cbn. repeat split. Qed.

Lemma not_callable_refused st id coroutine same closed b :
  let st1 := pstep st (PCall id false coroutine same closed b) in
  executed st1 = executed st /\ queue st1 = queue st /\ results st1 = results st ++ [(id, RRefused)].
Proof. cbn. repeat split. Qed.
