From Coq Require Import ZArith NArith List Bool Lia.
Import ListNotations.
Require Import BV.lib.EzspTypes BV.gen.GenConfig BV.gen.GenCmd BV.model.EzspCodec BV.model.EzspCases
               BV.model.Config BV.model.Bringup.
Open Scope N_scope.

(* the handler adopted for a reported version: its own tables when supported, else the newest *)
Definition adopted (v : N) : N := if memN v SUPPORTED_VERSIONS then v else EZSP_LATEST.

Lemma supported_cases v : memN v SUPPORTED_VERSIONS = true -> In v SUPPORTED_VERSIONS.
Proof.
  generalize SUPPORTED_VERSIONS as l. induction l as [|y l IH]; cbn [memN]; [discriminate|].
  intros H. apply orb_true_iff in H. destruct H as [H|H].
  - apply N.eqb_eq in H. left. symmetry. exact H.
  - right. apply IH. exact H.
Qed.

(* facts decided on the generated tables, for every handler that can be adopted *)
Definition handler_ok (h : N) : bool :=
  memN h DEFAULT_CONFIG_VERSIONS && (kind_of h =? (if h =? 4 then 4 else if h <? 8 then 5 else 8)).

Lemma handlers_ok : forallb handler_ok (EZSP_LATEST :: SUPPORTED_VERSIONS) = true.
Proof. vm_compute. reflexivity. Qed.

Lemma adopted_ok v : handler_ok (adopted v) = true.
Proof.
  pose proof handlers_ok as H. rewrite forallb_forall in H. apply H. unfold adopted.
  destruct (memN v SUPPORTED_VERSIONS) eqn:E; [right; apply supported_cases; exact E | left; reflexivity].
Qed.

Lemma adopted_kind v : kind_of (adopted v) = if adopted v =? 4 then 4 else if adopted v <? 8 then 5 else 8.
Proof.
  pose proof (adopted_ok v) as H. unfold handler_ok in H. apply andb_true_iff in H.
  destruct H as [_ H]. apply N.eqb_eq in H. exact H.
Qed.

Lemma four_supported : memN 4 SUPPORTED_VERSIONS = true /\ kind_of 4 = 4.
Proof. vm_compute. split; reflexivity. Qed.

Lemma first_query_legacy ncp_v : hd None (snd (bring_up ncp_v)) = Some [0; 0; 0; 4].
Proof.
  unfold bring_up, do_version, do_reset, version_frame. cbn [b_version b_handler b_seq].
  destruct four_supported as [_ K]. rewrite K.
  destruct (ncp_v =? 4); reflexivity.
Qed.

Lemma adopts ncp_v :
  b_version (fst (bring_up ncp_v)) = ncp_v /\ b_handler (fst (bring_up ncp_v)) = adopted ncp_v.
Proof.
  unfold bring_up, do_version, do_reset. cbn [b_version b_handler b_seq].
  destruct (ncp_v =? 4) eqn:E.
  - apply N.eqb_eq in E. subst. destruct four_supported as [S _]. unfold adopted. rewrite S.
    cbn [fst bump b_version b_handler]. split; reflexivity.
  - cbn [fst bump switch b_version b_handler]. split; reflexivity.
Qed.

Lemma second_query ncp_v : ncp_v <> 4 ->
  snd (bring_up ncp_v) =
    [Some [0; 0; 0; 4];
     match header_tx (kind_of (adopted ncp_v)) 0 0 with Some h => Some (h ++ [ncp_v mod 256]) | None => None end].
Proof.
  intros Hne. unfold bring_up, do_version, do_reset, version_frame. cbn [b_version b_handler b_seq].
  destruct four_supported as [_ K]. rewrite K.
  destruct (ncp_v =? 4) eqn:E; [apply N.eqb_eq in E; contradiction|].
  cbn [snd switch bump b_handler b_seq b_version]. reflexivity.
Qed.

Lemma second_query_layout ncp_v : ncp_v <> 4 -> 4 <= ncp_v ->
  nth 1 (snd (bring_up ncp_v)) None =
    Some (if adopted ncp_v <? 8 then [0; 0x00; 0xFF; 0x00; 0; ncp_v mod 256]
          else [0; 0x00; 0x01; 0; 0; ncp_v mod 256]).
Proof.
  intros Hne Hge. rewrite (second_query ncp_v Hne). cbn [nth]. rewrite adopted_kind.
  assert (Ha : adopted ncp_v <> 4).
  { unfold adopted. destruct (memN ncp_v SUPPORTED_VERSIONS); [exact Hne|]. vm_compute. discriminate. }
  destruct (adopted ncp_v =? 4) eqn:E4; [apply N.eqb_eq in E4; contradiction|].
  destruct (adopted ncp_v <? 8); reflexivity.
Qed.

Lemma no_second_query_v4 : snd (bring_up 4) = [Some [0; 0; 0; 4]].
Proof. vm_compute. reflexivity. Qed.

Lemma config_total ncp_v : config_table_defined (fst (bring_up ncp_v)) = true.
Proof.
  unfold config_table_defined. destruct (adopts ncp_v) as [_ H]. rewrite H.
  pose proof (adopted_ok ncp_v) as Hok. unfold handler_ok in Hok. apply andb_true_iff in Hok. tauto.
Qed.

Lemma config_defaults_nonempty ncp_v : config_defaults (b_handler (fst (bring_up ncp_v))) <> [].
Proof.
  destruct (adopts ncp_v) as [_ H]. rewrite H. unfold adopted.
  destruct (memN ncp_v SUPPORTED_VERSIONS) eqn:E.
  - apply supported_cases in E.
    assert (F : forallb (fun v => negb (match config_defaults v with [] => true | _ => false end)) SUPPORTED_VERSIONS = true)
      by (vm_compute; reflexivity).
    rewrite forallb_forall in F. specialize (F _ E). destruct (config_defaults ncp_v); [discriminate|discriminate].
  - vm_compute. discriminate.
Qed.

Lemma framing ncp_v fid :
  later_header (fst (bring_up ncp_v)) fid =
    header_tx (if adopted ncp_v =? 4 then 4 else if adopted ncp_v <? 8 then 5 else 8)
              (b_seq (fst (bring_up ncp_v))) fid.
Proof.
  unfold later_header. destruct (adopts ncp_v) as [_ H]. rewrite H, adopted_kind. reflexivity.
Qed.

Lemma after_reset_legacy st :
  b_handler (do_reset st) = 4 /\ b_version (do_reset st) = 4 /\
  version_frame (do_reset st) (b_version (do_reset st)) = Some [0; 0; 0; 4].
Proof.
  unfold do_reset, version_frame. cbn [b_handler b_version b_seq].
  destruct four_supported as [_ K]. rewrite K. repeat split.
Qed.

Lemma second_bringup_same ncp_v st : do_version (do_reset st) ncp_v = bring_up ncp_v.
Proof. reflexivity. Qed.
