(* C02: the chunked receive loop (AshRx.rx_loop / data_received / feed) refines the per-byte
   reference decoder (AshRx.ref_step / ref_run).  Statements used by props/C02.v. *)
From Coq Require Import ZArith NArith List Bool Lia PeanoNat.
Import ListNotations.
Require Import BV.gen.GenAsh BV.model.AshCodec BV.model.AshRx BV.proofs.AshCodec_proofs.
Open Scope N_scope.

(* ---- vocabulary (names fixed by props/C02.v) ---------------------------------------------------- *)
Definition ref_after (bs : list N) : refstate := fst (ref_run ref_init bs).
Definition residue_ok (chunks : list (list N)) : Prop :=
  forall k, (length (racc (ref_after (concat (firstn k chunks)))) <= N.to_nat MAX_BUFFER_SIZE)%nat.
Definition agrees (st : rxstate) (r : refstate) : Prop :=
  buf st = racc r /\ discarding st = rdisc r /\ rxseq st = rrx r.

(* a byte that does not terminate anything: it stays in the buffer *)
Definition nt (b : N) : Prop := reserved_no_esc b = false.
Local Notation mk a d rx := {| racc := a; rdisc := d; rrx := rx |}.

(* ---- split_first --------------------------------------------------------------------------------- *)
Lemma split_first_some (p : N -> bool) : forall l pre x suf,
  split_first p l = Some (pre, x, suf) ->
  l = pre ++ x :: suf /\ p x = true /\ Forall (fun b => p b = false) pre.
Proof.
  induction l as [|b l IH]; intros pre x suf H; cbn [split_first] in H; [discriminate H|].
  destruct (p b) eqn:Eb.
  - injection H as H1 H2 H3. subst pre x suf. split; [reflexivity|]. split; [exact Eb|constructor].
  - destruct (split_first p l) as [[[pre' x'] suf']|] eqn:E; [|discriminate H].
    injection H as H1 H2 H3. subst pre x suf.
    destruct (IH pre' x' suf' eq_refl) as (Hl & Hx & Hp).
    subst l. split; [reflexivity|]. split; [exact Hx|]. constructor; assumption.
Qed.

Lemma split_first_none (p : N -> bool) : forall l,
  split_first p l = None -> Forall (fun b => p b = false) l.
Proof.
  induction l as [|b l IH]; intros H; [constructor|].
  cbn [split_first] in H. destruct (p b) eqn:Eb; [discriminate H|].
  destruct (split_first p l) as [[[pre' x'] suf']|] eqn:E; [discriminate H|].
  constructor; [exact Eb|apply IH; reflexivity].
Qed.

Lemma split_first_app (p : N -> bool) : forall a l,
  Forall (fun b => p b = false) a ->
  split_first p (a ++ l) =
    match split_first p l with
    | Some (pre, x, suf) => Some (a ++ pre, x, suf)
    | None => None
    end.
Proof.
  induction a as [|b a IH]; intros l Ha.
  - cbn [app]. destruct (split_first p l) as [[[pre x] suf]|]; reflexivity.
  - inversion Ha as [|b' a' Hb Ha' Heq]; subst b' a'.
    cbn [app split_first]. rewrite Hb, (IH l Ha').
    destruct (split_first p l) as [[[pre x] suf]|]; reflexivity.
Qed.

(* ---- the reference decoder ------------------------------------------------------------------------ *)
Lemma ref_run_cons (r : refstate) (b : N) (l : list N) :
  ref_run r (b :: l) =
    (fst (ref_run (fst (ref_step r b)) l),
     snd (ref_step r b) ++ snd (ref_run (fst (ref_step r b)) l)).
Proof.
  cbn [ref_run]. destruct (ref_step r b) as [r1 o1]. cbn [fst snd].
  destruct (ref_run r1 l) as [r2 o2]. reflexivity.
Qed.

Lemma ref_run_app : forall l1 l2 r,
  ref_run r (l1 ++ l2) =
    (fst (ref_run (fst (ref_run r l1)) l2),
     snd (ref_run r l1) ++ snd (ref_run (fst (ref_run r l1)) l2)).
Proof.
  induction l1 as [|b l1 IH]; intros l2 r.
  - cbn [app ref_run fst snd]. destruct (ref_run r l2) as [r2 o2]; reflexivity.
  - cbn [app]. rewrite (ref_run_cons r b (l1 ++ l2)), (ref_run_cons r b l1). cbn [fst snd].
    rewrite IH. cbn [fst snd]. rewrite app_assoc. reflexivity.
Qed.

Lemma nt_cases (b : N) : reserved_no_esc b = false ->
  (b =? FLAG) = false /\ (b =? XON) = false /\ (b =? XOFF) = false
  /\ (b =? SUB) = false /\ (b =? CANCEL) = false.
Proof.
  unfold reserved_no_esc. intros H.
  apply orb_false_iff in H. destruct H as [H H5].
  apply orb_false_iff in H. destruct H as [H H4].
  apply orb_false_iff in H. destruct H as [H H3].
  apply orb_false_iff in H. destruct H as [H1 H2].
  repeat split; assumption.
Qed.

Lemma ref_step_clean (a : list N) (rx b : N) : reserved_no_esc b = false ->
  ref_step (mk a false rx) b = (mk (a ++ [b]) false rx, []).
Proof.
  intros H. destruct (nt_cases b H) as (H1 & H2 & H3 & H4 & H5).
  unfold ref_step. cbn [rdisc racc rrx]. rewrite H1, H5, H4, H2, H3. reflexivity.
Qed.

Lemma ref_step_flag (a : list N) (rx x : N) : (x =? FLAG) = true ->
  ref_step (mk a false rx) x =
    match a with
    | [] => (mk [] false rx, [])
    | _ => let '(rx', o) := handle_frame_bytes rx a in (mk [] false rx', o)
    end.
Proof. intros H. unfold ref_step. rewrite H. cbn [rdisc racc rrx]. destruct a; reflexivity. Qed.

Lemma ref_step_flag_disc (a : list N) (rx x : N) : (x =? FLAG) = true ->
  ref_step (mk a true rx) x = (mk [] false rx, []).
Proof. intros H. unfold ref_step. rewrite H. reflexivity. Qed.

Lemma ref_step_skip_disc (a : list N) (rx x : N) : (x =? FLAG) = false ->
  ref_step (mk a true rx) x = (mk a true rx, []).
Proof. intros H. unfold ref_step. rewrite H. reflexivity. Qed.

Lemma ref_step_cancel (a : list N) (rx x : N) : (x =? FLAG) = false -> (x =? CANCEL) = true ->
  ref_step (mk a false rx) x = (mk [] false rx, []).
Proof. intros H1 H2. unfold ref_step. rewrite H1, H2. reflexivity. Qed.

Lemma ref_step_sub (a : list N) (rx x : N) :
  (x =? FLAG) = false -> (x =? CANCEL) = false -> (x =? SUB) = true ->
  ref_step (mk a false rx) x = (mk [] true rx, []).
Proof. intros H1 H2 H3. unfold ref_step. rewrite H1, H2, H3. reflexivity. Qed.

Lemma ref_step_xonoff (a : list N) (rx x : N) :
  (x =? FLAG) = false -> (x =? CANCEL) = false -> (x =? SUB) = false ->
  (x =? XON) || (x =? XOFF) = true ->
  ref_step (mk a false rx) x = (mk a false rx, []).
Proof. intros H1 H2 H3 H4. unfold ref_step. rewrite H1, H2, H3, H4. reflexivity. Qed.

(* a run of non-terminators is simply appended *)
Lemma ref_run_clean : forall l a rx, Forall nt l ->
  ref_run (mk a false rx) l = (mk (a ++ l) false rx, []).
Proof.
  induction l as [|b l IH]; intros a rx Hl.
  - cbn [ref_run]. rewrite app_nil_r. reflexivity.
  - inversion Hl as [|b' l' Hb Hl' Heq]; subst b' l'.
    rewrite ref_run_cons, (ref_step_clean a rx b Hb). cbn [fst snd].
    rewrite (IH (a ++ [b]) rx Hl'). cbn [fst snd app]. rewrite <- app_assoc. reflexivity.
Qed.

(* while discarding, a run without FLAG is ignored *)
Lemma ref_run_discard : forall l a rx, Forall (fun b => (b =? FLAG) = false) l ->
  ref_run (mk a true rx) l = (mk a true rx, []).
Proof.
  induction l as [|b l IH]; intros a rx Hl; [reflexivity|].
  inversion Hl as [|b' l' Hb Hl' Heq]; subst b' l'.
  rewrite ref_run_cons, (ref_step_skip_disc a rx b Hb). cbn [fst snd].
  rewrite (IH a rx Hl'). reflexivity.
Qed.

(* invariant of the reference: the residue holds no terminator, and is empty while discarding *)
Definition rinv (r : refstate) : Prop :=
  Forall nt (racc r) /\ (rdisc r = true -> racc r = []).

Lemma rinv_empty (d : bool) (rx : N) : rinv (mk [] d rx).
Proof. split; [constructor|intros _; reflexivity]. Qed.

Lemma ref_step_inv (r : refstate) (b : N) : rinv r -> rinv (fst (ref_step r b)).
Proof.
  intros Hr. destruct r as [a d rx]. unfold ref_step. cbn [racc rdisc rrx].
  destruct (b =? FLAG) eqn:EF.
  - destruct d; [apply rinv_empty|].
    destruct a as [|h t]; [exact Hr|].
    destruct (handle_frame_bytes rx (h :: t)) as [rx' o]. apply rinv_empty.
  - destruct d; [exact Hr|].
    destruct (b =? CANCEL) eqn:EC; [apply rinv_empty|].
    destruct (b =? SUB) eqn:ES; [apply rinv_empty|].
    destruct ((b =? XON) || (b =? XOFF)) eqn:EX; [exact Hr|].
    destruct Hr as [Hc Hd]. cbn [racc rdisc] in Hc, Hd. cbn [fst]. split; cbn [racc rdisc].
    + apply Forall_app. split; [exact Hc|]. constructor; [|constructor].
      apply orb_false_iff in EX. destruct EX as [E1 E2].
      unfold nt, reserved_no_esc. rewrite EF, EC, ES, E1, E2. reflexivity.
    + intros Habs. discriminate Habs.
Qed.

Lemma ref_run_inv : forall l r, rinv r -> rinv (fst (ref_run r l)).
Proof.
  induction l as [|b l IH]; intros r Hr; [exact Hr|].
  rewrite ref_run_cons. cbn [fst]. apply IH. apply ref_step_inv. exact Hr.
Qed.

(* ---- the receive loop ------------------------------------------------------------------------------ *)
(* second half of one iteration: look for a terminator in the (already undiscarded) buffer *)
Definition phase2 (f : nat) (b1 : list N) (rx : N) (acc : list out) : list N * bool * N * list out :=
  match split_first reserved_no_esc b1 with
  | None => (b1, false, rx, acc)
  | Some (pre, r, suf) =>
      if r =? FLAG then
        match pre with
        | [] => rx_loop f suf false rx acc
        | _ => let '(rx', o) := handle_frame_bytes rx pre in
               rx_loop f suf false rx' (acc ++ o)
        end
      else if r =? CANCEL then rx_loop f suf false rx acc
      else if r =? SUB then rx_loop f suf true rx acc
      else rx_loop f (pre ++ suf) false rx acc
  end.

Lemma rx_loop_unfold (f : nat) (b : list N) (disc : bool) (rx : N) (acc : list out) :
  b <> [] ->
  rx_loop (S f) b disc rx acc =
    match (if disc then
             match split_first (fun x => x =? FLAG) b with
             | None => None
             | Some (_, _, suf) => Some suf
             end
           else Some b) with
    | None => ([], true, rx, acc)
    | Some b1 => phase2 f b1 rx acc
    end.
Proof. intros Hb. destruct b as [|h t]; [congruence|reflexivity]. Qed.

(* what the loop computes, relative to the reference started in the matching state *)
Definition loop_spec (f : nat) : Prop :=
  forall a rest d rx out,
    Forall nt a -> (d = true -> a = []) -> (length (a ++ rest) < f)%nat ->
    rx_loop f (a ++ rest) d rx out =
      (racc (fst (ref_run (mk a d rx) rest)), rdisc (fst (ref_run (mk a d rx) rest)),
       rrx (fst (ref_run (mk a d rx) rest)), out ++ snd (ref_run (mk a d rx) rest)).

Lemma phase2_ref (f : nat) : loop_spec f ->
  forall a rest rx out,
    Forall nt a -> (length (a ++ rest) <= f)%nat ->
    phase2 f (a ++ rest) rx out =
      (racc (fst (ref_run (mk a false rx) rest)), rdisc (fst (ref_run (mk a false rx) rest)),
       rrx (fst (ref_run (mk a false rx) rest)), out ++ snd (ref_run (mk a false rx) rest)).
Proof.
  intros IH a rest rx out Ha Hlen. unfold phase2.
  rewrite (split_first_app reserved_no_esc a rest Ha).
  destruct (split_first reserved_no_esc rest) as [[[pre x] suf]|] eqn:E.
  - destruct (split_first_some reserved_no_esc rest pre x suf E) as (Hrest & Hx & Hpre).
    subst rest.
    assert (Hl1 : (length ([] ++ suf) < f)%nat).
    { rewrite !app_length in Hlen. cbn [length app] in *. lia. }
    assert (Hl2 : (length ((a ++ pre) ++ suf) < f)%nat).
    { rewrite !app_length in *. cbn [length] in *. lia. }
    assert (Hap : Forall nt (a ++ pre)) by (apply Forall_app; split; assumption).
    assert (Hnil : Forall nt []) by constructor.
    assert (Hft : false = true -> a ++ pre = []) by (intros Habs; discriminate Habs).
    rewrite ref_run_app, (ref_run_clean pre a rx Hpre). cbn [fst snd app].
    rewrite ref_run_cons.
    destruct (x =? FLAG) eqn:EF.
    + rewrite (ref_step_flag (a ++ pre) rx x EF).
      destruct (a ++ pre) as [|h t].
      * cbn [fst snd app].
        apply (IH [] suf false rx out Hnil (fun H => eq_refl) Hl1).
      * destruct (handle_frame_bytes rx (h :: t)) as [rx' o]. cbn [fst snd].
        rewrite app_assoc.
        apply (IH [] suf false rx' (out ++ o) Hnil (fun H => eq_refl) Hl1).
    + destruct (x =? CANCEL) eqn:EC.
      * rewrite (ref_step_cancel (a ++ pre) rx x EF EC). cbn [fst snd app].
        apply (IH [] suf false rx out Hnil (fun H => eq_refl) Hl1).
      * destruct (x =? SUB) eqn:ES.
        -- rewrite (ref_step_sub (a ++ pre) rx x EF EC ES). cbn [fst snd app].
           apply (IH [] suf true rx out Hnil (fun H => eq_refl) Hl1).
        -- assert (EX : (x =? XON) || (x =? XOFF) = true).
           { unfold reserved_no_esc in Hx. rewrite EF, ES, EC in Hx.
             rewrite !orb_false_r in Hx. cbn [orb] in Hx. exact Hx. }
           rewrite (ref_step_xonoff (a ++ pre) rx x EF EC ES EX). cbn [fst snd app].
           apply (IH (a ++ pre) suf false rx out Hap Hft Hl2).
  - pose proof (split_first_none reserved_no_esc rest E) as Hrest.
    rewrite (ref_run_clean rest a rx Hrest). cbn [fst snd racc rdisc rrx].
    rewrite app_nil_r. reflexivity.
Qed.

Lemma rx_loop_ref : forall f, loop_spec f.
Proof.
  induction f as [|f IH]; intros a rest d rx out Ha Hd Hlen; [inversion Hlen|].
  assert (Hcase : a ++ rest = [] \/ a ++ rest <> []).
  { destruct (a ++ rest); [left; reflexivity|right; discriminate]. }
  destruct Hcase as [Hnil|Hne].
  - apply app_eq_nil in Hnil. destruct Hnil as [Ha0 Hr0]. subst a rest.
    cbn [app rx_loop ref_run fst snd racc rdisc rrx]. rewrite app_nil_r. reflexivity.
  - rewrite (rx_loop_unfold f (a ++ rest) d rx out Hne).
    destruct d.
    + rewrite (Hd eq_refl) in *. cbn [app] in *.
      destruct (split_first (fun x => x =? FLAG) rest) as [[[pre x] suf]|] eqn:E.
      * destruct (split_first_some (fun x => x =? FLAG) rest pre x suf E) as (Hrest & Hx & Hpre).
        subst rest. cbv beta in Hx.
        rewrite ref_run_app, (ref_run_discard pre [] rx Hpre). cbn [fst snd app].
        rewrite ref_run_cons, (ref_step_flag_disc [] rx x Hx). cbn [fst snd app].
        assert (Hl : (length ([] ++ suf) <= f)%nat).
        { rewrite !app_length in Hlen. cbn [length app] in *. lia. }
        apply (phase2_ref f IH [] suf rx out Ha Hl).
      * pose proof (split_first_none (fun x => x =? FLAG) rest E) as Hrest.
        rewrite (ref_run_discard rest [] rx Hrest). cbn [fst snd racc rdisc rrx].
        rewrite app_nil_r. reflexivity.
    + apply (phase2_ref f IH a rest rx out Ha). lia.
Qed.

(* ---- cap ------------------------------------------------------------------------------------------ *)
Lemma cap_id (b : list N) : (length b <= N.to_nat MAX_BUFFER_SIZE)%nat -> cap b = b.
Proof.
  intros H. unfold cap.
  destruct (N.to_nat MAX_BUFFER_SIZE <? length b)%nat eqn:E; [|reflexivity].
  apply Nat.ltb_lt in E. lia.
Qed.

Lemma cap_length (b : list N) : (length (cap b) <= N.to_nat MAX_BUFFER_SIZE)%nat.
Proof.
  unfold cap. generalize (N.to_nat MAX_BUFFER_SIZE) as m. intros m.
  destruct (m <? length b)%nat eqn:E.
  - unfold lastn. rewrite skipn_length. lia.
  - apply Nat.ltb_ge in E. exact E.
Qed.

(* ---- one read, then many --------------------------------------------------------------------------- *)
Lemma data_received_ref (st : rxstate) (r : refstate) (chunk : list N) :
  agrees st r -> rinv r ->
  (length (racc (fst (ref_run r chunk))) <= N.to_nat MAX_BUFFER_SIZE)%nat ->
  snd (data_received st chunk) = snd (ref_run r chunk)
  /\ agrees (fst (data_received st chunk)) (fst (ref_run r chunk)).
Proof.
  intros (Hb & Hd & Hx) [Hc Hdd] Hlen. unfold data_received. rewrite Hb, Hd, Hx.
  destruct r as [a d rx]. cbn [racc rdisc rrx] in *.
  rewrite (rx_loop_ref (S (length (a ++ chunk))) a chunk d rx [] Hc Hdd (Nat.lt_succ_diag_r _)).
  cbv beta iota zeta. cbn [fst snd app].
  rewrite (cap_id _ Hlen). split; [reflexivity|]. unfold agrees. cbn [buf discarding rxseq].
  repeat split.
Qed.

Lemma feed_ref : forall chunks st r,
  agrees st r -> rinv r ->
  (forall k, (length (racc (fst (ref_run r (concat (firstn k chunks))))) <= N.to_nat MAX_BUFFER_SIZE)%nat) ->
  snd (feed st chunks) = snd (ref_run r (concat chunks))
  /\ agrees (fst (feed st chunks)) (fst (ref_run r (concat chunks))).
Proof.
  induction chunks as [|c cs IH]; intros st r Hag Hinv Hres.
  - cbn [feed concat ref_run fst snd]. split; [reflexivity|exact Hag].
  - assert (H1 : (length (racc (fst (ref_run r c))) <= N.to_nat MAX_BUFFER_SIZE)%nat).
    { pose proof (Hres 1%nat) as H. cbn [firstn concat] in H. rewrite app_nil_r in H. exact H. }
    destruct (data_received_ref st r c Hag Hinv H1) as [Ho Hag1].
    cbn [feed concat]. destruct (data_received st c) as [st1 o1]. cbn [fst snd] in Ho, Hag1.
    assert (Hres' : forall k,
      (length (racc (fst (ref_run (fst (ref_run r c)) (concat (firstn k cs))))) <= N.to_nat MAX_BUFFER_SIZE)%nat).
    { intros k. pose proof (Hres (S k)) as H. cbn [firstn concat] in H.
      rewrite ref_run_app in H. cbn [fst] in H. exact H. }
    destruct (IH st1 (fst (ref_run r c)) Hag1 (ref_run_inv c r Hinv) Hres') as [Ho2 Hag2].
    destruct (feed st1 cs) as [st2 o2]. cbn [fst snd] in Ho2, Hag2 |- *.
    rewrite ref_run_app. cbn [fst snd]. rewrite Ho, Ho2. split; [reflexivity|exact Hag2].
Qed.

(* ---- the statements of props/C02.v ----------------------------------------------------------------- *)
Lemma refines_reference : forall chunks,
  residue_ok chunks ->
  snd (feed rx_init chunks) = snd (ref_run ref_init (concat chunks))
  /\ agrees (fst (feed rx_init chunks)) (ref_after (concat chunks)).
Proof.
  intros chunks Hres. unfold ref_after.
  apply feed_ref.
  - unfold agrees. cbn. repeat split.
  - apply rinv_empty.
  - exact Hres.
Qed.

Lemma chunking_independent : forall c1 c2,
  concat c1 = concat c2 -> residue_ok c1 -> residue_ok c2 ->
  snd (feed rx_init c1) = snd (feed rx_init c2).
Proof.
  intros c1 c2 Heq H1 H2.
  destruct (refines_reference c1 H1) as [E1 _]. destruct (refines_reference c2 H2) as [E2 _].
  rewrite E1, E2, Heq. reflexivity.
Qed.

Lemma buffer_bounded : forall st chunk,
  (length (buf (fst (data_received st chunk))) <= N.to_nat MAX_BUFFER_SIZE)%nat.
Proof.
  intros st chunk. unfold data_received.
  destruct (rx_loop (S (length (buf st ++ chunk))) (buf st ++ chunk) (discarding st) (rxseq st) [])
    as [[[b' d'] rx'] o].
  cbn [fst buf]. apply cap_length.
Qed.

Lemma bad_escape : forall rx fb,
  unstuff fb = None -> handle_frame_bytes rx fb = (rx, [WCancelNak rx]).
Proof. intros rx fb H. unfold handle_frame_bytes. rewrite H. reflexivity. Qed.

Lemma parse_needs_unwrap (d : list N) : unwrap d = None -> parse d = None.
Proof.
  intros H. destruct d as [|c l]; [reflexivity|].
  rewrite parse_cons, H. unfold parse_body.
  repeat match goal with |- context [if ?c then _ else _] => destruct c end; reflexivity.
Qed.

Lemma bad_crc : forall rx fb d,
  unstuff fb = Some d -> unwrap d = None -> handle_frame_bytes rx fb = (rx, [WCancelNak rx]).
Proof.
  intros rx fb d H U. unfold handle_frame_bytes. rewrite H, (parse_needs_unwrap d U). reflexivity.
Qed.

Lemma parse_some_unwrap (d : list N) (f : frame) : parse d = Some f -> unwrap d <> None.
Proof. intros H U. rewrite (parse_needs_unwrap d U) in H. discriminate H. Qed.

Lemma up_only_valid : forall rx fb p,
  In (Up p) (snd (handle_frame_bytes rx fb)) ->
  exists d frm re ack,
    unstuff fb = Some d /\ unwrap d <> None /\ parse d = Some (Data frm re ack p) /\ frm = rx.
Proof.
  intros rx fb p H. unfold handle_frame_bytes in H.
  destruct (unstuff fb) as [d|] eqn:EU.
  2:{ cbn [snd In] in H. destruct H as [H|H]; [discriminate H|contradiction]. }
  destruct (parse d) as [f|] eqn:EP.
  2:{ cbn [snd In] in H. destruct H as [H|H]; [discriminate H|contradiction]. }
  destruct f as [frm re ack p0|a b c|a b c| |v c|v c]; cbn [rx_frame snd In] in H.
  - destruct (frm =? rx) eqn:E.
    + cbn [snd In] in H. destruct H as [H|[H|[H|H]]]; try discriminate H; try contradiction.
      injection H as H. subst p0. apply N.eqb_eq in E.
      exists d, frm, re, ack. repeat split; [exact (parse_some_unwrap d _ EP)|exact EP|exact E].
    + destruct (negb (re =? 0)); cbn [snd In] in H;
        destruct H as [H|[H|H]]; try discriminate H; contradiction.
  - destruct H as [H|H]; [discriminate H|contradiction].
  - destruct H as [H|[H|H]]; try discriminate H; contradiction.
  - destruct H as [H|H]; [discriminate H|contradiction].
  - destruct H as [H|[H|H]]; try discriminate H; contradiction.
  - destruct H as [H|[H|H]]; try discriminate H; contradiction.
Qed.

Lemma reset_only_valid : forall rx fb c,
  In (ResetUp c) (snd (handle_frame_bytes rx fb)) ->
  exists d v,
    unstuff fb = Some d /\ unwrap d <> None
    /\ (parse d = Some (Rstack v c) \/ parse d = Some (Error v c)).
Proof.
  intros rx fb c H. unfold handle_frame_bytes in H.
  destruct (unstuff fb) as [d|] eqn:EU.
  2:{ cbn [snd In] in H. destruct H as [H|H]; [discriminate H|contradiction]. }
  destruct (parse d) as [f|] eqn:EP.
  2:{ cbn [snd In] in H. destruct H as [H|H]; [discriminate H|contradiction]. }
  destruct f as [frm re ack p0|a b c0|a b c0| |v c0|v c0]; cbn [rx_frame snd In] in H.
  - destruct (frm =? rx) eqn:E.
    + cbn [snd In] in H. destruct H as [H|[H|[H|H]]]; try discriminate H; contradiction.
    + destruct (negb (re =? 0)); cbn [snd In] in H;
        destruct H as [H|[H|H]]; try discriminate H; contradiction.
  - destruct H as [H|H]; [discriminate H|contradiction].
  - destruct H as [H|[H|H]]; try discriminate H; contradiction.
  - destruct H as [H|H]; [discriminate H|contradiction].
  - destruct H as [H|[H|H]]; try discriminate H; try contradiction.
    injection H as H. subst c0. exists d, v.
    repeat split; [exact (parse_some_unwrap d _ EP)|left; exact EP].
  - destruct H as [H|[H|H]]; try discriminate H; try contradiction.
    injection H as H. subst c0. exists d, v.
    repeat split; [exact (parse_some_unwrap d _ EP)|right; exact EP].
Qed.
