(* The one asyncio schedule the EZSP protocol machine (EzspProto.v) leaves out: a frame and the expiry of
   the command timeout of the call that waits under the frame's sequence number falling into the SAME
   event-loop iteration.  asyncio runs the I/O callback first (EZSP.frame_received ->
   ProtocolHandler.__call__: the entry is popped from _awaiting and the future resolved), then the due
   timer (asyncio.timeout cancels the waiting task, which has not resumed yet: its future is already done,
   so the task is only marked), and resumes the coroutine afterwards -- with CancelledError, which the
   timeout context turns into TimeoutError.  `async with self._send_semaphore` then releases the slot.

   Observed on the real classes (harness/c06.py, Driver.race_frame, virtual loop, EZSP v4 and v8, call 0 =
   getEui64 sent under number 0 and waiting, call 1 = nop queued behind it), one step each:
     - the matching reply (number 0, getEui64's id)   -> call 0 raises TimeoutError (NOT the payload), call 1 is
         sent under number 1 in the same step, _awaiting = {1}, nothing reaches the callbacks; the same
         frame delivered again later goes to the callbacks (its number is no longer pending)
     - invalidCommand under number 0                  -> the same: TimeoutError (not InvalidCommandError), entry
         gone, call 1 sent
     - another command's response under number 0      -> the same: TimeoutError, entry gone (popped before the
         failing assert), call 1 sent
     - the reply under a number nobody awaits (77), or a callback frame (stackStatusHandler under 100)
         -> the frame goes to the callbacks once, call 0 raises TimeoutError, call 1 is sent; entry 0 stays
         behind with a finished future: exactly what [EFrame] followed by [ETimeout] gives -- the frame does
         not touch the call, so this schedule is not a race and needs no step of its own
     - race_frame while call 0 is still inside send_data -> no timer exists yet (asyncio_timeout is entered
         after send_data returns): the reply is recorded, no output; the payload is returned when send_data
         returns: exactly [EFrame]
   Hence the step below: under the number of a call that waits without a reply, pop the entry, resolve the
   future as the frame says, and end the call with the timeout whatever the future holds; in every other
   situation no timer of "the call waiting under d's number" exists and the step is the plain frame. *)
From Coq Require Import ZArith NArith List Bool.
Import ListNotations.
Require Import BV.lib.EzspTypes BV.model.EzspCodec BV.model.EzspProto BV.model.EzspCases.
Open Scope N_scope.

(* what __call__ resolves the future of the call registered under the frame's number with; RNone: the
   assert on the frame id fails, the future stays unresolved (the entry is popped all the same) *)
Definition race_reply (invalid : bool) (expected fid : N) (vs : list ival) : reply :=
  if invalid then RInvalidCommand else if expected =? fid then RValues vs else RNone.

Definition race_step (st : pstate) (d : decoded) : pstate * list pout :=
  match d with
  | DOk s fid invalid vs =>
      match aw_get s (p_awaiting st) with
      | Some (expected, call) =>
          match call_get call (p_calls st) with
          | Some c =>
              match k_stage c, k_reply c with
              | PWaiting, RNone =>
                  (* the I/O callback: entry popped, future resolved *)
                  let st1 := pop_awaiting st s in
                  let c' := set_reply c (race_reply invalid expected fid vs) in
                  let st2 := with_calls st1 (call_set c' (p_calls st1)) in
                  (* the due timer, then the resumption: TimeoutError, the slot is released *)
                  finish st2 call (ORaise call KTimeout)
              | _, _ => proto_step st (EFrame d)     (* no timeout of that call is running *)
              end
          | None => proto_step st (EFrame d)         (* the call has ended: a late frame *)
          end
      | None => proto_step st (EFrame d)             (* nobody waits under this number: a callback *)
      end
  | _ => proto_step st (EFrame d)
  end.

Inductive revent := REv (e : pevent) | RRace (d : decoded).

Definition rstep (st : pstate) (e : revent) : pstate * list pout :=
  match e with REv e => proto_step st e | RRace d => race_step st d end.

Fixpoint rrun (st : pstate) (es : list revent) : pstate * list (list pout) :=
  match es with
  | [] => (st, [])
  | e :: es' => let '(st1, o) := rstep st e in
                let '(st2, os) := rrun st1 es' in (st2, o :: os)
  end.

(* same observation encoding as [run_c06_case_from] *)
Definition run_c06_race_case (c : N * list revent) : list Z :=
  let '(seq0, es) := c in
  let st0 := {| p_seq := seq0 mod 256; p_awaiting := []; p_holder := None; p_queue := []; p_counter := 0; p_calls := [] |} in
  let '(st, os) := rrun st0 es in
  flat_map (fun o => flat_map enc_pout o ++ [(-1)%Z]) os ++ [Z.of_N (p_seq st)].
