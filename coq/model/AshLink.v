(* C01 -- the composed system: the host's ASH endpoint (model/AshHost.v, used as is), a
   specification-conforming NCP with transmit window K, and a serial line that is a pair of FIFO
   queues of frames whose heads can be delivered, dropped, duplicated or detectably corrupted.
   Definitions only; the proofs are in proofs/AshLink_proofs.v, the statements in props/C01.v.

   One epoch: nobody resets.  The NCP never emits RST/RSTACK/ERROR, so none is ever on the wire.

   Absolute counters are [nat]; what travels on the wire is the counter modulo 8 ([num8]).  No ghost
   information is kept in this state: the absolute indices of the frames in flight are
   reconstructed by the proof. *)
From Coq Require Import PrimFloat ZArith NArith List Bool Arith.
Import ListNotations.
Require Import BV.gen.GenAsh BV.model.AshCodec BV.model.AshRx BV.model.AshHost.
Local Open Scope nat_scope.

Definition num8 (i : nat) : N := N.of_nat (i mod 8).

(* ---- the NCP: UG101 sliding window sender + in-sequence receiver ------------------------------ *)
Record nstate := {
  n_rx : nat;                 (* DATA frames accepted so far = next frame number expected *)
  n_base : nat;               (* oldest frame not yet acknowledged by the host *)
  n_next : nat;               (* next frame never transmitted yet *)
  n_sub : list (list N)       (* payloads its upper layer submitted, in order *)
}.
Definition n_init : nstate := {| n_rx := 0; n_base := 0; n_next := 0; n_sub := [] |}.

(* an acknowledgement number received: it names the next frame the host expects; it is decoded
   relative to n_base and accepted only if it does not run ahead of what was transmitted *)
Definition n_ack (n : nstate) (a : N) : nstate :=
  let d := (N.to_nat a + 8 - n_base n mod 8) mod 8 in
  if n_base n + d <=? n_next n
  then {| n_rx := n_rx n; n_base := n_base n + d; n_next := n_next n; n_sub := n_sub n |}
  else n.

(* one well-formed frame received by the NCP: new state, payloads handed to its upper layer *)
Definition n_recv (n : nstate) (f : frame) : nstate * list (list N) :=
  match f with
  | Data frm _ ack p =>
      let n1 := n_ack n ack in
      if (frm =? num8 (n_rx n1))%N
      then ({| n_rx := S (n_rx n1); n_base := n_base n1; n_next := n_next n1; n_sub := n_sub n1 |}, [p])
      else (n1, [])
  | Ack _ _ ack | Nak _ _ ack => (n_ack n ack, [])
  | _ => (n, [])
  end.

(* ---- the system ------------------------------------------------------------------------------- *)
Record lstate := {
  hs : hstate;                (* evolves through host_step only *)
  ns : nstate;
  h2n : list frame;           (* host -> NCP, head first *)
  n2h : list frame;           (* NCP -> host, head first *)
  htrace : list hout;         (* everything the host has output, in order *)
  nups : list (list N)        (* payloads handed up on the NCP side, in order *)
}.
Definition l_init : lstate :=
  {| hs := h_init; ns := n_init; h2n := []; n2h := []; htrace := []; nups := [] |}.

Inductive label :=
(* the host's callers and clock *)
| LSubmit (id : N) (p : list N)        (* a caller starts send [id] *)
| LCancel (id : N)                     (* the caller of send [id] is cancelled *)
| LTick                                (* stall: the acknowledgement timeout of the current attempt fires *)
| LWaitTo (t : float)                  (* time passes *)
(* the NCP's own moves *)
| LNSubmit (p : list N)                (* its upper layer submits a payload *)
| LNData (i : nat) (re : bool)         (* (re)transmit DATA frame number i of its window *)
| LNAck | LNNak                        (* send an ACK / NAK carrying its receive counter *)
(* the line: head of the NCP -> host queue *)
| LHDeliver | LHDrop | LHDup | LHCorrupt
| LHRead (n : nat)                     (* the host gets the first n frames in one read *)
(* the line: head of the host -> NCP queue *)
| LNDeliver | LNDrop | LNDup | LNCorrupt.

(* the bytes a host output puts on the line (CANCEL+NAK reads as a NAK) *)
Definition wire_of (o : hout) : list frame :=
  match o with
  | HData _ frm re ack p _ => [Data frm re ack p]
  | HAck n => [Ack 0 0 n]
  | HNak n | HCancelNak n => [Nak 0 0 n]
  | _ => []
  end.
Definition wire (l : list hout) : list frame := flat_map wire_of l.

(* run one host event; its writes join the host -> NCP queue in order *)
Definition host_do (s : lstate) (e : hevent) : lstate :=
  let r := host_step (hs s) e in
  {| hs := fst r; ns := ns s; h2n := h2n s ++ wire (snd r); n2h := n2h s;
     htrace := htrace s ++ snd r; nups := nups s |}.

Definition set_n2h (s : lstate) (q : list frame) : lstate :=
  {| hs := hs s; ns := ns s; h2n := h2n s; n2h := q; htrace := htrace s; nups := nups s |}.
Definition set_h2n (s : lstate) (q : list frame) : lstate :=
  {| hs := hs s; ns := ns s; h2n := q; n2h := n2h s; htrace := htrace s; nups := nups s |}.
Definition ncp_sends (s : lstate) (n : nstate) (fs : list frame) : lstate :=
  {| hs := hs s; ns := n; h2n := h2n s; n2h := n2h s ++ fs; htrace := htrace s; nups := nups s |}.

Definition dup_head {A} (q : list A) : list A := match q with [] => [] | x :: q' => x :: x :: q' end.

Definition bit (b : bool) : N := if b then 1%N else 0%N.

(* K is the NCP's transmit window.  Labels that are not enabled leave the state unchanged. *)
Definition link_step (K : nat) (s : lstate) (l : label) : lstate :=
  match l with
  | LSubmit id p => host_do s (Submit id p)
  | LCancel id => host_do s (CancelCaller id)
  | LTick => host_do s Tick
  | LWaitTo t => host_do s (WaitTo t)
  | LNSubmit p =>
      let n := ns s in
      ncp_sends s {| n_rx := n_rx n; n_base := n_base n; n_next := n_next n; n_sub := n_sub n ++ [p] |} []
  | LNData i re =>
      let n := ns s in
      if (n_base n <=? i) && (i <=? n_next n) && (i <? n_base n + K) && (i <? length (n_sub n))
      then ncp_sends s {| n_rx := n_rx n; n_base := n_base n; n_next := Nat.max (n_next n) (S i);
                          n_sub := n_sub n |}
                     [Data (num8 i) (bit re) (num8 (n_rx n)) (nth i (n_sub n) [])]
      else s
  | LNAck => ncp_sends s (ns s) [Ack 0 0 (num8 (n_rx (ns s)))]
  | LNNak => ncp_sends s (ns s) [Nak 0 0 (num8 (n_rx (ns s)))]
  | LHDeliver =>
      match n2h s with
      | [] => s
      | f :: q => host_do (set_n2h s q) (Frames [f])
      end
  | LHRead n =>
      (* the frames take effect back to back, only then do the suspended coroutines resume *)
      host_do (set_n2h s (skipn n (n2h s))) (Frames (firstn n (n2h s)))
  | LHDrop => set_n2h s (tl (n2h s))
  | LHDup => set_n2h s (dup_head (n2h s))
  | LHCorrupt =>
      (* an unparsable frame: the host answers CANCEL + NAK and is otherwise unchanged *)
      match n2h s with
      | [] => s
      | _ :: q =>
          {| hs := hs s; ns := ns s; h2n := h2n s ++ wire [HCancelNak (rx_seq (hs s))]; n2h := q;
             htrace := htrace s ++ [HCancelNak (rx_seq (hs s))]; nups := nups s |}
      end
  | LNDeliver =>
      match h2n s with
      | [] => s
      | f :: q =>
          let r := n_recv (ns s) f in
          {| hs := hs s; ns := fst r; h2n := q; n2h := n2h s; htrace := htrace s;
             nups := nups s ++ snd r |}
      end
  | LNDrop => set_h2n s (tl (h2n s))
  | LNDup => set_h2n s (dup_head (h2n s))
  | LNCorrupt =>
      (* an unparsable frame: the NCP discards it and asks for a retransmission *)
      match h2n s with
      | [] => s
      | _ :: q => ncp_sends (set_h2n s q) (ns s) [Nak 0 0 (num8 (n_rx (ns s)))]
      end
  end.

Definition link_run (K : nat) (ls : list label) : lstate := fold_left (link_step K) ls l_init.

(* ---- what the properties observe -------------------------------------------------------------- *)
(* payloads handed up on the host side, in order *)
Definition ups_of (l : list hout) : list (list N) :=
  flat_map (fun o => match o with HUp p => [p] | _ => [] end) l.
Definition hups (s : lstate) : list (list N) := ups_of (htrace s).

(* the sends in the order of their first transmission (reTx = 0), with their payloads *)
Definition first_tx (l : list hout) : list (N * list N) :=
  flat_map (fun o => match o with
                     | HData id _ re _ p _ => if (re =? 0)%N then [(id, p)] else []
                     | _ => [] end) l.

(* the sends whose caller was told "done" *)
Definition oks (l : list hout) : list N :=
  flat_map (fun o => match o with HDone id OOk => [id] | _ => [] end) l.

(* every completion reported: (id, outcome) *)
Definition completions (l : list hout) : list (N * outcome) :=
  flat_map (fun o => match o with HDone id oc => [(id, oc)] | _ => [] end) l.

(* what the callers asked for, in order *)
Definition lsubmits (ls : list label) : list (N * list N) :=
  flat_map (fun l => match l with LSubmit id p => [(id, p)] | _ => [] end) ls.

(* the sends whose payload the NCP's upper layer has received: by c01_host_to_ncp_prefix the k-th
   payload handed up on the NCP side is the payload of the k-th send first-transmitted *)
Definition ncp_deliveries (s : lstate) : list (N * list N) :=
  firstn (length (nups s)) (first_tx (htrace s)).

Definition prefix_of {A} (a b : list A) : Prop := exists rest, b = a ++ rest.

(* ---- cancellation ------------------------------------------------------------------------------ *)
Definition is_cancel (l : label) : bool := match l with LCancel _ => true | _ => false end.
Definition drop_cancels (ls : list label) : list label := filter (fun l => negb (is_cancel l)) ls.

Definition set_cancelled (st : hstate) (c : list N) : hstate :=
  {| tx_seq := tx_seq st; rx_seq := rx_seq st; failed := failed st; t_ack := t_ack st; now := now st;
     waiters := waiters st; cur := cur st; cancelled := c |}.

(* the trace without the completion events of the callers in C *)
Definition strip (C : list N) (l : list hout) : list hout :=
  filter (fun o => match o with HDone id _ => negb (memN id C) | _ => true end) l.
