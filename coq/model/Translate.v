(* C13 model: ControllerApplication.ezsp_callback_handler / _handle_frame / _handle_tc_join_handler
   on the flat decoded values of the callback frames (as produced by decode_schema over the generated
   schemas).  The positional unpacking of the code is written out for the two field orders. *)
From Coq Require Import String ZArith NArith List Bool.
Import ListNotations.
Require Import BV.lib.EzspTypes BV.gen.GenCallbacks.
Open Scope N_scope.

Inductive dest := DNwk (own : Z) | DGroup (g : Z) | DBroadcast (a : Z).

Record packet := {
  k_src : Z; k_src_ep : Z; k_dst : dest; k_dst_ep : Z; k_tsn : Z; k_profile : Z; k_cluster : Z;
  k_data : list N; k_lqi : Z; k_rssi : Z
}.

Inductive app_event :=
| EvPacket (p : packet)
| EvJoin (nwk : Z) (ieee : list (list pval)) (parent : Z)
| EvLeave (nwk : Z) (ieee : list (list pval)).

Definition geti (n : nat) (vs : list ival) : option Z :=
  match nth_error vs n with Some (XP (VI z)) => Some z | _ => None end.
Definition getb (n : nat) (vs : list ival) : option (list N) :=
  match nth_error vs n with Some (XP (VB b)) => Some b | _ => None end.
Definition getl (n : nat) (vs : list ival) : option (list (list pval)) :=
  match nth_error vs n with Some (XL r) => Some r | _ => None end.

(* flat positions of what the code unpacks: (type, aps frame start, lqi, rssi, sender, message) *)
Definition incoming_positions (v : N) : nat * nat * nat * nat * nat * nat :=
  if 14 <=? v then (0, 1, 12, 13, 8, 15)%nat     (* type, aps, nwk, eui64, binding, address, lqi, rssi, timestamp, message *)
  else (0, 1, 8, 9, 10, 13)%nat.                 (* type, aps, lqi, rssi, sender, binding, address, message *)

(* EmberApsFrame: profileId, clusterId, sourceEndpoint, destinationEndpoint, options, groupId, sequence *)
Definition translate_incoming (v : N) (own_nwk : Z) (vs : list ival) : option (list app_event) :=
  let '(pt, pa, pl, pr, ps, pm) := incoming_positions v in
  match geti pt vs, geti pa vs, geti (pa + 1) vs, geti (pa + 2) vs, geti (pa + 3) vs,
        geti (pa + 5) vs, geti (pa + 6) vs, geti pl vs, geti pr vs, geti ps vs, getb pm vs with
  | Some ty, Some profile, Some cluster, Some sep, Some dep, Some grp, Some tsn,
    Some lqi, Some rssi, Some sender, Some msg =>
      let mk d := Some [EvPacket {| k_src := sender; k_src_ep := sep; k_dst := d; k_dst_ep := dep;
                                    k_tsn := tsn; k_profile := profile; k_cluster := cluster;
                                    k_data := msg; k_lqi := lqi; k_rssi := rssi |}] in
      if (ty =? Z.of_N INCOMING_BROADCAST)%Z then mk (DBroadcast (Z.of_N BROADCAST_ALL_ROUTERS_AND_COORDINATOR))
      else if (ty =? Z.of_N INCOMING_MULTICAST)%Z then mk (DGroup grp)
      else if (ty =? Z.of_N INCOMING_UNICAST)%Z then mk (DNwk own_nwk)
      else Some []
  | _, _, _, _, _, _, _, _, _, _, _ => None      (* would be an unpacking error *)
  end.

(* trustCenterJoinHandler: (nwk, ieee, device_update_status, decision, parent_nwk) in every version *)
Definition translate_join (vs : list ival) : option (list app_event) :=
  match geti 0 vs, getl 1 vs, geti 2 vs, geti 3 vs, geti 4 vs with
  | Some nwk, Some ieee, Some status, Some decision, Some parent =>
      if (status =? Z.of_N DEVICE_LEFT)%Z then Some [EvLeave nwk ieee]
      else if (decision =? Z.of_N DENY_JOIN)%Z then Some []
      else Some [EvJoin nwk ieee parent]
  | _, _, _, _, _ => None
  end.

Definition translate (v : N) (own_nwk : Z) (name : string) (vs : list ival) : option (list app_event) :=
  if String.eqb name "incomingMessageHandler" then translate_incoming v own_nwk vs
  else if String.eqb name "trustCenterJoinHandler" then translate_join vs
  else Some [].

(* ---- lookup in the generated field tables ------------------------------------------------------ *)
Fixpoint assocN {A} (k : N) (l : list (N * A)) : option A :=
  match l with [] => None | (k', x) :: l' => if k' =? k then Some x else assocN k l' end.
Fixpoint assocS {A} (k : string) (l : list (string * N * A)) : option A :=
  match l with [] => None | (k', _, x) :: l' => if String.eqb k' k then Some x else assocS k l' end.
Definition fields_of (v : N) (handler : string) : list (string * nat * nat) :=
  match assocN v CB_FIELDS with
  | Some hs => match assocS handler hs with Some f => f | None => [] end
  | None => []
  end.
(* name of the field whose flat items include position p *)
Fixpoint field_at (p : nat) (fs : list (string * nat * nat)) : option (string * nat) :=
  match fs with
  | [] => None
  | (n, start, cnt) :: fs' =>
      if (start <=? p)%nat && (p <? start + cnt)%nat then Some (n, (p - start)%nat) else field_at p fs'
  end.

(* ---- encoding for the correspondence ----------------------------------------------------------- *)
Definition enc_pv (p : pval) : list Z :=
  match p with VI z => [z] | VB l => Z.of_nat (List.length l) :: map Z.of_N l end.
Definition enc_ieee (r : list (list pval)) : list Z := flat_map (flat_map enc_pv) r.
Definition enc_dest (d : dest) : list Z :=
  match d with DNwk a => [0%Z; a] | DGroup g => [1%Z; g] | DBroadcast a => [2%Z; a] end.
Definition enc_event (e : app_event) : list Z :=
  match e with
  | EvPacket p => [1%Z; k_src p; k_src_ep p] ++ enc_dest (k_dst p)
                  ++ [k_dst_ep p; k_tsn p; k_profile p; k_cluster p; Z.of_nat (List.length (k_data p))]
                  ++ map Z.of_N (k_data p) ++ [k_lqi p; k_rssi p]
  | EvJoin n i p => [2%Z; n] ++ enc_ieee i ++ [p]
  | EvLeave n i => [3%Z; n] ++ enc_ieee i
  end.
