(* The one asyncio schedule the frame-level host model (AshHost.v) leaves out: NCP frames and the
   acknowledgement timeout falling into the SAME event-loop iteration.  asyncio runs the I/O callback
   (data_received) before the due timer of that iteration, and both before any coroutine resumes:
   the frames have their synchronous effects (the acknowledgement future may get its result), then
   the timeout's callback cancels the waiting task, which - its future being already done - is
   marked for cancellation and receives CancelledError when it resumes; asyncio's timeout context
   turns that into TimeoutError.  So the attempt ends as a timeout whatever the frames carried. *)
From Coq Require Import PrimFloat ZArith NArith List Bool.
Import ListNotations.
Require Import BV.gen.GenAsh BV.model.AshCodec BV.model.AshRx BV.model.AshHost.
Open Scope N_scope.

Definition race_step (st : hstate) (fs : list frame) : hstate * list hout :=
  match cur st with
  | Some c =>
      match cfut c with
      | FPending =>
          let '(st1, o1) := apply_frames (set_now st (cdeadline c)) fs in
          match cur st1 with
          | Some c1 =>
              let st2 := set_t st1 (on_timeout (t_ack st1)) in
              let '(st3, o3) := retry_or_fail st2 c1 OTimeout in (st3, o1 ++ o3)
          | None => (st1, o1)
          end
      | _ => (st, [])
      end
  | None => (st, [])
  end.

Inductive revent := REv (e : hevent) | RRace (fs : list frame).

Definition rstep (st : hstate) (e : revent) : hstate * list hout :=
  match e with REv e => host_step st e | RRace fs => race_step st fs end.

Fixpoint rrun (st : hstate) (es : list revent) : hstate * list (list hout) :=
  match es with
  | [] => (st, [])
  | e :: es' => let '(st1, o) := rstep st e in
                let '(st2, os) := rrun st1 es' in (st2, o :: os)
  end.

Definition run_race_case (es : list revent) : list Z :=
  let '(st, os) := rrun h_init es in flat_map enc_step os ++ enc_final st.
