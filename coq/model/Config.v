(* C16 model: EZSP.write_config (bellows/ezsp/__init__.py) over the generated default tables. *)
From Coq Require Import ZArith NArith List Bool.
Import ListNotations.
Require Import BV.gen.GenConfig.
Open Scope N_scope.

Record entry := { e_id : N; e_val : N; e_min : bool }.

Fixpoint assoc {A} (k : N) (l : list (N * A)) : option A :=
  match l with
  | [] => None
  | (k', v) :: l' => if k' =? k then Some v else assoc k l'
  end.

Definition defaults_of (v : N) : list (bool * N * N * bool * N) :=
  match assoc v DEFAULT_CONFIG with Some l => l | None => [] end.
Definition schema_defaults_of (v : N) : list (N * N) :=
  match assoc v SCHEMA_DEFAULTS with Some l => l | None => [] end.

(* the two dicts built from DEFAULT_CONFIG[version] *)
Definition config_defaults (v : N) : list entry :=
  flat_map (fun x => match x with (false, id, val, mn, _) => [{| e_id := id; e_val := val; e_min := mn |}]
                                | _ => [] end) (defaults_of v).
Definition value_defaults (v : N) : list (N * N * N) :=
  flat_map (fun x => match x with (true, id, val, _, w) => [(id, val, w)] | _ => [] end) (defaults_of v).

Fixpoint has_id (id : N) (d : list entry) : bool :=
  match d with [] => false | e :: d' => (e_id e =? id) || has_id id d' end.

(* ezsp_config[name] = RuntimeConfig(value): position kept when the key exists, else appended *)
Fixpoint set_user (id val : N) (d : list entry) : list entry :=
  match d with
  | [] => [{| e_id := id; e_val := val; e_min := false |}]
  | e :: d' => if e_id e =? id then {| e_id := id; e_val := val; e_min := false |} :: d'
               else e :: set_user id val d'
  end.

(* a schema default is not a user override: the grow-only flag of the default entry is kept *)
Fixpoint set_schema_default (id val : N) (d : list entry) : list entry :=
  match d with
  | [] => [{| e_id := id; e_val := val; e_min := false |}]
  | e :: d' => if e_id e =? id then {| e_id := id; e_val := val; e_min := e_min e |} :: d'
               else e :: set_schema_default id val d'
  end.

Fixpoint remove_id (id : N) (d : list entry) : list entry :=
  match d with
  | [] => []
  | e :: d' => if e_id e =? id then d' else e :: remove_id id d'
  end.

Fixpoint find_id (id : N) (d : list entry) : option entry :=
  match d with
  | [] => None
  | e :: d' => if e_id e =? id then Some e else find_id id d'
  end.

Definition move_last (id : N) (d : list entry) : list entry :=
  match find_id id d with
  | Some e => remove_id id d ++ [e]
  | None => d
  end.

(* the validated config: the user's keys in their order, then schema defaults for absent keys *)
Definition apply_user (d : list entry) (user : list (N * option N)) : list entry :=
  fold_left (fun d kv => match snd kv with
                         | None => remove_id (fst kv) d
                         | Some val => set_user (fst kv) val d
                         end) user d.

Definition user_has (id : N) (user : list (N * option N)) : bool :=
  existsb (fun kv => fst kv =? id) user.

Definition apply_schema_defaults (d : list entry) (user : list (N * option N)) (sd : list (N * N)) : list entry :=
  fold_left (fun d kv => if user_has (fst kv) user then d else set_schema_default (fst kv) (snd kv) d) sd d.

Definition merged_gen (d0 : list entry) (sd : list (N * N)) (user : list (N * option N)) : list entry :=
  move_last CONFIG_PACKET_BUFFER_COUNT (apply_schema_defaults (apply_user d0 user) user sd).

Definition merged (v : N) (user : list (N * option N)) : list entry :=
  merged_gen (config_defaults v) (schema_defaults_of v) user.

(* read-compare-skip: grow-only entries are skipped when the NCP already reports at least as much *)
Definition config_writes (d : list entry) (current : list (N * option N)) : list (N * N) :=
  flat_map (fun e =>
    match assoc (e_id e) current with
    | Some (Some cur) => if e_min e && (e_val e <=? cur) then [] else [(e_id e, e_val e)]
    | _ => [(e_id e, e_val e)]
    end) d.

Definition write_plan (v : N) (user : list (N * option N)) (current : list (N * option N))
  : list (N * N * N) * list (N * N) :=
  (value_defaults v, config_writes (merged v user) current).

(* encoding for the correspondence *)
Definition run_config_case (c : N * list (N * option N) * list (N * option N)) : list Z :=
  let '(v, user, current) := c in
  let '(vw, cw) := write_plan v user current in
  flat_map (fun x => match x with (id, val, w) => [1%Z; Z.of_N id; Z.of_N val; Z.of_N w] end) vw
  ++ flat_map (fun x => [2%Z; Z.of_N (fst x); Z.of_N (snd x)]) cw.
