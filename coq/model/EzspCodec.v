(* EZSP frame codec (C07): headers of the three layouts (EZSPv4/v5/v8 ._ezsp_frame_tx/_rx),
   serialize_dict / deserialize_dict over flat wire descriptors, ProtocolHandler._ezsp_frame and
   the decoding half of ProtocolHandler.__call__.  zigpy's primitive serialisers are modelled here
   (little-endian integers, length-prefixed bytes, the four list shapes) and exercised against the
   real ones by the C07 correspondence. *)
From Coq Require Import ZArith NArith List Bool String.
Import ListNotations.
Require Import BV.lib.EzspTypes.
Open Scope N_scope.

(* ---- integers -------------------------------------------------------------------------------- *)
Fixpoint le_bytes (n : nat) (v : N) : list N :=
  match n with
  | O => []
  | S n' => v mod 256 :: le_bytes n' (v / 256)
  end.

Fixpoint le_value (bs : list N) : N :=
  match bs with
  | [] => 0
  | b :: r => b + 256 * le_value r
  end.

Definition pow256 (n : nat) : N := N.pow 256 (N.of_nat n).

(* ---- primitives ------------------------------------------------------------------------------ *)
Definition enc_prim (p : prim) (v : pval) : option (list N) :=
  match p, v with
  | PU n, VI z =>
      if ((0 <=? z) && (z <? Z.of_N (pow256 n)))%Z then Some (le_bytes n (Z.to_N z)) else None
  | PS n, VI z =>
      let half := Z.of_N (pow256 n / 2) in
      if ((- half <=? z) && (z <? half))%Z
      then Some (le_bytes n (Z.to_N (z mod Z.of_N (pow256 n)))) else None
  | PLV p, VB l =>
      if (N.of_nat (List.length l) <? pow256 p - 1) && forallb (fun b => b <? 256) l
      then Some (le_bytes p (N.of_nat (List.length l)) ++ l) else None
  | _, _ => None
  end.

Definition dec_prim (p : prim) (d : list N) : option (pval * list N) :=
  match p with
  | PU n =>
      if (List.length d <? n)%nat then None
      else Some (VI (Z.of_N (le_value (firstn n d))), skipn n d)
  | PS n =>
      if (List.length d <? n)%nat then None
      else
        let u := le_value (firstn n d) in
        let z := if u <? pow256 n / 2 then Z.of_N u else (Z.of_N u - Z.of_N (pow256 n))%Z in
        Some (VI z, skipn n d)
  | PLV p =>
      if (List.length d <? p)%nat then None
      else
        (* the length is compared as a binary number: a 4-byte prefix can announce 2^32-1 bytes *)
        let lenN := le_value (firstn p d) in
        let d' := skipn p d in
        if N.of_nat (List.length d') <? lenN then None
        else let len := N.to_nat lenN in Some (VB (firstn len d'), skipn len d')
  end.

(* a row: the flat fields of one list element *)
Fixpoint enc_row (ps : list prim) (vs : list pval) : option (list N) :=
  match ps, vs with
  | [], [] => Some []
  | p :: ps', v :: vs' =>
      match enc_prim p v, enc_row ps' vs' with
      | Some a, Some b => Some (a ++ b)
      | _, _ => None
      end
  | _, _ => None
  end.

Fixpoint dec_row (ps : list prim) (d : list N) : option (list pval * list N) :=
  match ps with
  | [] => Some ([], d)
  | p :: ps' =>
      match dec_prim p d with
      | Some (v, d') =>
          match dec_row ps' d' with
          | Some (vs, d'') => Some (v :: vs, d'')
          | None => None
          end
      | None => None
      end
  end.

Fixpoint enc_rows (ps : list prim) (rows : list (list pval)) : option (list N) :=
  match rows with
  | [] => Some []
  | r :: rows' =>
      match enc_row ps r, enc_rows ps rows' with
      | Some a, Some b => Some (a ++ b)
      | _, _ => None
      end
  end.

Fixpoint dec_rows_n (n : nat) (ps : list prim) (d : list N) : option (list (list pval) * list N) :=
  match n with
  | O => Some ([], d)
  | S n' =>
      match dec_row ps d with
      | Some (r, d') =>
          match dec_rows_n n' ps d' with
          | Some (rs, d'') => Some (r :: rs, d'')
          | None => None
          end
      | None => None
      end
  end.

(* greedy: rows until the data is exhausted (zigpy List.deserialize); fuel = number of bytes *)
Fixpoint dec_rows_all (fuel : nat) (ps : list prim) (d : list N) : option (list (list pval)) :=
  match d with
  | [] => Some []
  | _ =>
      match fuel with
      | O => None
      | S fuel' =>
          match dec_row ps d with
          | Some (r, d') =>
              match dec_rows_all fuel' ps d' with
              | Some rs => Some (r :: rs)
              | None => None
              end
          | None => None
          end
      end
  end.

(* ---- items and schemas ----------------------------------------------------------------------- *)
(* tag0: the first field of the schema carries the value 0 (the IReq0 condition) *)
Definition enc_item (tag0 : bool) (it : item) (v : ival) : option (list N) :=
  match it, v with
  | IP p, XP x => enc_prim p x
  | ILV pfx ps, XL rows =>
      if N.of_nat (List.length rows) <? pow256 pfx then
        option_map (app (le_bytes pfx (N.of_nat (List.length rows)))) (enc_rows ps rows)
      else None
  | IFixed n ps, XL rows => if (List.length rows =? n)%nat then enc_rows ps rows else None
  | IRest ps, XL rows => enc_rows ps rows
  | IOpt ps, XNone => Some []
  | IOpt ps, XL [r] => enc_row ps r
  | IReq0 ps, XNone => if tag0 then None else Some []
  | IReq0 ps, XL [r] => if tag0 then enc_row ps r else None
  | IPad _ _ _, XNone => Some []
  | _, _ => None
  end.

Definition dec_item (tag0 : bool) (it : item) (d : list N) : option (ival * list N) :=
  match it with
  | IP p => match dec_prim p d with Some (x, d') => Some (XP x, d') | None => None end
  | ILV pfx ps =>
      if (List.length d <? pfx)%nat then None
      else match dec_rows_n (N.to_nat (le_value (firstn pfx d))) ps (skipn pfx d) with
           | Some (rows, d') => Some (XL rows, d')
           | None => None
           end
  | IFixed n ps =>
      match dec_rows_n n ps d with Some (rows, d') => Some (XL rows, d') | None => None end
  | IRest ps =>
      match dec_rows_all (List.length d) ps d with Some rows => Some (XL rows, []) | None => None end
  | IOpt ps =>
      match d with
      | [] => Some (XNone, [])
      | _ => match dec_row ps d with Some (r, d') => Some (XL [r], d') | None => None end
      end
  | IReq0 ps =>
      if tag0 then match dec_row ps d with Some (r, d') => Some (XL [r], d') | None => None end
      else Some (XNone, d)
  | IPad w a n =>
      (* EmberKeyStruct.deserialize: exactly w bytes left -> n zero bytes are spliced in at offset a *)
      Some (XNone, if (List.length d =? w)%nat then firstn a d ++ repeat 0 n ++ skipn a d else d)
  end.

Definition is_tag0 (vs : list ival) : bool :=
  match vs with XP (VI 0%Z) :: _ => true | _ => false end.

Fixpoint enc_items (tag0 : bool) (s : schema) (vs : list ival) : option (list N) :=
  match s, vs with
  | [], [] => Some []
  | it :: s', v :: vs' =>
      match enc_item tag0 it v, enc_items tag0 s' vs' with
      | Some a, Some b => Some (a ++ b)
      | _, _ => None
      end
  | _, _ => None
  end.

Definition encode_schema (s : schema) (vs : list ival) : option (list N) := enc_items (is_tag0 vs) s vs.

(* decoding threads "is the first decoded field 0" through the fields *)
Fixpoint dec_items (first : bool) (tag0 : bool) (s : schema) (d : list N) : option (list ival * list N) :=
  match s with
  | [] => Some ([], d)
  | it :: s' =>
      match dec_item tag0 it d with
      | Some (v, d') =>
          let tag0' := if first then is_tag0 [v] else tag0 in
          match dec_items false tag0' s' d' with
          | Some (vs, d'') => Some (v :: vs, d'')
          | None => None
          end
      | None => None
      end
  end.

Definition decode_schema (s : schema) (d : list N) : option (list ival * list N) := dec_items true false s d.

(* ---- well-formed (decodable) schemas ----------------------------------------------------------- *)
Definition wf_prim (p : prim) : bool :=
  match p with PU n | PS n | PLV n => (0 <? n)%nat end.
Definition wf_row (ps : list prim) : bool :=
  match ps with [] => false | _ => forallb wf_prim ps end.

(* the exact wire size of an item whose size does not depend on its value *)
Definition prim_size (p : prim) : option nat :=
  match p with PU k | PS k => Some k | PLV _ => None end.
Fixpoint row_size (ps : list prim) : option nat :=
  match ps with
  | [] => Some O
  | p :: ps' =>
      match prim_size p, row_size ps' with
      | Some a, Some b => Some (a + b)%nat
      | _, _ => None
      end
  end.
Definition fixed_size (it : item) : option nat :=
  match it with
  | IP p => prim_size p
  | IFixed m ps => match row_size ps with Some k => Some (m * k)%nat | None => None end
  | _ => None
  end.
(* the total size of the maximal leading run of fixed-size items *)
Fixpoint fixed_prefix (s : schema) : nat :=
  match s with
  | [] => O
  | it :: s' => match fixed_size it with Some k => (k + fixed_prefix s')%nat | None => O end
  end.

Fixpoint wf_items (s : schema) : bool :=
  match s with
  | [] => true
  | [IRest ps] | [IOpt ps] | [IReq0 ps] => wf_row ps
  | IP p :: s' => wf_prim p && wf_items s'
  | ILV pfx ps :: s' => (0 <? pfx)%nat && wf_row ps && wf_items s'
  | IFixed _ ps :: s' => wf_row ps && wf_items s'
  (* the padding quirk never fires on encoder output: more than w bytes always follow *)
  | IPad w _ _ :: s' => (w <? fixed_prefix s')%nat && wf_items s'
  | _ :: _ => false          (* a greedy / optional / conditional item that is not last *)
  end.

Definition has_req0 (s : schema) : bool :=
  existsb (fun it => match it with IReq0 _ => true | _ => false end) s.

Definition wf_schema (s : schema) : bool :=
  wf_items s &&
  (negb (has_req0 s) || match s with IP (PU _) :: _ :: _ => true | _ => false end).

(* ---- serialize_dict: positional and keyword arguments ------------------------------------------ *)
Section Bind.
  Variable A : Type.
  Fixpoint kw_lookup (k : string) (kw : list (string * A)) : option A :=
    match kw with
    | [] => None
    | (k', v) :: kw' =>
        (* {**positional, **kwargs}: a later keyword wins; kwargs cannot repeat a key in Python *)
        if String.eqb k' k then Some v else kw_lookup k kw'
    end.
  (* params = {**dict(zip(keys, args)), **kwargs}; then params[k] for k in keys (KeyError = None) *)
  Fixpoint bind_args (keys : list string) (args : list A) (kw : list (string * A)) : option (list A) :=
    match keys with
    | [] => Some []
    | k :: keys' =>
        let here := match kw_lookup k kw with
                    | Some v => Some v
                    | None => match args with a :: _ => Some a | [] => None end
                    end in
        match here, bind_args keys' (tl args) kw with
        | Some v, Some r => Some (v :: r)
        | _, _ => None
        end
    end.
End Bind.

(* ---- headers ------------------------------------------------------------------------------------ *)
(* kind: 4 = EZSPv4 (3 bytes), 5 = EZSPv5..v7 (legacy 5 bytes), 8 = EZSPv8.. (16-bit frame id) *)
Definition header_tx (kind seq id : N) : option (list N) :=
  if kind =? 4 then (if id <? 256 then Some [N.land seq 0xFF; 0; id] else None)
  else if kind =? 5 then (if (id <? 256) && (seq <? 256) then Some [seq; 0x00; 0xFF; 0x00; id] else None)
  else (if (id <? 65536) && (seq <? 256) then Some [seq; 0x00; 0x01; id mod 256; id / 256] else None).

Definition header_rx (kind : N) (d : list N) : option (N * N * list N) :=
  if kind =? 4 then
    match d with
    | s :: _ :: i :: rest => Some (s, i, rest)
    | _ => None
    end
  else if kind =? 5 then
    match d with
    | s :: _ :: _ :: _ :: i :: rest => Some (s, i, rest)
    | _ => None
    end
  else
    match d with
    | s :: _ :: _ :: lo :: hi :: rest => Some (s, lo + 256 * hi, rest)
    | _ => None
    end.

Definition id_limit (kind : N) : N := if (kind =? 4) || (kind =? 5) then 256 else 65536.

(* ---- command tables ------------------------------------------------------------------------------ *)
Definition command := (string * N * nat * nat)%type.
Definition c_name (c : command) : string := fst (fst (fst c)).
Definition c_id (c : command) : N := snd (fst (fst c)).
Definition c_tx (c : command) : nat := snd (fst c).
Definition c_rx (c : command) : nat := snd c.

Fixpoint find_by_id (id : N) (cs : list command) : option command :=
  match cs with
  | [] => None
  | c :: cs' => if c_id c =? id then Some c else find_by_id id cs'
  end.
Fixpoint find_by_name (n : string) (cs : list command) : option command :=
  match cs with
  | [] => None
  | c :: cs' => if String.eqb (c_name c) n then Some c else find_by_name n cs'
  end.

Section Tables.
  Variable schemas : list schema.
  Definition schema_at (i : nat) : schema := nth i schemas [].

  (* ProtocolHandler._ezsp_frame: header then the arguments in declared order *)
  Definition frame_tx (kind seq : N) (c : command) (vs : list ival) : option (list N) :=
    match header_tx kind seq (c_id c), encode_schema (schema_at (c_tx c)) vs with
    | Some h, Some b => Some (h ++ b)
    | _, _ => None
    end.

  (* the NCP's side of a response/callback frame, and the decoding half of __call__ *)
  Definition frame_rx_encode (kind seq : N) (c : command) (vs : list ival) : option (list N) :=
    match header_tx kind seq (c_id c), encode_schema (schema_at (c_rx c)) vs with
    | Some h, Some b => Some (h ++ b)
    | _, _ => None
    end.

  Definition frame_rx_decode (kind : N) (cs : list command) (d : list N)
    : option (N * command * list ival * list N) :=
    match header_rx kind d with
    | None => None
    | Some (seq, id, payload) =>
        match find_by_id id cs with
        | None => None
        | Some c =>
            match decode_schema (schema_at (c_rx c)) payload with
            | Some (vs, rest) => Some (seq, c, vs, rest)
            | None => None
            end
        end
    end.
End Tables.

(* ---- encodings for the correspondence ------------------------------------------------------------ *)
Definition enc_pval (v : pval) : list Z :=
  match v with
  | VI z => [0%Z; z]
  | VB l => 1%Z :: Z.of_nat (List.length l) :: map Z.of_N l
  end.
Definition enc_ival (v : ival) : list Z :=
  match v with
  | XP p => 10%Z :: enc_pval p
  | XL rows => 11%Z :: Z.of_nat (List.length rows)
               :: flat_map (fun r => Z.of_nat (List.length r) :: flat_map enc_pval r) rows
  | XNone => [12%Z]
  end.
Definition enc_obytes (o : option (list N)) : list Z :=
  match o with None => [(-1)%Z] | Some l => Z.of_nat (List.length l) :: map Z.of_N l end.
