(* C20 model: the dispatch decision of ThreadsafeProxy.__getattr__ / func_wrapper (bellows/thread.py)
   and the relay semantics, with the owner's event loop abstracted as a FIFO queue of pending bodies
   that only the owner executes.  Which OS thread runs a body, and what happens while the owner loop
   is being stopped, are facts of CPython's asyncio and are NOT in this model (see DESIGN.md C20). *)
From Coq Require Import ZArith NArith List Bool.
Import ListNotations.
Open Scope N_scope.

Inductive action := Refuse | RunDirect | Drop | Submit | Queue.

(* attribute callable? ; coroutine function? ; caller is on the owner's loop? ; owner's loop closed? *)
Definition dispatch (callable coroutine same_loop closed : bool) : action :=
  if negb callable then Refuse
  else if same_loop then RunDirect
  else if closed then Drop
  else if coroutine then Submit
  else Queue.

(* what the wrapped body does when it runs *)
Inductive body := BReturns (v : option N) | BRaises (e : N).

Inductive who := Owner | Caller.

(* what the caller gets back *)
Inductive result :=
| RRefused                      (* TypeError at attribute access *)
| RValue (v : option N)         (* direct call / awaited future: the body's value *)
| RException (e : N)            (* direct call / awaited future: the body's exception *)
| RNothing.                     (* queued or dropped: None at once *)

Record pstate := {
  queue : list (N * bool * body);        (* pending on the owner loop: (call, awaited by the caller?, body) *)
  executed : list (N * who);             (* which loop ran which call's body, in order *)
  results : list (N * result);           (* what each caller got *)
  owner_errors : list N                  (* calls whose plain method returned a value: TypeError in the owner *)
}.
Definition p0 : pstate := {| queue := []; executed := []; results := []; owner_errors := [] |}.

Inductive pop :=
| PCall (id : N) (callable coroutine same_loop closed : bool) (b : body)
| POwnerRuns.                            (* the owner loop executes the next pending body *)

Definition run_body (b : body) : result := match b with BReturns v => RValue v | BRaises e => RException e end.

Definition pstep (st : pstate) (o : pop) : pstate :=
  match o with
  | PCall id callable coroutine same closed b =>
      match dispatch callable coroutine same closed with
      | Refuse => {| queue := queue st; executed := executed st; results := results st ++ [(id, RRefused)];
                     owner_errors := owner_errors st |}
      | RunDirect =>    (* the caller IS on the owner's loop *)
          {| queue := queue st; executed := executed st ++ [(id, Owner)];
             results := results st ++ [(id, run_body b)]; owner_errors := owner_errors st |}
      | Drop => {| queue := queue st; executed := executed st; results := results st ++ [(id, RNothing)];
                   owner_errors := owner_errors st |}
      | Submit => {| queue := queue st ++ [(id, true, b)]; executed := executed st; results := results st;
                     owner_errors := owner_errors st |}
      | Queue => {| queue := queue st ++ [(id, false, b)]; executed := executed st;
                    results := results st ++ [(id, RNothing)]; owner_errors := owner_errors st |}
      end
  | POwnerRuns =>
      match queue st with
      | [] => st
      | (id, awaited, b) :: q =>
          {| queue := q; executed := executed st ++ [(id, Owner)];
             results := if awaited then results st ++ [(id, run_body b)] else results st;
             owner_errors := match awaited, b with
                             | false, BReturns (Some _) => owner_errors st ++ [id]
                             | _, _ => owner_errors st
                             end |}
      end
  end.

Definition prun (ops : list pop) : pstate := fold_left pstep ops p0.

(* encoding for the correspondence: per call (id, executed-by, result) *)
Definition enc_result (r : result) : list Z :=
  match r with
  | RRefused => [0%Z]
  | RValue None => [1%Z; (-1)%Z]
  | RValue (Some v) => [1%Z; Z.of_N v]
  | RException e => [2%Z; Z.of_N e]
  | RNothing => [3%Z]
  end.
Definition enc_action (a : action) : Z :=
  match a with Refuse => 0 | RunDirect => 1 | Drop => 2 | Submit => 3 | Queue => 4 end%Z.
Definition dec_body (x : N * N) : body :=
  let '(k, v) := x in if k =? 0 then BReturns None else if k =? 1 then BReturns (Some v) else BRaises v.

(* one call, then the owner drains its queue: (action, body executed?, result, error raised in the owner?) *)
Definition run_proxy_case (c : bool * bool * bool * bool * (N * N)) : list Z :=
  let '(callable, coroutine, same, closed, b) := c in
  let st := prun [PCall 0 callable coroutine same closed (dec_body b); POwnerRuns] in
  [enc_action (dispatch callable coroutine same closed);
   (match executed st with [] => 0 | _ => 1 end)%Z]
  ++ flat_map (fun r => enc_result (snd r)) (results st)
  ++ [(-1)%Z; Z.of_nat (List.length (owner_errors st))].
