(* C12 model: ControllerApplication.send_packet / _handle_frame_sent (bellows/zigbee/application.py):
   the pending table keyed by (destination, message tag), the request lock that makes set-up + send
   atomic, the busy retries spaced by RETRY_DELAYS, the wait for the delivery confirmation.
   zigpy.util.Requests (the pending table) is the harness shim, see DESIGN.md section 7. *)
From Coq Require Import ZArith NArith List Bool.
Import ListNotations.
Require Import BV.gen.GenApp.
Open Scope N_scope.

Inductive pkind := Unicast | Multicast | Broadcast.

(* how the NCP answered the enqueue command, after status normalisation *)
Inductive enq := EnqOk | EnqBusy | EnqRefused.

Inductive rstage :=
| RLock                         (* waiting for the request lock *)
| RSetup (nleft : N)            (* holding the lock, [left] set-up commands still to be answered *)
| RSend                         (* holding the lock, the send command awaits its reply *)
| RBackoff                      (* lock released, sleeping before the next attempt *)
| RConfirm.                     (* waiting for the delivery confirmation *)

Record req := {
  q_id : N; q_kind : pkind; q_dst : N; q_tag : N; q_setup : N;   (* set-up commands per attempt *)
  q_attempt : N; q_stage : rstage; q_confirmed : option bool    (* the confirmation future, if resolved *)
}.

Record sstate := {
  s_seq : N;                         (* zigpy's message-tag counter *)
  s_reqs : list req;                 (* requests in progress, in order of arrival *)
  s_lock : option N;                 (* holder of _req_lock *)
  s_lockq : list N                   (* waiters of _req_lock, FIFO *)
}.
Definition s_init : sstate := {| s_seq := 0; s_reqs := []; s_lock := None; s_lockq := [] |}.

Inductive sevent :=
| SSend (id : N) (k : pkind) (dst : N) (nsetup : N)   (* send_packet called *)
| SReply (id : N) (r : enq)                            (* the request's current command is answered (set-up replies carry EnqOk) *)
| SConfirm (dst tag : N) (ok : bool)                   (* messageSentHandler *)
| STimer (id : N)                                      (* the request's timer fires: retry delay or confirmation timeout *)
| SCancel (id : N).

Inductive sres := ResOk | ResDeliveryError | ResTimeout | ResCancelled | ResDuplicateTag.

Inductive sout :=
| XSetup (id : N)                   (* a set-up command (extended timeout / source route) issued *)
| XSendCmd (id : N) (k : pkind) (dst tag : N)
| XDone (id : N) (r : sres)
| XUnexpected.                      (* confirmation that matches no pending request, or a duplicate *)

Fixpoint rget (id : N) (l : list req) : option req :=
  match l with [] => None | r :: l' => if q_id r =? id then Some r else rget id l' end.
Fixpoint rdel (id : N) (l : list req) : list req :=
  match l with [] => [] | r :: l' => if q_id r =? id then l' else r :: rdel id l' end.
Fixpoint rset (x : req) (l : list req) : list req :=
  match l with [] => [x] | r :: l' => if q_id r =? q_id x then x :: l' else r :: rset x l' end.
Fixpoint rfind_tag (dst tag : N) (l : list req) : option req :=
  match l with
  | [] => None
  | r :: l' => if (q_dst r =? dst) && (q_tag r =? tag) then Some r else rfind_tag dst tag l'
  end.

Definition with_stage (r : req) (s : rstage) : req :=
  {| q_id := q_id r; q_kind := q_kind r; q_dst := q_dst r; q_tag := q_tag r; q_setup := q_setup r;
     q_attempt := q_attempt r; q_stage := s; q_confirmed := q_confirmed r |}.

(* the holder starts its attempt: set-up commands first, then the send command *)
Definition begin_attempt (r : req) : req * list sout :=
  if 0 <? q_setup r then (with_stage r (RSetup (q_setup r)), [XSetup (q_id r)])
  else (with_stage r RSend, [XSendCmd (q_id r) (q_kind r) (q_dst r) (q_tag r)]).

Definition set_reqs (st : sstate) (l : list req) : sstate :=
  {| s_seq := s_seq st; s_reqs := l; s_lock := s_lock st; s_lockq := s_lockq st |}.

(* request [id] wants the lock *)
Definition want_lock (st : sstate) (r : req) : sstate * list sout :=
  match s_lock st with
  | None =>
      let '(r', o) := begin_attempt r in
      ({| s_seq := s_seq st; s_reqs := rset r' (s_reqs st); s_lock := Some (q_id r); s_lockq := s_lockq st |}, o)
  | Some _ =>
      ({| s_seq := s_seq st; s_reqs := rset (with_stage r RLock) (s_reqs st); s_lock := s_lock st;
          s_lockq := s_lockq st ++ [q_id r] |}, [])
  end.

(* the lock is released: the first waiter that is still in progress gets it *)
Fixpoint release_lock (fuel : nat) (st : sstate) : sstate * list sout :=
  match fuel with
  | O => (st, [])
  | S fuel' =>
      match s_lockq st with
      | [] => ({| s_seq := s_seq st; s_reqs := s_reqs st; s_lock := None; s_lockq := [] |}, [])
      | id :: q =>
          let st1 := {| s_seq := s_seq st; s_reqs := s_reqs st; s_lock := None; s_lockq := q |} in
          match rget id (s_reqs st) with
          | Some r => want_lock st1 r
          | None => release_lock fuel' st1
          end
      end
  end.

Definition unlock (st : sstate) : sstate * list sout := release_lock (S (List.length (s_lockq st))) st.

Definition holds (st : sstate) (id : N) : bool := match s_lock st with Some h => h =? id | None => false end.

(* the request ends: bookkeeping removed; the lock is released if it held it *)
Definition end_req (st : sstate) (r : req) (res : sres) : sstate * list sout :=
  let st1 := {| s_seq := s_seq st; s_reqs := rdel (q_id r) (s_reqs st); s_lock := s_lock st;
                s_lockq := filter (fun x => negb (x =? q_id r)) (s_lockq st) |} in
  if holds st (q_id r) then let '(st2, o) := unlock st1 in (st2, XDone (q_id r) res :: o)
  else (st1, [XDone (q_id r) res]).

Definition nretries : N := N.of_nat (List.length RETRY_DELAYS).

Definition sstep (st : sstate) (e : sevent) : sstate * list sout :=
  match e with
  | SSend id k dst nsetup =>
      let tag := (s_seq st + 1) mod 256 in
      let st0 := {| s_seq := tag; s_reqs := s_reqs st; s_lock := s_lock st; s_lockq := s_lockq st |} in
      match rfind_tag dst tag (s_reqs st) with
      | Some _ => (st0, [XDone id ResDuplicateTag])           (* Requests.new raises: duplicate TSN *)
      | None =>
          let r := {| q_id := id; q_kind := k; q_dst := dst; q_tag := tag; q_setup := nsetup;
                      q_attempt := 0; q_stage := RLock; q_confirmed := None |} in
          want_lock (set_reqs st0 (s_reqs st0 ++ [r])) r
      end
  | SReply id res =>
      match rget id (s_reqs st) with
      | Some r =>
          match q_stage r with
          | RSetup nleft =>
              if 1 <? nleft then (set_reqs st (rset (with_stage r (RSetup (nleft - 1))) (s_reqs st)), [XSetup id])
              else (set_reqs st (rset (with_stage r RSend) (s_reqs st)), [XSendCmd id (q_kind r) (q_dst r) (q_tag r)])
          | RSend =>
              (* the lock is released as soon as the send command returned *)
              match res with
              | EnqOk =>
                  match q_kind r with
                  | Unicast =>
                      match q_confirmed r with
                      | Some ok => end_req st r (if ok then ResOk else ResDeliveryError)
                      | None =>
                          let '(st1, o) := unlock (set_reqs st (rset (with_stage r RConfirm) (s_reqs st))) in (st1, o)
                      end
                  | _ => end_req st r ResOk              (* multicast / broadcast: no confirmation awaited *)
                  end
              | EnqRefused => end_req st r ResDeliveryError
              | EnqBusy =>
                  let r' := {| q_id := q_id r; q_kind := q_kind r; q_dst := q_dst r; q_tag := q_tag r;
                               q_setup := q_setup r; q_attempt := q_attempt r + 1; q_stage := RBackoff;
                               q_confirmed := q_confirmed r |} in
                  unlock (set_reqs st (rset r' (s_reqs st)))
              end
          | _ => (st, [])
          end
      | None => (st, [])
      end
  | SConfirm dst tag ok =>
      match rfind_tag dst tag (s_reqs st) with
      | None => (st, [XUnexpected])
      | Some r =>
          match q_confirmed r with
          | Some _ => (st, [XUnexpected])                   (* duplicate: InvalidStateError, counted *)
          | None =>
              let r' := {| q_id := q_id r; q_kind := q_kind r; q_dst := q_dst r; q_tag := q_tag r;
                           q_setup := q_setup r; q_attempt := q_attempt r; q_stage := q_stage r;
                           q_confirmed := Some ok |} in
              match q_stage r with
              | RConfirm => end_req (set_reqs st (rset r' (s_reqs st))) r' (if ok then ResOk else ResDeliveryError)
              | _ => (set_reqs st (rset r' (s_reqs st)), [])   (* remembered until the request waits for it *)
              end
          end
      end
  | STimer id =>
      match rget id (s_reqs st) with
      | Some r =>
          match q_stage r with
          | RBackoff =>
              if q_attempt r <? nretries then want_lock st r
              else end_req st r ResDeliveryError              (* still busy after the last spaced retry *)
          | RConfirm => end_req st r ResTimeout
          | _ => (st, [])
          end
      | None => (st, [])
      end
  | SCancel id =>
      match rget id (s_reqs st) with
      | Some r => end_req st r ResCancelled
      | None => (st, [])
      end
  end.

Fixpoint srun (st : sstate) (es : list sevent) : sstate * list (list sout) :=
  match es with
  | [] => (st, [])
  | e :: es' => let '(st1, o) := sstep st e in
                let '(st2, os) := srun st1 es' in (st2, o :: os)
  end.

(* ---- encoding ---------------------------------------------------------------------------------- *)
Definition kcode (k : pkind) : Z := match k with Unicast => 0 | Multicast => 1 | Broadcast => 2 end%Z.
Definition rescode (r : sres) : Z :=
  match r with ResOk => 0 | ResDeliveryError => 1 | ResTimeout => 2 | ResCancelled => 3 | ResDuplicateTag => 4 end%Z.
Definition enc_sout (o : sout) : list Z :=
  match o with
  | XSetup id => [1%Z; Z.of_N id]
  | XSendCmd id k dst tag => [2%Z; Z.of_N id; kcode k; Z.of_N dst; Z.of_N tag]
  | XDone id r => [3%Z; Z.of_N id; rescode r]
  | XUnexpected => [4%Z]
  end.
Definition dec_kind (n : N) : pkind := if n =? 0 then Unicast else if n =? 1 then Multicast else Broadcast.
Definition dec_enq (n : N) : enq := if n =? 0 then EnqOk else if n =? 1 then EnqBusy else EnqRefused.
Definition dec_sevent (x : N * N * N * N * N) : sevent :=
  let '(k, a, b, c, d) := x in
  if k =? 0 then SSend a (dec_kind b) c d else if k =? 1 then SReply a (dec_enq b)
  else if k =? 2 then SConfirm a b (negb (c =? 0)) else if k =? 3 then STimer a else SCancel a.
Definition run_send_case (es : list (N * N * N * N * N)) : list Z :=
  let '(st, os) := srun s_init (map dec_sevent es) in
  flat_map (fun o => flat_map enc_sout o ++ [(-1)%Z]) os ++ [Z.of_nat (List.length (s_reqs st))].
