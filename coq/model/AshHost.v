(* The host's ASH endpoint as one state machine (C05, and the host half of C01):
   AshProtocol.send_data / _send_data_frame / _handle_ack / frame_received and the timeout
   arithmetic, over the receiver of AshRx.v.  Time is IEEE binary64 (PrimFloat), so that the
   adaptive timeout is modelled bit for bit.

   asyncio is abstracted as in DESIGN.md section 3: a harness event is processed to quiescence
   ("settle").  Frames that arrive in one read are applied back to back (their synchronous
   effects on futures and flags), and only then do the suspended coroutines resume. *)
From Coq Require Import PrimFloat Uint63 ZArith NArith List Bool.
Import ListNotations.
Require Import BV.gen.GenAsh BV.model.AshCodec BV.model.AshRx.
Open Scope N_scope.

(* ---- timeout arithmetic ----------------------------------------------------------------------- *)
(* max(T_RX_ACK_MIN, min(new_value, T_RX_ACK_MAX)) with Python's min/max on floats *)
Definition fmin (a b : float) : float := if PrimFloat.ltb b a then b else a.   (* min(a, b) *)
Definition fmax (a b : float) : float := if PrimFloat.ltb a b then b else a.   (* max(a, b) *)
Definition clamp (v : float) : float := fmax T_RX_ACK_MIN_F (fmin v T_RX_ACK_MAX_F).
Definition f_7_8 : float := 0x1.cp-1%float.     (* 7 / 8 *)
Definition f_half : float := 0x1p-1%float.      (* 0.5 *)
Definition f_two : float := 0x1p+1%float.
Definition on_ack_time (t delta : float) : float :=
  clamp (PrimFloat.add (PrimFloat.mul f_7_8 t) (PrimFloat.mul f_half delta)).
Definition on_timeout (t : float) : float := clamp (PrimFloat.mul f_two t).

(* ---- state ------------------------------------------------------------------------------------ *)
Inductive fut := FPending | FAcked | FNaked | FFailed (code : N).

Record cur_send := {
  cid : N; cpayload : list N; cfrm : N; cattempt : N;
  cfut : fut; csent : float; cdeadline : float
}.

Record hstate := {
  tx_seq : N; rx_seq : N; failed : bool; t_ack : float; now : float;
  waiters : list (N * list N);          (* sends queued on the TX_K = 1 semaphore, FIFO *)
  cur : option cur_send;
  cancelled : list N                    (* callers that gave up (the shielded send goes on) *)
}.

Definition h_init : hstate :=
  {| tx_seq := 0; rx_seq := 0; failed := false; t_ack := T_RX_ACK_INIT_F; now := 0%float;
     waiters := []; cur := None; cancelled := [] |}.

Inductive outcome := OOk | ONotAcked | OFailure (code : N) | OTimeout | OCancelled.

Inductive hout :=
| HData (id : N) (frm retx ack : N) (payload : list N) (at_time : float)   (* id: ghost, not on the wire *)
| HAck (n : N) | HNak (n : N) | HCancelNak (n : N)
| HUp (payload : list N)
| HReset (code : N)
| HDone (id : N) (o : outcome).

Inductive hevent :=
| Submit (id : N) (payload : list N)
| Frames (fs : list frame)             (* well-formed frames processed in one read *)
| Tick                                 (* time passes to the current attempt's deadline *)
| WaitTo (t : float)                   (* time passes to t, short of the deadline *)
| CancelCaller (id : N).

Fixpoint memN (x : N) (l : list N) : bool :=
  match l with [] => false | y :: l' => (x =? y) || memN x l' end.

Definition done_out (st : hstate) (id : N) (o : outcome) : list hout :=
  if memN id (cancelled st) then [] else [HDone id o].

(* one transmission of the current DATA frame *)
Definition transmit (st : hstate) (id : N) (payload : list N) (frm attempt : N) : hstate * list hout :=
  let dl := PrimFloat.add (now st) (t_ack st) in
  ({| tx_seq := tx_seq st; rx_seq := rx_seq st; failed := failed st; t_ack := t_ack st; now := now st;
      waiters := waiters st;
      cur := Some {| cid := id; cpayload := payload; cfrm := frm; cattempt := attempt;
                     cfut := FPending; csent := now st; cdeadline := dl |};
      cancelled := cancelled st |},
   [HData id frm (if attempt =? 0 then 0 else 1) (rx_seq st) payload (now st)]).

Definition with_cur (st : hstate) (c : option cur_send) : hstate :=
  {| tx_seq := tx_seq st; rx_seq := rx_seq st; failed := failed st; t_ack := t_ack st; now := now st;
     waiters := waiters st; cur := c; cancelled := cancelled st |}.

(* the semaphore is free: start queued sends until one transmits (a send that finds the link
   failed raises at once and releases the semaphore again) *)
Fixpoint start_next (fuel : nat) (st : hstate) : hstate * list hout :=
  match fuel with
  | O => (st, [])
  | S fuel' =>
      match waiters st with
      | [] => (st, [])
      | (id, payload) :: ws =>
          let st1 := {| tx_seq := tx_seq st; rx_seq := rx_seq st; failed := failed st; t_ack := t_ack st;
                        now := now st; waiters := ws; cur := None; cancelled := cancelled st |} in
          if failed st1 then
            let '(st2, o) := start_next fuel' st1 in
            (st2, done_out st1 id (OFailure ERROR_EXCEEDED_MAXIMUM_ACK_TIMEOUT_COUNT) ++ o)
          else
            let frm := tx_seq st1 in
            let st2 := {| tx_seq := (frm + 1) mod 8; rx_seq := rx_seq st1; failed := false; t_ack := t_ack st1;
                          now := now st1; waiters := ws; cur := None; cancelled := cancelled st1 |} in
            transmit st2 id payload frm 0
      end
  end.

Definition set_t (st : hstate) (t : float) : hstate :=
  {| tx_seq := tx_seq st; rx_seq := rx_seq st; failed := failed st; t_ack := t; now := now st;
     waiters := waiters st; cur := cur st; cancelled := cancelled st |}.
Definition set_failed (st : hstate) (b : bool) : hstate :=
  {| tx_seq := tx_seq st; rx_seq := rx_seq st; failed := b; t_ack := t_ack st; now := now st;
     waiters := waiters st; cur := cur st; cancelled := cancelled st |}.

(* the attempt ended without an acknowledgement (NAK or timeout): retry or give up *)
Definition retry_or_fail (st : hstate) (c : cur_send) (o : outcome) : hstate * list hout :=
  if ACK_TIMEOUTS - 1 <=? cattempt c then
    (* _enter_failed_state: failed, pending sends cancelled, upper layer told, then re-raise *)
    let st1 := with_cur (set_failed st true) None in
    let '(st2, o2) := start_next (S (length (waiters st1))) st1 in
    (st2, HReset ERROR_EXCEEDED_MAXIMUM_ACK_TIMEOUT_COUNT :: done_out st1 (cid c) o ++ o2)
  else if failed st then
    let st1 := with_cur st None in
    let '(st2, o2) := start_next (S (length (waiters st1))) st1 in
    (st2, done_out st1 (cid c) (OFailure ERROR_EXCEEDED_MAXIMUM_ACK_TIMEOUT_COUNT) ++ o2)
  else transmit st (cid c) (cpayload c) (cfrm c) (cattempt c + 1).

(* resume the coroutine that awaits the acknowledgement future, if that future is resolved *)
Definition settle (st : hstate) : hstate * list hout :=
  match cur st with
  | None => (st, [])
  | Some c =>
      match cfut c with
      | FPending => (st, [])
      | FAcked =>
          let st1 := with_cur (set_t st (on_ack_time (t_ack st) (PrimFloat.sub (now st) (csent c)))) None in
          let '(st2, o2) := start_next (S (length (waiters st1))) st1 in
          (st2, done_out st1 (cid c) OOk ++ o2)
      | FNaked =>
          let st1 := set_t st (on_ack_time (t_ack st) (PrimFloat.sub (now st) (csent c))) in
          retry_or_fail st1 c ONotAcked
      | FFailed code =>
          let st1 := with_cur st None in
          let '(st2, o2) := start_next (S (length (waiters st1))) st1 in
          (st2, done_out st1 (cid c) (OFailure code) ++ o2)
      end
  end.

Definition resolve (st : hstate) (f : fut) : hstate :=
  match cur st with
  | Some c =>
      match cfut c with
      | FPending => with_cur st (Some {| cid := cid c; cpayload := cpayload c; cfrm := cfrm c;
                                         cattempt := cattempt c; cfut := f; csent := csent c;
                                         cdeadline := cdeadline c |})
      | _ => st
      end
  | None => st
  end.

Definition set_rx (st : hstate) (rx : N) : hstate :=
  {| tx_seq := tx_seq st; rx_seq := rx; failed := failed st; t_ack := t_ack st; now := now st;
     waiters := waiters st; cur := cur st; cancelled := cancelled st |}.

(* _handle_ack with TX_K = 1: ackNum - 1 names the acknowledged frame *)
Definition handle_ack (st : hstate) (ack : N) : hstate :=
  match cur st with
  | Some c => if (ack + 7) mod 8 =? cfrm c then resolve st FAcked else st
  | None => st
  end.

Definition out_of_rx (o : out) : list hout :=
  match o with
  | WAck n => [HAck n] | WNak n => [HNak n] | WCancelNak n => [HCancelNak n]
  | Up p => [HUp p] | ResetUp c => [HReset c]
  | _ => []
  end.

(* synchronous effect of one received frame (frame_received) *)
Definition apply_frame (st : hstate) (f : frame) : hstate * list hout :=
  let '(rx', outs) := rx_frame (rx_seq st) f in
  let st1 := set_rx st rx' in
  let st2 :=
    match f with
    | Data _ _ ack _ => handle_ack st ack
    | Ack _ _ ack => handle_ack st ack
    | Nak _ _ ack => resolve (handle_ack st ack) FNaked
    | Rstack _ _ =>
        {| tx_seq := 0; rx_seq := rx_seq st; failed := false; t_ack := clamp T_RX_ACK_INIT_F; now := now st;
           waiters := waiters st; cur := cur st; cancelled := cancelled st |}
    | Rst => set_failed st false
    | Error _ code => resolve (set_failed st true) (FFailed code)
    end in
  (set_rx st2 rx', flat_map out_of_rx outs).

Fixpoint apply_frames (st : hstate) (fs : list frame) : hstate * list hout :=
  match fs with
  | [] => (st, [])
  | f :: fs' => let '(st1, o1) := apply_frame st f in
                let '(st2, o2) := apply_frames st1 fs' in (st2, o1 ++ o2)
  end.

Definition set_now (st : hstate) (t : float) : hstate :=
  {| tx_seq := tx_seq st; rx_seq := rx_seq st; failed := failed st; t_ack := t_ack st; now := t;
     waiters := waiters st; cur := cur st; cancelled := cancelled st |}.

Definition host_step (st : hstate) (e : hevent) : hstate * list hout :=
  match e with
  | Submit id payload =>
      match cur st with
      | Some _ =>
          ({| tx_seq := tx_seq st; rx_seq := rx_seq st; failed := failed st; t_ack := t_ack st; now := now st;
              waiters := waiters st ++ [(id, payload)]; cur := cur st; cancelled := cancelled st |}, [])
      | None =>
          start_next 1
            {| tx_seq := tx_seq st; rx_seq := rx_seq st; failed := failed st; t_ack := t_ack st; now := now st;
               waiters := [(id, payload)]; cur := None; cancelled := cancelled st |}
      end
  | Frames fs =>
      let '(st1, o1) := apply_frames st fs in
      let '(st2, o2) := settle st1 in (st2, o1 ++ o2)
  | Tick =>
      match cur st with
      | Some c =>
          match cfut c with
          | FPending =>
              let st1 := set_t (set_now st (cdeadline c)) (on_timeout (t_ack st)) in
              retry_or_fail st1 c OTimeout
          | _ => (st, [])
          end
      | None => (st, [])
      end
  | WaitTo t =>
      match cur st with
      | Some c => if PrimFloat.ltb t (cdeadline c) && PrimFloat.leb (now st) t then (set_now st t, []) else (st, [])
      | None => if PrimFloat.leb (now st) t then (set_now st t, []) else (st, [])
      end
  | CancelCaller id =>
      if memN id (cancelled st) then (st, [])
      else
        ({| tx_seq := tx_seq st; rx_seq := rx_seq st; failed := failed st; t_ack := t_ack st; now := now st;
            waiters := waiters st; cur := cur st; cancelled := id :: cancelled st |}, [HDone id OCancelled])
  end.

Fixpoint host_run (st : hstate) (es : list hevent) : hstate * list (list hout) :=
  match es with
  | [] => (st, [])
  | e :: es' => let '(st1, o) := host_step st e in
                let '(st2, os) := host_run st1 es' in (st2, o :: os)
  end.

(* ---- encoding for the correspondence ---------------------------------------------------------- *)
Definition fz (x : float) : list Z :=
  let '(m, e) := PrimFloat.frshiftexp x in
  [Uint63.to_Z (PrimFloat.normfr_mantissa m); (Uint63.to_Z e - 2101)%Z].

Definition enc_outcome (o : outcome) : list Z :=
  match o with
  | OOk => [0] | ONotAcked => [1] | OFailure c => [2; Z.of_N c] | OTimeout => [3] | OCancelled => [4]
  end%Z.

(* writes in order, then upward calls in order, then completions sorted by id: the relative order
   of a completion and the next send's first transmission is an asyncio scheduling detail *)
Definition is_write (o : hout) : bool :=
  match o with HData _ _ _ _ _ _ | HAck _ | HNak _ | HCancelNak _ => true | _ => false end.
Definition is_upcall (o : hout) : bool := match o with HUp _ | HReset _ => true | _ => false end.

Definition enc_hout (o : hout) : list Z :=
  match o with
  | HData _ f r a p t => [10; Z.of_N f; Z.of_N r; Z.of_N a; Z.of_nat (length p)] ++ map Z.of_N p ++ fz t
  | HAck n => [1; Z.of_N n]
  | HNak n => [2; Z.of_N n]
  | HCancelNak n => [3; Z.of_N n]
  | HUp p => 4 :: Z.of_nat (length p) :: map Z.of_N p
  | HReset c => [5; Z.of_N c]
  | HDone id o => 11 :: Z.of_N id :: enc_outcome o
  end%Z.

Fixpoint insert_done (x : N * outcome) (l : list (N * outcome)) : list (N * outcome) :=
  match l with
  | [] => [x]
  | y :: l' => if fst x <=? fst y then x :: y :: l' else y :: insert_done x l'
  end.
Definition dones (l : list hout) : list (N * outcome) :=
  fold_right (fun o acc => match o with HDone id oc => insert_done (id, oc) acc | _ => acc end) [] l.

Definition enc_step (l : list hout) : list Z :=
  flat_map enc_hout (filter is_write l) ++ [(-1)%Z] ++ flat_map enc_hout (filter is_upcall l) ++ [(-2)%Z]
  ++ flat_map (fun x => 11%Z :: Z.of_N (fst x) :: enc_outcome (snd x)) (dones l) ++ [(-3)%Z].

Definition enc_final (st : hstate) : list Z :=
  [Z.of_N (tx_seq st); Z.of_N (rx_seq st); (if failed st then 1 else 0)%Z] ++ fz (t_ack st) ++ fz (now st).

Definition run_host_case (es : list hevent) : list Z :=
  let '(st, os) := host_run h_init es in flat_map enc_step os ++ enc_final st.
