(* C17 model: operations completed by an NCP event (bellows/ezsp/__init__.py: wait_for_stack_status,
   stack_status_callback, formNetwork, leaveNetwork, _list_command; zigbee/application.py:
   _ensure_network_running).  One operation at a time (the property speaks of repeated, not
   concurrent, operations).  Callback frames that arrive in one read are handled back to back
   ([ECallbacks l]); the operation's coroutine resumes only afterwards. *)
From Coq Require Import ZArith NArith List Bool.
Import ListNotations.
Open Scope N_scope.

Inductive opkind := OForm | OLeave | OBringup | OScan.

Inductive cbframe :=
| CStatus (s : N)          (* stackStatusHandler with unified status s *)
| CItem (r : Z)            (* a scan result callback *)
| CComplete (ok : bool).   (* the scan completion callback, with its status *)

Inductive evt :=
| EStart (k : opkind)
| EReply (ok : bool) (not_joined : bool)   (* the command's own response; not_joined only matters for bring-up *)
| ECallbacks (l : list cbframe)
| ETimeout                                  (* the operation timeout expires while waiting for the event *)
| ECancel.

Inductive outcome := DoneOk (results : list Z) | DoneRefused | DoneNotFormed | DoneTimeout | DoneCancelled | DoneScanFailed.
Inductive eout := OCommand (k : opkind) | ODone (k : opkind) (o : outcome).

Inductive stage := StCommand | StEvent.

Record estate := {
  listeners : list (N * bool);        (* registered stack-status listeners: (status waited for, still pending) *)
  scan_cbs : N;                       (* extra callbacks registered by scans *)
  active : option (opkind * stage);
  event_seen : bool;                  (* the operation's future is resolved *)
  completion_ok : bool;               (* scan: status carried by the completion callback *)
  items : list Z                      (* scan: results collected so far *)
}.

Definition e_init : estate :=
  {| listeners := []; scan_cbs := 0; active := None; event_seen := false; completion_ok := false; items := [] |}.

Definition NETWORK_UP : N := 0x15.      (* sl_Status.NETWORK_UP *)
Definition NETWORK_DOWN : N := 0x16.    (* sl_Status.NETWORK_DOWN *)  (* pinned against the generated enum in props/C17.v *)

Definition wanted (k : opkind) : N := match k with OLeave => NETWORK_DOWN | _ => NETWORK_UP end.

(* the operation ends: its listener / callback is removed (finally blocks) *)
Definition finish (st : estate) (k : opkind) (o : outcome) : estate * list eout :=
  ({| listeners := []; scan_cbs := 0; active := None; event_seen := false; completion_ok := false; items := [] |},
   [ODone k o]).

(* stack_status_callback: set_result on the listeners of this status, in order; the first listener that
   is no longer pending raises InvalidStateError, which handle_callback swallows: the rest is skipped *)
Fixpoint notify (s : N) (ls : list (N * bool)) : list (N * bool) * bool :=
  match ls with
  | [] => ([], false)
  | (s', pend) :: ls' =>
      if s' =? s then
        if pend then let '(r, hit) := notify s ls' in ((s', false) :: r, true)
        else ((s', pend) :: ls', false)        (* exception: stop *)
      else let '(r, hit) := notify s ls' in ((s', pend) :: r, hit)
  end.

Definition handle_cb (st : estate) (c : cbframe) : estate :=
  match c with
  | CStatus s =>
      let '(ls, hit) := notify s (listeners st) in
      {| listeners := ls; scan_cbs := scan_cbs st; active := active st;
         event_seen := event_seen st || hit; completion_ok := completion_ok st; items := items st |}
  | CItem r =>
      if 0 <? scan_cbs st then
        {| listeners := listeners st; scan_cbs := scan_cbs st; active := active st; event_seen := event_seen st;
           completion_ok := completion_ok st; items := items st ++ [r] |}
      else st
  | CComplete ok =>
      if (0 <? scan_cbs st) && negb (event_seen st) then
        {| listeners := listeners st; scan_cbs := scan_cbs st; active := active st; event_seen := true;
           completion_ok := ok; items := items st |}
      else st                                   (* no scan, or future already set: InvalidStateError swallowed *)
  end.

(* the coroutine resumes when what it awaits is available *)
Definition settle (st : estate) : estate * list eout :=
  match active st with
  | Some (k, StEvent) =>
      if event_seen st then
        match k with
        | OScan => if completion_ok st then finish st k (DoneOk (items st)) else finish st k DoneScanFailed
        | _ => finish st k (DoneOk [])
        end
      else (st, [])
  | _ => (st, [])
  end.

Definition estep (st : estate) (e : evt) : estate * list eout :=
  match e with
  | EStart k =>
      match active st with
      | Some _ => (st, [])
      | None =>
          (* the listener / callback is registered BEFORE the command is sent *)
          ({| listeners := match k with OScan => listeners st | _ => listeners st ++ [(wanted k, true)] end;
              scan_cbs := match k with OScan => scan_cbs st + 1 | _ => scan_cbs st end;
              active := Some (k, StCommand); event_seen := false; completion_ok := false; items := [] |},
           [OCommand k])
      end
  | EReply ok not_joined =>
      match active st with
      | Some (k, StCommand) =>
          if ok then
            settle {| listeners := listeners st; scan_cbs := scan_cbs st; active := Some (k, StEvent);
                      event_seen := event_seen st; completion_ok := completion_ok st; items := items st |}
          else finish st k (match k with OBringup => if not_joined then DoneNotFormed else DoneRefused | _ => DoneRefused end)
      | _ => (st, [])
      end
  | ECallbacks l =>
      (* after the batch the resolved futures' done-callbacks (maybe_remove) drop them from the lists *)
      let st1 := fold_left handle_cb l st in
      settle {| listeners := filter (fun x => snd x) (listeners st1); scan_cbs := scan_cbs st1; active := active st1;
                event_seen := event_seen st1; completion_ok := completion_ok st1; items := items st1 |}
  | ETimeout =>
      match active st with
      | Some (OScan, _) => (st, [])                  (* a scan has no timeout of its own *)
      | Some (k, StEvent) => if event_seen st then (st, []) else finish st k DoneTimeout
      | _ => (st, [])
      end
  | ECancel =>
      match active st with
      | Some (k, _) => finish st k DoneCancelled
      | None => (st, [])
      end
  end.

Fixpoint erun (st : estate) (es : list evt) : estate * list (list eout) :=
  match es with
  | [] => (st, [])
  | e :: es' => let '(st1, o) := estep st e in
                let '(st2, os) := erun st1 es' in (st2, o :: os)
  end.

(* ---- encoding ---------------------------------------------------------------------------------- *)
Definition kind_code (k : opkind) : Z := match k with OForm => 0 | OLeave => 1 | OBringup => 2 | OScan => 3 end%Z.
Definition enc_outcome (o : outcome) : list Z :=
  match o with
  | DoneOk r => 0%Z :: Z.of_nat (List.length r) :: r
  | DoneRefused => [1%Z] | DoneNotFormed => [2%Z] | DoneTimeout => [3%Z] | DoneCancelled => [4%Z] | DoneScanFailed => [5%Z]
  end.
Definition enc_eout (o : eout) : list Z :=
  match o with OCommand k => [10%Z; kind_code k] | ODone k r => 11%Z :: kind_code k :: enc_outcome r end.

Definition dec_kind (n : N) : opkind := if n =? 0 then OForm else if n =? 1 then OLeave else if n =? 2 then OBringup else OScan.
Definition dec_cb (x : N * Z) : cbframe :=
  let '(k, v) := x in if k =? 0 then CStatus (Z.to_N v) else if k =? 1 then CItem v else CComplete (negb (v =? 0)%Z).
Definition dec_evt (x : N * N * list (N * Z)) : evt :=
  let '(k, a, l) := x in
  if k =? 0 then EStart (dec_kind a) else if k =? 1 then EReply (a =? 1) (a =? 2)
  else if k =? 2 then ECallbacks (map dec_cb l) else if k =? 3 then ETimeout else ECancel.

Definition run_events_case (es : list (N * N * list (N * Z))) : list Z :=
  let '(st, os) := erun e_init (map dec_evt es) in
  flat_map (fun o => flat_map enc_eout o ++ [(-1)%Z]) os
  ++ [Z.of_nat (List.length (listeners st)); Z.of_N (scan_cbs st)].
