(* C09 model: EZSP.startup_reset / reset / version / _switch_protocol_version and the table lookup
   at the start of write_config (bellows/ezsp/__init__.py), over the header codec of EzspCodec.v.
   The NCP is characterised by the protocol version it reports; it answers the version query in the
   layout of the request (legacy first), as EmberZNet NCPs do. *)
From Coq Require Import ZArith NArith List Bool.
Import ListNotations.
Require Import BV.lib.EzspTypes BV.gen.GenConfig BV.gen.GenCmd BV.model.EzspCodec BV.model.EzspCases BV.model.Config.
Open Scope N_scope.

Record bstate := {
  b_version : N;        (* EZSP._ezsp_version *)
  b_handler : N;        (* VERSION of the protocol handler object in use *)
  b_running : bool;
  b_seq : N             (* the handler's next sequence number (a new handler starts at 0) *)
}.

Definition b_init : bstate := {| b_version := 4; b_handler := 4; b_running := false; b_seq := 0 |}.

Fixpoint memN (x : N) (l : list N) : bool :=
  match l with [] => false | y :: l' => (x =? y) || memN x l' end.

(* _switch_protocol_version *)
Definition switch (st : bstate) (v : N) : bstate :=
  {| b_version := v; b_handler := if memN v SUPPORTED_VERSIONS then v else EZSP_LATEST;
     b_running := b_running st; b_seq := 0 |}.

(* EZSP.reset(): stop, gateway reset (assumed completed), back to v4, start *)
Definition do_reset (st : bstate) : bstate :=
  {| b_version := 4; b_handler := 4; b_running := true; b_seq := 0 |}.

(* the frame a version query puts on the wire: header of the handler's layout + desired version *)
Definition version_frame (st : bstate) (desired : N) : option (list N) :=
  match header_tx (kind_of (b_handler st)) (b_seq st) 0 with
  | Some h => Some (h ++ [desired mod 256])
  | None => None
  end.

Definition bump (st : bstate) : bstate :=
  {| b_version := b_version st; b_handler := b_handler st; b_running := b_running st;
     b_seq := (b_seq st + 1) mod 256 |}.

(* EZSP.version() against an NCP that reports ncp_v: the frames sent, the final state *)
Definition do_version (st : bstate) (ncp_v : N) : bstate * list (option (list N)) :=
  let f1 := version_frame st (b_version st) in
  let st1 := bump st in
  if ncp_v =? b_version st then (st1, [f1])
  else
    let st2 := switch st1 ncp_v in
    (bump st2, [f1; version_frame st2 ncp_v]).

(* startup_reset on a serial path (or a socket path on which no spontaneous reset was seen) *)
Definition bring_up (ncp_v : N) : bstate * list (option (list N)) := do_version (do_reset b_init) ncp_v.

(* write_config starts by looking up DEFAULT_CONFIG for the adopted protocol handler *)
Definition config_table_defined (st : bstate) : bool := memN (b_handler st) DEFAULT_CONFIG_VERSIONS.

(* the header every later command carries *)
Definition later_header (st : bstate) (fid : N) : option (list N) :=
  header_tx (kind_of (b_handler st)) (b_seq st) fid.

(* ---- encoding ---------------------------------------------------------------------------------- *)
Definition enc_of (o : option (list N)) : list Z :=
  match o with None => [(-1)%Z] | Some l => Z.of_nat (List.length l) :: map Z.of_N l end.

Definition run_bringup_case (c : N * N) : list Z :=
  let '(ncp_v, second_reset) := c in
  let '(st, frames) := bring_up ncp_v in
  let '(st', frames') := if second_reset =? 1 then do_version (do_reset st) ncp_v else (st, []) in
  flat_map enc_of frames ++ [(-2)%Z] ++ flat_map enc_of frames'
  ++ [(-3)%Z; Z.of_N (b_version st'); Z.of_N (b_handler st'); (if config_table_defined st' then 1 else 0)%Z]
  ++ enc_of (later_header st' 0x52).
