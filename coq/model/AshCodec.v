(* ASH frame codec (C03): a transliteration of bellows/ash.py's frame classes, parse_frame,
   _stuff_bytes/_unstuff_bytes and _write_frame, plus specification-side definitions written
   independently (bitwise CRC-CCITT, the LFSR of the randomisation sequence). *)
From Coq Require Import ZArith NArith List Bool.
Import ListNotations.
Require Import BV.gen.GenAsh.
Open Scope N_scope.

(* ---- reserved bytes (spec constants; gen/GenAsh.v must agree, see props/C03.v) --------------- *)
Definition FLAG : N := 0x7E.
Definition ESC : N := 0x7D.
Definition XON : N := 0x11.
Definition XOFF : N := 0x13.
Definition SUB : N := 0x18.
Definition CANCEL : N := 0x1A.

Definition reserved_no_esc (b : N) : bool :=
  (b =? FLAG) || (b =? XON) || (b =? XOFF) || (b =? SUB) || (b =? CANCEL).
Definition reserved (b : N) : bool := (b =? ESC) || reserved_no_esc b.

(* ---- CRC-CCITT, bit by bit, MSB first, polynomial 0x1021, seed 0xFFFF (specification) ------ *)
Definition crc_step1 (s : N) (b : bool) : N :=
  let s' := N.land (N.shiftl s 1) 0xFFFF in
  if xorb (N.testbit s 15) b then N.lxor s' 0x1021 else s'.

Definition byte_bits (byte : N) : list bool :=
  [N.testbit byte 7; N.testbit byte 6; N.testbit byte 5; N.testbit byte 4;
   N.testbit byte 3; N.testbit byte 2; N.testbit byte 1; N.testbit byte 0].

Definition crc_byte (s : N) (byte : N) : N := fold_left crc_step1 (byte_bits byte) s.
Definition crc_from (s : N) (data : list N) : N := fold_left crc_byte data s.
Definition CRC_SEED : N := 0xFFFF.
Definition crc16 (data : list N) : N := crc_from CRC_SEED data.
Definition crc_hi (c : N) : N := N.shiftr c 8.
Definition crc_lo (c : N) : N := N.land c 0xFF.
Definition append_crc (data : list N) : list N := data ++ [crc_hi (crc16 data); crc_lo (crc16 data)].

(* ---- randomisation sequence: LFSR seed 0x42, tap 0xB8 (specification) --------------------- *)
Fixpoint lfsr (n : nat) (r : N) : list N :=
  match n with
  | O => []
  | S n' => r :: lfsr n' (if N.testbit r 0 then N.lxor (N.shiftr r 1) 0xB8 else N.shiftr r 1)
  end.
Definition spec_random_sequence : list N := lfsr 256 0x42.

Fixpoint xor_zip (a b : list N) : list N :=
  match a, b with
  | x :: a', y :: b' => N.lxor x y :: xor_zip a' b'
  | _, _ => []
  end.

(* DataFrame._randomize: asserts len(data) <= len(sequence); uses the module's sequence *)
Definition randomize (data : list N) : option (list N) :=
  if (length data <=? length PSEUDO_RANDOM_DATA_SEQUENCE)%nat
  then Some (xor_zip data PSEUDO_RANDOM_DATA_SEQUENCE) else None.

(* ---- frames ---------------------------------------------------------------------------------- *)
Inductive frame :=
| Data (frm : N) (retx : N) (ack : N) (payload : list N)
| Ack (res : N) (nrdy : N) (ack : N)
| Nak (res : N) (nrdy : N) (ack : N)
| Rst
| Rstack (version : N) (code : N)
| Error (version : N) (code : N).

Definition wf_frame (f : frame) : bool :=
  match f with
  | Data frm re ack p => (frm <? 8) && (re <? 2) && (ack <? 8)
                         && (length p <=? 256)%nat && forallb (fun b => b <? 256) p
  | Ack res nrdy ack | Nak res nrdy ack => (res <? 2) && (nrdy <? 2) && (ack <? 8)
  | Rst => true
  | Rstack v c | Error v c => (v =? 2) && (c <? 256)
  end.

(* to_bytes (before stuffing) *)
Definition encode (f : frame) : list N :=
  match f with
  | Data frm re ack p =>
      let ctrl := N.lor (N.lor (N.lor 0x00 (N.shiftl frm 4)) (N.shiftl re 3)) ack in
      append_crc (ctrl :: match randomize p with Some r => r | None => [] end)
  | Ack res nrdy ack =>
      append_crc [N.lor (N.lor (N.lor 0x80 (N.shiftl res 4)) (N.shiftl nrdy 3)) ack]
  | Nak res nrdy ack =>
      append_crc [N.lor (N.lor (N.lor 0xA0 (N.shiftl res 4)) (N.shiftl nrdy 3)) ack]
  | Rst => append_crc [0xC0]
  | Rstack v c => append_crc [0xC1; v; c]
  | Error v c => append_crc [0xC2; v; c]
  end.

(* AshFrame._unwrap: length >= 3 and CRC (big endian) over everything but the last two bytes *)
Definition unwrap (d : list N) : option (N * list N) :=
  let n := length d in
  if (n <? 3)%nat then None
  else
    let body := firstn (n - 2) d in
    let tail := skipn (n - 2) d in
    match body, tail with
    | c :: rest, [hi; lo] =>
        if (hi =? crc_hi (crc16 body)) && (lo =? crc_lo (crc16 body)) then Some (c, rest) else None
    | _, _ => None
    end.

(* parse_frame: classify on the control byte in the code's order, then from_bytes *)
Definition parse (d : list N) : option frame :=
  match d with
  | [] => None                                     (* data[0] -> IndexError *)
  | c :: _ =>
      if N.land c 0x80 =? 0x00 then
        match unwrap d with
        | Some (c, rest) =>
            match randomize rest with               (* AssertionError when too long *)
            | Some p => Some (Data (N.shiftr (N.land c 0x70) 4) (N.shiftr (N.land c 0x08) 3) (N.land c 0x07) p)
            | None => None
            end
        | None => None
        end
      else if N.land c 0xE0 =? 0x80 then
        match unwrap d with
        | Some (c, _) => Some (Ack (N.shiftr (N.land c 0x10) 4) (N.shiftr (N.land c 0x08) 3) (N.land c 0x07))
        | None => None
        end
      else if N.land c 0xE0 =? 0xA0 then
        match unwrap d with
        | Some (c, _) => Some (Nak (N.shiftr (N.land c 0x10) 4) (N.shiftr (N.land c 0x08) 3) (N.land c 0x07))
        | None => None
        end
      else if N.land c 0xFF =? 0xC0 then
        match unwrap d with
        | Some (_, []) => Some Rst
        | _ => None
        end
      else if N.land c 0xFF =? 0xC1 then
        match unwrap d with
        | Some (_, [v; code]) => if v =? 2 then Some (Rstack v code) else None
        | _ => None
        end
      else if N.land c 0xFF =? 0xC2 then
        match unwrap d with
        | Some (_, [v; code]) => if v =? 2 then Some (Error v code) else None
        | _ => None
        end
      else None
  end.

(* ---- byte stuffing --------------------------------------------------------------------------- *)
Fixpoint stuff (d : list N) : list N :=
  match d with
  | [] => []
  | c :: d' => if reserved c then ESC :: N.lxor c 0x20 :: stuff d' else c :: stuff d'
  end.

(* _unstuff_bytes; None = ParsingError (invalid escaped byte, or an escape with nothing after it) *)
Fixpoint unstuff_aux (escaped : bool) (d : list N) : option (list N) :=
  match d with
  | [] => if escaped then None else Some []
  | c :: d' =>
      if escaped then
        let b := N.lxor c 0x20 in
        if reserved b then option_map (cons b) (unstuff_aux false d') else None
      else if c =? ESC then unstuff_aux true d'
      else option_map (cons c) (unstuff_aux false d')
  end.
Definition unstuff (d : list N) : option (list N) := unstuff_aux false d.

(* _write_frame *)
Definition write_frame (prefix : list N) (f : frame) : list N := prefix ++ stuff (encode f) ++ [FLAG].

(* ---- encoding of frames as Z lists for the correspondence ---------------------------------- *)
Definition enc_frame (f : frame) : list Z :=
  match f with
  | Data a b c p => [0; Z.of_N a; Z.of_N b; Z.of_N c; Z.of_nat (length p)]%Z ++ map Z.of_N p
  | Ack a b c => [1; Z.of_N a; Z.of_N b; Z.of_N c]%Z
  | Nak a b c => [2; Z.of_N a; Z.of_N b; Z.of_N c]%Z
  | Rst => [3%Z]
  | Rstack v c => [4; Z.of_N v; Z.of_N c]%Z
  | Error v c => [5; Z.of_N v; Z.of_N c]%Z
  end.
Definition enc_oframe (f : option frame) : list Z :=
  match f with None => [(-1)%Z] | Some f => enc_frame f end.
Definition enc_obytes (b : option (list N)) : list Z :=
  match b with None => [(-1)%Z] | Some l => Z.of_nat (length l) :: map Z.of_N l end.

(* ---- case decoding for the correspondence harness -------------------------------------------- *)
Definition mk_frame (fields : list N) (p : list N) : frame :=
  match fields with
  | [0; a; b; c] => Data a b c p
  | [1; a; b; c] => Ack a b c
  | [2; a; b; c] => Nak a b c
  | [4; v; c] => Rstack v c
  | [5; v; c] => Error v c
  | _ => Rst
  end.

Definition run_codec_case (c : N * list N * list N) : list Z :=
  let '(kind, fields, bytes) := c in
  if kind =? 0 then map Z.of_N (encode (mk_frame fields bytes))
  else if kind =? 1 then enc_oframe (parse bytes)
  else if kind =? 2 then map Z.of_N (stuff bytes)
  else if kind =? 3 then enc_obytes (unstuff bytes)
  else if kind =? 4 then
    map Z.of_N (write_frame (if hd 0 fields =? 1 then [CANCEL] else []) (mk_frame (tl fields) bytes))
  else [Z.of_N (crc16 bytes)].
