(* ASH receive path (C02, C04): AshProtocol.data_received / frame_received / data_frame_received
   and a specification-derived per-byte reference decoder. *)
From Coq Require Import ZArith NArith List Bool.
Import ListNotations.
Require Import BV.gen.GenAsh BV.model.AshCodec.
Open Scope N_scope.

(* what the receive path does that the properties observe *)
Inductive out :=
| WAck (n : N)            (* ACK frame written, ackNum = n *)
| WNak (n : N)            (* NAK frame written *)
| WCancelNak (n : N)      (* CANCEL byte + NAK frame written (unparsable frame) *)
| Up (payload : list N)   (* ezsp.data_received(payload) *)
| ResetUp (code : N)      (* ezsp.reset_received(code) *)
| AckInfo (n : N)         (* ackNum handed to the sender half (_handle_ack) *)
| NakInfo                 (* nak_frame_received: pending sends are NAKed *)
| ErrInfo (code : N)      (* error_frame_received: failed state entered *)
| RstInfo                 (* rst_frame_received / rstack: state cleared *).

(* frame_received restricted to what the receiver half does; rx = _rx_seq *)
Definition rx_frame (rx : N) (f : frame) : N * list out :=
  match f with
  | Data frm re ack p =>
      if frm =? rx then
        let rx' := (frm + 1) mod 8 in
        (rx', [AckInfo ack; WAck rx'; Up p])
      else if negb (re =? 0) then (rx, [AckInfo ack; WAck rx])
      else (rx, [AckInfo ack; WNak rx])
  | Ack _ _ ack => (rx, [AckInfo ack])
  | Nak _ _ ack => (rx, [AckInfo ack; NakInfo])
  | Rstack _ code => (0, [RstInfo; ResetUp code])
  | Rst => (rx, [RstInfo])
  | Error _ code => (rx, [ErrInfo code; ResetUp code])
  end.

Fixpoint rx_frames (rx : N) (fs : list frame) : N * list out :=
  match fs with
  | [] => (rx, [])
  | f :: fs' => let '(rx', o) := rx_frame rx f in
                let '(rx'', o') := rx_frames rx' fs' in (rx'', o ++ o')
  end.

(* ---- data_received, as written ------------------------------------------------------------- *)
Record rxstate := { buf : list N; discarding : bool; rxseq : N }.
Definition rx_init : rxstate := {| buf := []; discarding := false; rxseq := 0 |}.

(* index of the first byte satisfying p: (prefix, byte, suffix) *)
Fixpoint split_first (p : N -> bool) (l : list N) : option (list N * N * list N) :=
  match l with
  | [] => None
  | b :: l' =>
      if p b then Some ([], b, l')
      else match split_first p l' with
           | Some (pre, x, suf) => Some (b :: pre, x, suf)
           | None => None
           end
  end.

Definition lastn {A} (n : nat) (l : list A) : list A := skipn (length l - n) l.

(* one complete frame's bytes (between flags, non-empty) *)
Definition handle_frame_bytes (rx : N) (fb : list N) : N * list out :=
  match unstuff fb with
  | None => (rx, [WCancelNak rx])
  | Some d =>
      match parse d with
      | None => (rx, [WCancelNak rx])
      | Some f => rx_frame rx f
      end
  end.

(* the while loop; every iteration that does not break consumes at least one byte *)
Fixpoint rx_loop (fuel : nat) (b : list N) (disc : bool) (rx : N) (acc : list out)
  : list N * bool * N * list out :=
  match fuel with
  | O => (b, disc, rx, acc)
  | S fuel' =>
      match b with
      | [] => (b, disc, rx, acc)
      | _ =>
          (* discarding: drop up to and including the next FLAG, or everything *)
          let after_discard :=
            if disc then
              match split_first (fun x => x =? FLAG) b with
              | None => None
              | Some (_, _, suf) => Some suf
              end
            else Some b in
          match after_discard with
          | None => ([], true, rx, acc)                       (* buffer.clear(); break *)
          | Some b1 =>
              match split_first reserved_no_esc b1 with
              | None => (b1, false, rx, acc)                  (* no terminator yet: break *)
              | Some (pre, r, suf) =>
                  if r =? FLAG then
                    match pre with
                    | [] => rx_loop fuel' suf false rx acc
                    | _ => let '(rx', o) := handle_frame_bytes rx pre in
                           rx_loop fuel' suf false rx' (acc ++ o)
                    end
                  else if r =? CANCEL then rx_loop fuel' suf false rx acc
                  else if r =? SUB then rx_loop fuel' suf true rx acc
                  else rx_loop fuel' (pre ++ suf) false rx acc  (* XON / XOFF popped *)
              end
          end
      end
  end.

Definition cap (b : list N) : list N :=
  if (N.to_nat MAX_BUFFER_SIZE <? length b)%nat then lastn (N.to_nat MAX_BUFFER_SIZE) b else b.

Definition data_received (st : rxstate) (chunk : list N) : rxstate * list out :=
  let b := buf st ++ chunk in
  let '(b', d', rx', o) := rx_loop (S (length b)) b (discarding st) (rxseq st) [] in
  ({| buf := cap b'; discarding := d'; rxseq := rx' |}, o).

Fixpoint feed (st : rxstate) (chunks : list (list N)) : rxstate * list out :=
  match chunks with
  | [] => (st, [])
  | c :: cs => let '(st', o) := data_received st c in
               let '(st'', o') := feed st' cs in (st'', o ++ o')
  end.

(* ---- reference decoder: one byte at a time (UG101 section 4) -------------------------------- *)
Record refstate := { racc : list N; rdisc : bool; rrx : N }.
Definition ref_init : refstate := {| racc := []; rdisc := false; rrx := 0 |}.

Definition ref_step (st : refstate) (b : N) : refstate * list out :=
  if b =? FLAG then
    if rdisc st then ({| racc := []; rdisc := false; rrx := rrx st |}, [])
    else match racc st with
         | [] => (st, [])
         | fb => let '(rx', o) := handle_frame_bytes (rrx st) fb in
                 ({| racc := []; rdisc := false; rrx := rx' |}, o)
         end
  else if rdisc st then (st, [])                        (* everything up to the next flag is ignored *)
  else if b =? CANCEL then ({| racc := []; rdisc := false; rrx := rrx st |}, [])
  else if b =? SUB then ({| racc := []; rdisc := true; rrx := rrx st |}, [])
  else if (b =? XON) || (b =? XOFF) then (st, [])
  else ({| racc := racc st ++ [b]; rdisc := false; rrx := rrx st |}, []).

Fixpoint ref_run (st : refstate) (bs : list N) : refstate * list out :=
  match bs with
  | [] => (st, [])
  | b :: bs' => let '(st', o) := ref_step st b in
                let '(st'', o') := ref_run st' bs' in (st'', o ++ o')
  end.

(* ---- encodings -------------------------------------------------------------------------------- *)
Definition enc_out (o : out) : list Z :=
  match o with
  | WAck n => [1; Z.of_N n]
  | WNak n => [2; Z.of_N n]
  | WCancelNak n => [3; Z.of_N n]
  | Up p => 4 :: Z.of_nat (length p) :: map Z.of_N p
  | ResetUp c => [5; Z.of_N c]
  | AckInfo n => [6; Z.of_N n]
  | NakInfo => [7]
  | ErrInfo c => [8; Z.of_N c]
  | RstInfo => [9]
  end%Z.

(* only what C02/C04 observe: writes and upward calls *)
Definition observable (o : out) : bool :=
  match o with WAck _ | WNak _ | WCancelNak _ | Up _ | ResetUp _ => true | _ => false end.
Definition enc_outs (l : list out) : list Z := flat_map enc_out (filter observable l).

(* ---- case decoding for the correspondence harness -------------------------------------------- *)
Definition run_c04_case (c : N * list (list N * list N)) : list Z :=
  enc_outs (snd (rx_frames (fst c) (map (fun x => mk_frame (fst x) (snd x)) (snd c)))).

Definition run_c02_case (chunks : list (list N)) : list Z :=
  let '(st, o) := feed rx_init chunks in
  enc_outs o ++ [(-7)%Z; Z.of_nat (length (buf st)); (if discarding st then 1 else 0)%Z; Z.of_N (rxseq st)].

(* the reference decoder on the whole stream, for the thorough-tier cross check *)
Definition run_ref_case (stream : list N) : list Z :=
  let '(st, o) := ref_run ref_init stream in enc_outs o.
