(* Gateway (bellows/uart.py) and the failure handling of the EZSP facade (bellows/ezsp/__init__.py):
   reset handshake, start-up reset wait, reset-code triage, connection loss / EOF, deliberate close,
   enter_failed_state.  (C10, C11; used by C09.)

   The ASH layer below is abstracted to the calls it makes upward (reset_received(code) for RSTACK,
   ERROR and retry exhaustion; connection_lost; eof_received) and the calls made into it
   (send_reset, close).  Upward calls are synchronous handlers and may arrive back to back in one
   loop iteration ([GBatch]); coroutines resume only afterwards ("settle").  The model is of the
   repaired code (guards on finished futures in Gateway.connection_lost). *)
From Coq Require Import ZArith NArith List Bool.
Import ListNotations.
Require Import BV.gen.GenAsh.
Open Scope N_scope.

Inductive fstate := FNone | FPend | FOk | FExn | FCancelled.

Record gstate := {
  (* Gateway *)
  r_attr : bool;           (* self._reset_future is not None *)
  r_fut : fstate;          (* state of the reset future object the waiter holds *)
  r_waiting : bool;        (* a reset() caller is suspended on it (with the reset timeout armed) *)
  r_joined : N;            (* further reset() callers that joined the same future (no own timeout) *)
  s_attr : bool;           (* self._startup_reset_future is not None *)
  s_fut : fstate;
  s_waiting : bool;
  t_open : bool;           (* the ASH transport has not been closed *)
  (* EZSP facade *)
  e_running : bool;        (* _ezsp_event set *)
  e_has_gw : bool;         (* self._gw is not None *)
  e_app_cb : bool          (* an application callback is registered (len(_callbacks) > 1) *)
}.

Definition g_init : gstate :=
  {| r_attr := false; r_fut := FNone; r_waiting := false; r_joined := 0;
     s_attr := false; s_fut := FNone; s_waiting := false; t_open := true;
     e_running := false; e_has_gw := true; e_app_cb := false |}.

Inductive up :=
| UReset (code : N)        (* AshProtocol -> Gateway.reset_received(code) *)
| ULost (has_exc : bool)   (* connection_lost(exc) ; exc is None after a deliberate close *)
| UEof.                    (* eof_received *)

Inductive gevent :=
| GReq                     (* a task calls Gateway.reset() *)
| GStartup                 (* a task calls Gateway.wait_for_startup_reset() *)
| GBatch (l : list up)     (* upward calls, back to back; then the loop settles *)
| GTimer                   (* the reset timeout expires *)
| GCommand                 (* EZSP._command(...) is attempted *)
| GClose                   (* EZSP.close() *)
| GAddCallback             (* the application registers its callback *)
| GStartEzsp.              (* start_ezsp() *)

Inductive rres := ROk | RExn | RTimeout | RClosed.

Inductive gout :=
| GWriteRst                          (* send_reset(): CANCEL + RST frame written *)
| GResetDone (r : rres)              (* a reset() call returns / raises *)
| GStartupDone (ok : bool)           (* wait_for_startup_reset() returns / raises *)
| GAppFailed                         (* application.enter_failed_state / connection_lost reached EZSP *)
| GResetRequest                      (* '_reset_controller_application' callback invoked *)
| GTransportClose                    (* ASH close(): transport closed *)
| GCmdRaise                          (* command refused at once: EZSP is not running *)
| GCmdProceeds.                      (* command handed to the protocol handler *)

Definition upd_r (st : gstate) (a : bool) (f : fstate) (w : bool) (j : N) : gstate :=
  {| r_attr := a; r_fut := f; r_waiting := w; r_joined := j;
     s_attr := s_attr st; s_fut := s_fut st; s_waiting := s_waiting st; t_open := t_open st;
     e_running := e_running st; e_has_gw := e_has_gw st; e_app_cb := e_app_cb st |}.
Definition upd_s (st : gstate) (a : bool) (f : fstate) (w : bool) : gstate :=
  {| r_attr := r_attr st; r_fut := r_fut st; r_waiting := r_waiting st; r_joined := r_joined st;
     s_attr := a; s_fut := f; s_waiting := w; t_open := t_open st;
     e_running := e_running st; e_has_gw := e_has_gw st; e_app_cb := e_app_cb st |}.
Definition upd_e (st : gstate) (open running has_gw cb : bool) : gstate :=
  {| r_attr := r_attr st; r_fut := r_fut st; r_waiting := r_waiting st; r_joined := r_joined st;
     s_attr := s_attr st; s_fut := s_fut st; s_waiting := s_waiting st; t_open := open;
     e_running := running; e_has_gw := has_gw; e_app_cb := cb |}.

(* EZSP.close(): stop, close the gateway (which closes the ASH transport), forget it *)
Definition ezsp_close (st : gstate) : gstate * list gout :=
  if e_has_gw st then (upd_e st false false false (e_app_cb st), [GTransportClose])
  else (upd_e st (t_open st) false false (e_app_cb st), []).

(* EZSP.enter_failed_state (also reached through EZSP.connection_lost) *)
Definition enter_failed (st : gstate) : gstate * list gout :=
  if e_app_cb st then
    let '(st1, o) := ezsp_close st in (st1, GAppFailed :: o ++ [GResetRequest])
  else (st, [GAppFailed]).

Definition is_pend (f : fstate) : bool := match f with FPend => true | _ => false end.

(* Gateway.connection_lost(exc) *)
Definition conn_lost (st : gstate) (has_exc : bool) : gstate * list gout :=
  let st1 := if s_attr st && is_pend (s_fut st) then upd_s st true FExn (s_waiting st) else st in
  let st2 := if r_attr st1
             then upd_r st1 false (if is_pend (r_fut st1) then FExn else r_fut st1) (r_waiting st1) (r_joined st1)
             else st1 in
  if has_exc then enter_failed st2 else (st2, []).

Definition handle_up (st : gstate) (u : up) : gstate * list gout :=
  match u with
  | UReset code =>
      if code =? RESET_SOFTWARE then
        if r_attr st && is_pend (r_fut st) then (upd_r st true FOk (r_waiting st) (r_joined st), [])
        else if s_attr st && is_pend (s_fut st) then (upd_s st true FOk (s_waiting st), [])
        else (st, [])                                   (* unexpected reset: logged *)
      else enter_failed st
  | ULost has_exc => conn_lost st has_exc
  | UEof => conn_lost st true
  end.

Fixpoint handle_ups (st : gstate) (l : list up) : gstate * list gout :=
  match l with
  | [] => (st, [])
  | u :: l' => let '(st1, o1) := handle_up st u in
               let '(st2, o2) := handle_ups st1 l' in (st2, o1 ++ o2)
  end.

Definition res_of (f : fstate) : rres :=
  match f with FOk => ROk | FCancelled => RTimeout | _ => RExn end.

(* the loop settles: the reset future's done-callback clears the attribute, then the suspended
   callers resume; the start-up waiter clears its attribute in its finally block *)
Definition settle (st : gstate) : gstate * list gout :=
  let '(st1, o1) :=
    match r_fut st with
    | FOk | FExn | FCancelled =>
        let outs := (if r_waiting st then [GResetDone (res_of (r_fut st))] else [])
                    (* callers that joined the request share its future; when the first caller's timeout
                       cancels that future they are cancelled themselves (no result of their own) *)
                    ++ (match r_fut st with
                        | FCancelled => []
                        | _ => repeat (GResetDone (res_of (r_fut st))) (N.to_nat (r_joined st))
                        end) in
        (upd_r st (if r_attr st && negb (is_pend (r_fut st)) then false else r_attr st) FNone false 0, outs)
    | _ => (st, [])
    end in
  match s_fut st1 with
  | FOk => (upd_s st1 false FNone false, o1 ++ (if s_waiting st1 then [GStartupDone true] else []))
  | FExn | FCancelled => (upd_s st1 false FNone false, o1 ++ (if s_waiting st1 then [GStartupDone false] else []))
  | _ => (st1, o1)
  end.

Definition gstep (st : gstate) (e : gevent) : gstate * list gout :=
  match e with
  | GReq =>
      if r_attr st then (upd_r st true (r_fut st) (r_waiting st) (r_joined st + 1), [])   (* joins the request in progress *)
      else if t_open st then (upd_r st true FPend true 0, [GWriteRst])
      else (st, [GResetDone RClosed])                    (* send_reset raises: transport closed *)
  | GStartup =>
      if s_attr st then (st, [GStartupDone false])       (* assert _startup_reset_future is None *)
      else (upd_s st true FPend true, [])
  | GBatch l =>
      let '(st1, o1) := handle_ups st l in
      let '(st2, o2) := settle st1 in (st2, o1 ++ o2)
  | GTimer =>
      if r_waiting st && is_pend (r_fut st) then
        (* the timeout cancels the waiting task, hence the future; its done-callback clears the attribute *)
        settle (upd_r st (r_attr st) FCancelled true (r_joined st))
      else (st, [])
  | GCommand => if e_running st then (st, [GCmdProceeds]) else (st, [GCmdRaise])
  | GClose => ezsp_close st
  | GAddCallback => (upd_e st (t_open st) (e_running st) (e_has_gw st) true, [])
  | GStartEzsp => (upd_e st (t_open st) true (e_has_gw st) (e_app_cb st), [])
  end.

Fixpoint grun (st : gstate) (es : list gevent) : gstate * list (list gout) :=
  match es with
  | [] => (st, [])
  | e :: es' => let '(st1, o) := gstep st e in
                let '(st2, os) := grun st1 es' in (st2, o :: os)
  end.

(* ---- encoding --------------------------------------------------------------------------------- *)
Definition enc_gout (o : gout) : list Z :=
  match o with
  | GWriteRst => [1]
  | GResetDone ROk => [2; 0] | GResetDone RExn => [2; 1] | GResetDone RTimeout => [2; 2] | GResetDone RClosed => [2; 3]
  | GStartupDone true => [3; 1] | GStartupDone false => [3; 0]
  | GAppFailed => [4]
  | GResetRequest => [5]
  | GTransportClose => [6]
  | GCmdRaise => [7]
  | GCmdProceeds => [8]
  end%Z.

(* completions of the two waiters are reported after the other outputs of the step, start-up first:
   their relative order is the order in which the two futures happened to be resolved *)
Definition is_sdone (o : gout) : bool := match o with GStartupDone _ => true | _ => false end.
Definition is_rdone (o : gout) : bool := match o with GResetDone _ => true | _ => false end.
Definition enc_gstep (l : list gout) : list Z :=
  flat_map enc_gout (filter (fun o => negb (is_sdone o || is_rdone o)) l)
  ++ flat_map enc_gout (filter is_sdone l) ++ flat_map enc_gout (filter is_rdone l).

Definition dec_up (x : N * N) : up :=
  let '(k, a) := x in
  if k =? 0 then UReset a else if k =? 1 then ULost (negb (a =? 0)) else UEof.
Definition dec_gevent (x : N * list (N * N)) : gevent :=
  let '(k, l) := x in
  if k =? 0 then GReq else if k =? 1 then GStartup else if k =? 2 then GBatch (map dec_up l)
  else if k =? 3 then GTimer else if k =? 4 then GCommand else if k =? 5 then GClose
  else if k =? 6 then GAddCallback else GStartEzsp.

Definition run_gateway_case (es : list (N * list (N * N))) : list Z :=
  let '(st, os) := grun g_init (map dec_gevent es) in
  flat_map (fun o => enc_gstep o ++ [(-1)%Z]) os
  ++ [(if r_attr st then 1 else 0)%Z; (if s_attr st then 1 else 0)%Z; (if e_running st then 1 else 0)%Z;
      (if e_has_gw st then 1 else 0)%Z].
