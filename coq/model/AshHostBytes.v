(* The host's ASH endpoint fed with raw bytes: AshProtocol.data_received (the loop of AshRx.v) in
   front of the host state machine of AshHost.v.  The receive loop is split into a pure deframer
   (which frames, valid or not, a read yields) and the handling of those frames; the two views are
   proved equal to the monolithic [rx_loop] of AshRx.v in proofs/AshHostBytes_proofs.v. *)
From Coq Require Import PrimFloat ZArith NArith List Bool.
Import ListNotations.
Require Import BV.gen.GenAsh BV.model.AshCodec BV.model.AshRx BV.model.AshHost.
Open Scope N_scope.

(* what one read yields: for every non-empty run of bytes terminated by a flag, the parsed frame or
   None when it cannot be unstuffed / parsed *)
Definition parse_bytes (fb : list N) : option frame :=
  match unstuff fb with Some d => parse d | None => None end.

Fixpoint deframe (fuel : nat) (b : list N) (disc : bool) (acc : list (option frame))
  : list N * bool * list (option frame) :=
  match fuel with
  | O => (b, disc, acc)
  | S fuel' =>
      match b with
      | [] => (b, disc, acc)
      | _ =>
          let after_discard :=
            if disc then
              match split_first (fun x => x =? FLAG) b with
              | None => None
              | Some (_, _, suf) => Some suf
              end
            else Some b in
          match after_discard with
          | None => ([], true, acc)
          | Some b1 =>
              match split_first reserved_no_esc b1 with
              | None => (b1, false, acc)
              | Some (pre, r, suf) =>
                  if r =? FLAG then
                    match pre with
                    | [] => deframe fuel' suf false acc
                    | _ => deframe fuel' suf false (acc ++ [parse_bytes pre])
                    end
                  else if r =? CANCEL then deframe fuel' suf false acc
                  else if r =? SUB then deframe fuel' suf true acc
                  else deframe fuel' (pre ++ suf) false acc
              end
          end
      end
  end.

(* the receiver of AshRx.v applied to deframed items *)
Fixpoint handle_items (rx : N) (items : list (option frame)) : N * list out :=
  match items with
  | [] => (rx, [])
  | None :: items' => let '(rx', o) := handle_items rx items' in (rx', WCancelNak rx :: o)
  | Some f :: items' =>
      let '(rx1, o1) := rx_frame rx f in
      let '(rx2, o2) := handle_items rx1 items' in (rx2, o1 ++ o2)
  end.

(* ---- the host with a byte-level receive side --------------------------------------------------- *)
Record bstate := { hst : hstate; rbuf : list N; rdisc : bool }.
Definition b_init : bstate := {| hst := h_init; rbuf := []; rdisc := false |}.

Inductive bevent :=
| BEv (e : hevent)            (* Submit / Frames / Tick / WaitTo / CancelCaller, as in AshHost.v *)
| BBytes (chunk : list N).    (* one data_received(chunk) *)

(* frames of one read are handled back to back; the coroutines resume afterwards *)
Fixpoint apply_items (st : hstate) (items : list (option frame)) : hstate * list hout :=
  match items with
  | [] => (st, [])
  | None :: items' =>
      let '(st', o) := apply_items st items' in (st', HCancelNak (rx_seq st) :: o)
  | Some f :: items' =>
      let '(st1, o1) := apply_frame st f in
      let '(st2, o2) := apply_items st1 items' in (st2, o1 ++ o2)
  end.

Definition bstep (st : bstate) (e : bevent) : bstate * list hout :=
  match e with
  | BEv ev => let '(h, o) := host_step (hst st) ev in ({| hst := h; rbuf := rbuf st; rdisc := rdisc st |}, o)
  | BBytes chunk =>
      let b := rbuf st ++ chunk in
      let '(b', d', items) := deframe (S (List.length b)) b (rdisc st) [] in
      let '(h1, o1) := apply_items (hst st) items in
      let '(h2, o2) := settle h1 in
      ({| hst := h2; rbuf := cap b'; rdisc := d' |}, o1 ++ o2)
  end.

Fixpoint brun (st : bstate) (es : list bevent) : bstate * list (list hout) :=
  match es with
  | [] => (st, [])
  | e :: es' => let '(st1, o) := bstep st e in
                let '(st2, os) := brun st1 es' in (st2, o :: os)
  end.

Definition run_hostbytes_case (es : list bevent) : list Z :=
  let '(st, os) := brun b_init es in
  flat_map enc_step os ++ enc_final (hst st) ++ [Z.of_nat (List.length (rbuf st)); (if rdisc st then 1 else 0)%Z].
