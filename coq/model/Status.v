(* C18 model: bellows.types.named.sl_Status.from_ember_status over the generated status map. *)
From Coq Require Import NArith List Bool String.
Import ListNotations.
Require Import BV.gen.GenStatus.
Open Scope N_scope.

Inductive family := FEzsp | FEmber | FUnified.

Definition fam_tag (f : family) : N :=
  match f with FEzsp => 0 | FEmber => 1 | FUnified => 2 end.

Fixpoint lookup_map (tag code : N) (m : list (N * N * N)) : option N :=
  match m with
  | [] => None
  | (t, c, u) :: m' => if (t =? tag) && (c =? code) then Some u else lookup_map tag code m'
  end.

Fixpoint member (name : string) (l : list (string * N)) : option N :=
  match l with
  | [] => None
  | (n, v) :: l' => if String.eqb n name then Some v else member name l'
  end.

Definition member_or (name : string) (l : list (string * N)) (d : N) : N :=
  match member name l with Some v => v | None => d end.

(* the value the code returns for an unmapped legacy status: cls.FAIL *)
Definition sl_FAIL : N := member_or "FAIL" sl_members 1.
Definition sl_OK : N := member_or "OK" sl_members 0.

(* isinstance(status, sl_Status) -> unchanged ; not in map -> FAIL ; else table *)
Definition normalise_with (m : list (N * N * N)) (f : family) (code : N) : N :=
  match f with
  | FUnified => code
  | _ => match lookup_map (fam_tag f) code m with
         | Some u => u
         | None => sl_FAIL
         end
  end.

Definition normalise := normalise_with status_map.

Definition success_code (f : family) : N :=
  match f with
  | FEzsp => member_or "SUCCESS" ezsp_members 0
  | FEmber => member_or "SUCCESS" ember_members 0
  | FUnified => sl_OK
  end.

Definition fam_of_tag (t : N) : family :=
  if t =? 0 then FEzsp else if t =? 1 then FEmber else FUnified.
