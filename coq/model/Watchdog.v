(* C19 model: ControllerApplication._watchdog_feed (bellows/zigbee/application.py). *)
From Coq Require Import ZArith NArith List Bool.
Import ListNotations.
Open Scope N_scope.

(* how the NCP answers one keep-alive command *)
Inductive ans :=
| AOk
| ANoValue        (* the command returned, with a status other than success (e.g. the free-buffer read is not
                     supported): the keep-alive itself succeeded *)
| ATimeout | AEzspError.
Definition ans_ok (a : ans) : bool := match a with AOk | ANoValue => true | _ => false end.

(* keep-alive commands as the NCP sees them *)
Inductive kcmd := KNop | KReadCounters | KReadAndClearCounters | KGetValue.

Record wstate := { failures : N; feeds : N }.
Definition winit : wstate := {| failures := 0; feeds := 0 |}.

Section Feed.
  Variable max_failures : N.      (* MAX_WATCHDOG_FAILURES *)
  Variable clear_period : N.      (* EZSP_COUNTERS_CLEAR_IN_WATCHDOG_PERIODS *)

  (* one feed: protocol version, answers to the first and to the second command *)
  Definition feed_cmds (v : N) (st : wstate) (a1 : ans) : list kcmd :=
    if v =? 4 then [KNop]
    else
      let n := feeds st + 1 in
      (if 0 <? n mod clear_period then KReadCounters else KReadAndClearCounters)
        :: (if ans_ok a1 then [KGetValue] else []).

  Definition feed_failed (v : N) (a1 a2 : ans) : bool :=
    if v =? 4 then negb (ans_ok a1) else negb (ans_ok a1 && ans_ok a2).

  Definition feed (v : N) (st : wstate) (a : ans * ans) : wstate * bool * list kcmd :=
    let '(a1, a2) := a in
    let feeds' := if v =? 4 then feeds st else feeds st + 1 in
    let cmds := feed_cmds v st a1 in
    if feed_failed v a1 a2 then
      let f := failures st + 1 in
      ({| failures := f; feeds := feeds' |}, max_failures <? f, cmds)
    else ({| failures := 0; feeds := feeds' |}, false, cmds).

  Fixpoint run (v : N) (st : wstate) (l : list (ans * ans)) : list (bool * list kcmd) :=
    match l with
    | [] => []
    | a :: l' => let '(st', r, c) := feed v st a in (r, c) :: run v st' l'
    end.

  Fixpoint final (v : N) (st : wstate) (l : list (ans * ans)) : wstate :=
    match l with
    | [] => st
    | a :: l' => final v (fst (fst (feed v st a))) l'
    end.
End Feed.

(* encoding for the correspondence *)
Definition kcmd_code (k : kcmd) : Z :=
  match k with KNop => 1%Z | KReadCounters => 2%Z | KReadAndClearCounters => 3%Z | KGetValue => 4%Z end.
Definition ans_of (n : N) : ans := if n =? 0 then AOk else if n =? 1 then ATimeout else if n =? 2 then AEzspError else ANoValue.
Definition encode_run (r : list (bool * list kcmd)) : list Z :=
  flat_map (fun x : bool * list kcmd => (if fst x then 1%Z else 0%Z) :: Z.of_nat (length (snd x)) :: map kcmd_code (snd x)) r.
