(* C15 model: bellows/multicast.py (Multicast._initialize / startup / subscribe / unsubscribe) together
   with the NCP's multicast table.  The host dict is an association list in insertion order, the free
   set a list; the NCP table is a list of (group, endpoint) indexed by position.  [op] / [step] are the
   calls that issue at most one table write; [xop] / [xstep] add Multicast.startup(coordinator), one
   call that issues several. *)
From Coq Require Import ZArith NArith List Bool String.
Import ListNotations.
Require Import BV.gen.GenStatus BV.model.Status.
Open Scope N_scope.

Record mstate := {
  subs  : list (N * N);     (* (group, index), the host's _multicast *)
  avail : list N;           (* the host's _available *)
  ncp   : list (N * N)      (* NCP table: (multicastId, endpoint) per index *)
}.

(* answer of the NCP to one table write *)
Inductive answer :=
| Ans (status : N)          (* a response carrying this legacy status code *)
| TimeoutLost               (* command timed out, write never applied *)
| TimeoutApplied.           (* command timed out, the NCP had applied the write *)

Inductive op :=
| Init (size_status : N) (read_status : list N)
| Subscribe (g : N) (choice : N) (a : answer)   (* choice: the index set.pop() returns *)
| Unsubscribe (g : N) (a : answer).

(* what a call reports *)
Inductive ret := RStatus (s : N) | RRaised.

Definition status_ok (s : N) : bool := normalise FEmber s =? sl_OK.
Definition INVALID_INDEX : N := member_or "INVALID_INDEX"%string sl_members 0x27.

Fixpoint lookup (g : N) (l : list (N * N)) : option N :=
  match l with
  | [] => None
  | (g', i) :: l' => if g' =? g then Some i else lookup g l'
  end.

Fixpoint dict_set (g i : N) (l : list (N * N)) : list (N * N) :=
  match l with
  | [] => [(g, i)]
  | (g', i') :: l' => if g' =? g then (g, i) :: l' else (g', i') :: dict_set g i l'
  end.

Fixpoint dict_del (g : N) (l : list (N * N)) : list (N * N) :=
  match l with
  | [] => []
  | (g', i') :: l' => if g' =? g then l' else (g', i') :: dict_del g l'
  end.

Fixpoint remove_idx (i : N) (l : list N) : list N :=
  match l with
  | [] => []
  | j :: l' => if j =? i then l' else j :: remove_idx i l'
  end.

Fixpoint mem (i : N) (l : list N) : bool :=
  match l with [] => false | j :: l' => (j =? i) || mem i l' end.

Definition set_add (i : N) (l : list N) : list N := if mem i l then l else l ++ [i].

Fixpoint upd {A} (n : nat) (x : A) (l : list A) : list A :=
  match l, n with
  | [], _ => []
  | _ :: l', O => x :: l'
  | y :: l', S n' => y :: upd n' x l'
  end.

Definition ncp_write (i g ep : N) (t : list (N * N)) : list (N * N) := upd (N.to_nat i) (g, ep) t.

(* _initialize: scan the table *)
Fixpoint scan (i : N) (entries : list (N * N)) (rs : list N) (s : list (N * N)) (a : list N)
  : list (N * N) * list N :=
  match entries with
  | [] => (s, a)
  | (g, ep) :: es =>
      let r := hd 0 rs in
      if status_ok r then
        if ep =? 0 then scan (i + 1) es (tl rs) s (set_add i a)
        else scan (i + 1) es (tl rs) (dict_set g i s) a
      else scan (i + 1) es (tl rs) s a
  end.

(* set.pop(): the harness tells which element Python picked; fall back to the head *)
Definition pick (choice : N) (a : list N) : option N :=
  match a with
  | [] => None
  | h :: _ => Some (if mem choice a then choice else h)
  end.

Definition step (st : mstate) (o : op) : mstate * ret * option (N * N * N) :=
  match o with
  | Init ss rs =>
      if status_ok ss then
        let '(s, a) := scan 0 (ncp st) rs [] [] in
        ({| subs := s; avail := a; ncp := ncp st |}, RStatus 0, None)
      else ({| subs := []; avail := []; ncp := ncp st |}, RStatus 0, None)
  | Subscribe g choice a =>
      match lookup g (subs st) with
      | Some _ => (st, RStatus sl_OK, None)
      | None =>
          match pick choice (avail st) with
          | None => (st, RStatus INVALID_INDEX, None)
          | Some i =>
              let w := Some (i, g, 1) in
              match a with
              | Ans s =>
                  if status_ok s then
                    ({| subs := dict_set g i (subs st); avail := remove_idx i (avail st);
                        ncp := ncp_write i g 1 (ncp st) |}, RStatus s, w)
                  else (st, RStatus s, w)      (* index popped, then added back *)
              | TimeoutLost => (st, RRaised, w)
              | TimeoutApplied =>
                  ({| subs := subs st; avail := avail st; ncp := ncp_write i g 1 (ncp st) |}, RRaised, w)
              end
          end
      end
  | Unsubscribe g a =>
      match lookup g (subs st) with
      | None => (st, RStatus INVALID_INDEX, None)
      | Some i =>
          let w := Some (i, g, 0) in
          match a with
          | Ans s =>
              if status_ok s then
                ({| subs := dict_del g (subs st); avail := set_add i (avail st);
                    ncp := ncp_write i g 0 (ncp st) |}, RStatus s, w)
              else (st, RStatus s, w)
          | TimeoutLost => (st, RRaised, w)
          | TimeoutApplied =>
              ({| subs := subs st; avail := avail st; ncp := ncp_write i g 0 (ncp st) |}, RRaised, w)
          end
      end
  end.

Definition st_of (x : mstate * ret * option (N * N * N)) : mstate := fst (fst x).

Fixpoint run (st : mstate) (ops : list op) : mstate :=
  match ops with
  | [] => st
  | o :: ops' => run (st_of (step st o)) ops'
  end.

(* ---- Multicast.startup(coordinator) ------------------------------------------------------ *)
(* One call: the table scan (_initialize), then `await self.subscribe(group_id)` for the groups of the
   coordinator's endpoints in iteration order, endpoint 0 skipped, duplicates kept (a group listed by
   two endpoints is subscribed twice; the second call finds it subscribed unless the first write was
   refused).  [calls] lists those groups, each with the index set.pop() returns should that call reach
   the pop.  Every table write of the call gets the same answer [a].  The status a subscribe returns
   is dropped (a refusal is logged by subscribe and start-up goes on); a subscribe that raises -- the
   command timed out -- ends start-up there, the exception leaving the coroutine.  A start-up that
   returns reports None, which is what [Init] reports (RStatus 0). *)
Definition writes_of {A} (w : option A) : list A := match w with Some x => [x] | None => [] end.

Inductive xop :=
| Plain (o : op)
| Startup (size_status : N) (read_status : list N) (calls : list (N * N)) (a : answer).

Fixpoint startup_subs (st : mstate) (calls : list (N * N)) (a : answer)
  : mstate * ret * list (N * N * N) :=
  match calls with
  | [] => (st, RStatus 0, [])
  | (g, c) :: rest =>
      let '(st1, r, w) := step st (Subscribe g c a) in
      match r with
      | RRaised => (st1, RRaised, writes_of w)
      | RStatus _ =>
          let '(st2, r2, ws) := startup_subs st1 rest a in
          (st2, r2, writes_of w ++ ws)
      end
  end.

(* state, what the call reports, the table writes it issued in order *)
Definition xstep (st : mstate) (c : xop) : mstate * ret * list (N * N * N) :=
  match c with
  | Plain o => let '(st', r, w) := step st o in (st', r, writes_of w)
  | Startup ss rs calls a => startup_subs (st_of (step st (Init ss rs))) calls a
  end.

Definition xst_of (x : mstate * ret * list (N * N * N)) : mstate := fst (fst x).

Fixpoint xrun (st : mstate) (cs : list xop) : mstate :=
  match cs with
  | [] => st
  | c :: cs' => xrun (xst_of (xstep st c)) cs'
  end.

(* ---- encoding for the correspondence ---------------------------------------------------- *)
Definition bitmask (l : list N) : N := fold_left (fun acc i => acc + 2 ^ i) l 0.

Definition enc_ret (r : ret) : Z := match r with RStatus s => Z.of_N s | RRaised => (-1)%Z end.
Definition enc_write (w : option (N * N * N)) : list Z :=
  match w with
  | None => [0%Z]
  | Some (i, g, ep) => [1%Z; Z.of_N i; Z.of_N g; Z.of_N ep]
  end.
Definition enc_state (st : mstate) : list Z :=
  Z.of_nat (List.length (subs st)) :: map (fun p => Z.of_N (fst p)) (subs st)
    ++ [Z.of_N (bitmask (avail st))]
    ++ flat_map (fun e => [Z.of_N (fst e); Z.of_N (snd e)]) (ncp st).

Fixpoint trace (st : mstate) (ops : list op) : list Z :=
  match ops with
  | [] => []
  | o :: ops' =>
      let '(st', r, w) := step st o in
      (enc_ret r :: enc_write w) ++ enc_state st' ++ trace st' ops'
  end.

(* all the writes of one call: their number, then (index, group, endpoint) each; for a call with at most
   one write this is [enc_write] *)
Definition enc_writes (ws : list (N * N * N)) : list Z :=
  Z.of_nat (List.length ws)
    :: flat_map (fun w => [Z.of_N (fst (fst w)); Z.of_N (snd (fst w)); Z.of_N (snd w)]) ws.

Fixpoint xtrace (st : mstate) (cs : list xop) : list Z :=
  match cs with
  | [] => []
  | c :: cs' =>
      let '(st', r, ws) := xstep st c in
      (enc_ret r :: enc_writes ws) ++ enc_state st' ++ xtrace st' cs'
  end.

Definition decode_answer (n : N) : answer :=
  if n =? 1000 then TimeoutLost else if n =? 1001 then TimeoutApplied else Ans n.
(* op encoding: (kind, g, choice, answer, statuses)  kind 0=Init(size_status = g) 1=Sub 2=Unsub *)
Definition decode_op (x : N * N * N * N * list N) : op :=
  let '(k, g, c, a, rs) := x in
  if k =? 0 then Init g rs else if k =? 1 then Subscribe g c (decode_answer a) else Unsubscribe g (decode_answer a).
(* with the calls of a start-up: kind 3 = Startup(size_status = g, read statuses, (group, choice) per subscribe
   call, answer); any other kind is the single call above *)
Definition decode_xop (x : N * N * N * N * list N * list (N * N)) : xop :=
  let '(k, g, c, a, rs, calls) := x in
  if k =? 3 then Startup g rs calls (decode_answer a) else Plain (decode_op (k, g, c, a, rs)).

Definition run_case (c : list (N * N) * list (N * N * N * N * list N * list (N * N))) : list Z :=
  xtrace {| subs := []; avail := []; ncp := fst c |} (map decode_xop (snd c)).
