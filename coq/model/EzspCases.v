(* Case evaluation for the C07/C08 correspondence over the generated command tables. *)
From Coq Require Import ZArith NArith List Bool String.
Import ListNotations.
Require Import BV.lib.EzspTypes BV.gen.GenCmd BV.model.EzspCodec.
Open Scope N_scope.

Fixpoint assocN {A} (k : N) (l : list (N * A)) : option A :=
  match l with [] => None | (k', v) :: l' => if k' =? k then Some v else assocN k l' end.

Definition commands_of (v : N) : list command :=
  match assocN v COMMANDS with Some l => l | None => [] end.
Definition kind_of (v : N) : N := match assocN v HEADER_KIND with Some k => k | None => 0 end.

Definition run_c07_case (c : N * string * N * list ival * list ival) : list Z :=
  let '(v, name, seq, txv, rxv) := c in
  let cs := commands_of v in
  let kind := kind_of v in
  match find_by_name name cs with
  | None => [(-5)%Z]
  | Some cmd =>
      enc_obytes (frame_tx SCHEMAS kind seq cmd txv)
      ++ enc_obytes (frame_rx_encode SCHEMAS kind seq cmd rxv)
      ++ match frame_rx_encode SCHEMAS kind seq cmd rxv with
         | None => [(-3)%Z]
         | Some b =>
             match frame_rx_decode SCHEMAS kind cs b with
             | None => [(-2)%Z]
             | Some (s, c', vs, rest) =>
                 Z.of_N s :: Z.of_N (c_id c') :: Z.of_nat (List.length vs) :: flat_map enc_ival vs
                 ++ [Z.of_nat (List.length rest)]
             end
         end
  end.

(* ---- C06: the protocol machine on abstract events ------------------------------------------------ *)
Require Import BV.model.EzspProto.

Definition enc_kind (k : raise_kind) : Z :=
  match k with KTimeout => 0 | KSendFailed => 1 | KInvalidCommand => 2 | KCancelled => 3 end%Z.
Definition enc_pout (o : pout) : list Z :=
  match o with
  | OSend id s f => [1%Z; Z.of_N id; Z.of_N s; Z.of_N f]
  | OReturn id vs => 2%Z :: Z.of_N id :: flat_map enc_ival vs
  | ORaise id k => [3%Z; Z.of_N id; enc_kind k]
  | OCallback f vs => 4%Z :: Z.of_N f :: flat_map enc_ival vs
  end.
Definition run_c06_case (es : list pevent) : list Z :=
  let '(st, os) := proto_run p_init es in
  flat_map (fun o => flat_map enc_pout o ++ [(-1)%Z]) os ++ [Z.of_N (p_seq st)].

(* the same from a handler that has already issued [seq0] commands (sequence numbers wrap at 256) *)
Definition run_c06_case_from (c : N * list pevent) : list Z :=
  let '(seq0, es) := c in
  let st0 := {| p_seq := seq0 mod 256; p_awaiting := []; p_holder := None; p_queue := []; p_counter := 0; p_calls := [] |} in
  let '(st, os) := proto_run st0 es in
  flat_map (fun o => flat_map enc_pout o ++ [(-1)%Z]) os ++ [Z.of_N (p_seq st)].

(* ---- C08: raw bytes through frame_received, with or without a pending command ------------------ *)
Definition invalid_fid_of (v : N) : N :=
  match find_by_name "invalidCommand"%string (commands_of v) with Some c => c_id c | None => 0xFFFFF end.

Definition run_c08_case (c : N * option (Z * N) * list N) : list Z :=
  let '(v, pending, data) := c in
  let st := match pending with
            | Some (prio, fid) => fst (proto_run p_init [ECall 0 prio fid; ESendDone 0 true])
            | None => p_init
            end in
  let '(st', o) := frame_received SCHEMAS (kind_of v) (commands_of v) (invalid_fid_of v) st data in
  flat_map enc_pout o ++ [(-1)%Z; Z.of_nat (List.length (p_awaiting st')); Z.of_nat (List.length (p_calls st'))].

(* ---- C13: callback frame bytes -> decode over the generated tables -> translate ------------------ *)
Require Import BV.model.Translate.
Definition run_c13_case (c : N * Z * list N) : list Z :=
  let '(v, own, data) := c in
  match frame_rx_decode SCHEMAS (kind_of v) (commands_of v) data with
  | None => [(-2)%Z]
  | Some (_, cmd, vs, _) =>
      match translate v own (c_name cmd) vs with
      | None => [(-3)%Z]
      | Some evs => flat_map enc_event evs ++ [(-1)%Z]
      end
  end.
