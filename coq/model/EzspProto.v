(* EZSP command/response machine (C06, C08): ProtocolHandler.command / __call__ and
   EZSP.frame_received / handle_callback, with zigpy's PriorityDynamicBoundedSemaphore (value 1)
   modelled by its contract: no barging, highest priority first, first come first served within a
   priority, the slot handed over at release time. *)
From Coq Require Import String ZArith NArith List Bool.
Import ListNotations.
Require Import BV.lib.EzspTypes BV.model.EzspCodec.
Open Scope N_scope.

Inductive pstage := PQueued | PSending | PWaiting.

(* what a reply future holds *)
Inductive reply := RNone | RValues (vs : list ival) | RInvalidCommand.

Record pcall := {
  k_id : N; k_prio : Z; k_fid : N; k_seq : N; k_stage : pstage; k_reply : reply
}.

Record pstate := {
  p_seq : N;                                (* next request sequence number *)
  p_awaiting : list (N * (N * N));          (* seq -> (expected frame id, call) : a dict *)
  p_holder : option N;                      (* call holding the send slot *)
  p_queue : list (Z * N * N);               (* (-priority, arrival counter, call), sorted *)
  p_counter : N;
  p_calls : list pcall                      (* calls in progress *)
}.

Definition p_init : pstate :=
  {| p_seq := 0; p_awaiting := []; p_holder := None; p_queue := []; p_counter := 0; p_calls := [] |}.

(* how a received frame decodes (the outcome of header_rx / COMMANDS_BY_ID / deserialize) *)
Inductive decoded :=
| DShort                                    (* header cannot be read: IndexError / ValueError *)
| DUnknown (seq fid : N)                    (* frame id not in the active table *)
| DUndecodable (seq fid : N)                (* schema decode error *)
| DOk (seq fid : N) (invalid : bool) (vs : list ival).   (* invalid: the frame is invalidCommand *)

Inductive pevent :=
| ECall (id : N) (prio : Z) (fid : N)
| ESendDone (id : N) (ok : bool)            (* gateway.send_data returned / raised *)
| EFrame (d : decoded)
| ETimeout (id : N)                         (* the command timeout of a waiting call expires *)
| ECancel (id : N).

Inductive raise_kind := KTimeout | KSendFailed | KInvalidCommand | KCancelled.

Inductive pout :=
| OSend (id seq fid : N)                    (* gateway.send_data(header(seq, fid) ++ args) *)
| OReturn (id : N) (vs : list ival)
| ORaise (id : N) (k : raise_kind)
| OCallback (fid : N) (vs : list ival).

(* ---- small dictionaries ---------------------------------------------------------------------- *)
Fixpoint aw_get (s : N) (l : list (N * (N * N))) : option (N * N) :=
  match l with [] => None | (s', v) :: l' => if s' =? s then Some v else aw_get s l' end.
Fixpoint aw_del (s : N) (l : list (N * (N * N))) : list (N * (N * N)) :=
  match l with [] => [] | (s', v) :: l' => if s' =? s then l' else (s', v) :: aw_del s l' end.
Fixpoint aw_set (s : N) (v : N * N) (l : list (N * (N * N))) : list (N * (N * N)) :=
  match l with
  | [] => [(s, v)]
  | (s', v') :: l' => if s' =? s then (s, v) :: l' else (s', v') :: aw_set s v l'
  end.

Fixpoint call_get (id : N) (l : list pcall) : option pcall :=
  match l with [] => None | c :: l' => if k_id c =? id then Some c else call_get id l' end.
Fixpoint call_del (id : N) (l : list pcall) : list pcall :=
  match l with [] => [] | c :: l' => if k_id c =? id then l' else c :: call_del id l' end.
Fixpoint call_set (c : pcall) (l : list pcall) : list pcall :=
  match l with
  | [] => [c]
  | c' :: l' => if k_id c' =? k_id c then c :: l' else c' :: call_set c l'
  end.

(* bisect.insort_right on (-priority, counter) *)
Definition q_le (a b : Z * N * N) : bool :=
  let '(pa, ca, _) := a in let '(pb, cb, _) := b in
  (pa <? pb)%Z || ((pa =? pb)%Z && (ca <=? cb)).
Fixpoint q_insert (x : Z * N * N) (q : list (Z * N * N)) : list (Z * N * N) :=
  match q with
  | [] => [x]
  | y :: q' => if q_le y x then y :: q_insert x q' else x :: y :: q'
  end.
Fixpoint q_remove (id : N) (q : list (Z * N * N)) : list (Z * N * N) :=
  match q with
  | [] => []
  | (p, c, i) :: q' => if i =? id then q' else (p, c, i) :: q_remove id q'
  end.

Definition with_calls (st : pstate) (cs : list pcall) : pstate :=
  {| p_seq := p_seq st; p_awaiting := p_awaiting st; p_holder := p_holder st; p_queue := p_queue st;
     p_counter := p_counter st; p_calls := cs |}.

(* a call that owns the slot registers its future under the next sequence number and sends *)
Definition start_call (st : pstate) (c : pcall) : pstate * list pout :=
  let s := p_seq st in
  let c' := {| k_id := k_id c; k_prio := k_prio c; k_fid := k_fid c; k_seq := s;
               k_stage := PSending; k_reply := RNone |} in
  ({| p_seq := (s + 1) mod 256; p_awaiting := aw_set s (k_fid c, k_id c) (p_awaiting st);
      p_holder := Some (k_id c); p_queue := p_queue st; p_counter := p_counter st;
      p_calls := call_set c' (p_calls st) |},
   [OSend (k_id c) s (k_fid c)]).

(* release(): hand the slot to the first waiter, which then starts *)
Definition release (st : pstate) : pstate * list pout :=
  match p_queue st with
  | [] =>
      ({| p_seq := p_seq st; p_awaiting := p_awaiting st; p_holder := None; p_queue := [];
          p_counter := p_counter st; p_calls := p_calls st |}, [])
  | (_, _, id) :: q' =>
      let st1 := {| p_seq := p_seq st; p_awaiting := p_awaiting st; p_holder := None; p_queue := q';
                    p_counter := p_counter st; p_calls := p_calls st |} in
      match call_get id (p_calls st) with
      | Some c => start_call st1 c
      | None => (st1, [])
      end
  end.

(* the holder's call ends (return or raise): forget it and release the slot *)
Definition finish (st : pstate) (id : N) (o : pout) : pstate * list pout :=
  let '(st1, outs) := release (with_calls st (call_del id (p_calls st))) in (st1, o :: outs).

Definition complete_with_reply (st : pstate) (c : pcall) : pstate * list pout :=
  match k_reply c with
  | RValues vs => finish st (k_id c) (OReturn (k_id c) vs)
  | RInvalidCommand => finish st (k_id c) (ORaise (k_id c) KInvalidCommand)
  | RNone => (st, [])
  end.

Definition set_reply (c : pcall) (r : reply) : pcall :=
  {| k_id := k_id c; k_prio := k_prio c; k_fid := k_fid c; k_seq := k_seq c; k_stage := k_stage c;
     k_reply := match k_reply c with RNone => r | x => x end |}.
Definition set_stage (c : pcall) (s : pstage) : pcall :=
  {| k_id := k_id c; k_prio := k_prio c; k_fid := k_fid c; k_seq := k_seq c; k_stage := s;
     k_reply := k_reply c |}.

Definition pop_awaiting (st : pstate) (s : N) : pstate :=
  {| p_seq := p_seq st; p_awaiting := aw_del s (p_awaiting st); p_holder := p_holder st;
     p_queue := p_queue st; p_counter := p_counter st; p_calls := p_calls st |}.

(* future.set_result / set_exception on the call registered under this sequence number; a call
   that is no longer in progress has a finished future: InvalidStateError, swallowed *)
Definition deliver (st : pstate) (call : N) (r : reply) : pstate * list pout :=
  match call_get call (p_calls st) with
  | None => (st, [])
  | Some c =>
      let c' := set_reply c r in
      let st1 := with_calls st (call_set c' (p_calls st)) in
      match k_stage c' with
      | PWaiting => complete_with_reply st1 c'
      | _ => (st1, [])          (* still sending: the reply is picked up when send_data returns *)
      end
  end.

Definition proto_step (st : pstate) (e : pevent) : pstate * list pout :=
  match e with
  | ECall id prio fid =>
      let c := {| k_id := id; k_prio := prio; k_fid := fid; k_seq := 0; k_stage := PQueued; k_reply := RNone |} in
      match p_holder st, p_queue st with
      | None, [] => start_call st c
      | _, _ =>
          ({| p_seq := p_seq st; p_awaiting := p_awaiting st; p_holder := p_holder st;
              p_queue := q_insert ((- prio)%Z, p_counter st + 1, id) (p_queue st);
              p_counter := p_counter st + 1; p_calls := call_set c (p_calls st) |}, [])
      end
  | ESendDone id ok =>
      match call_get id (p_calls st) with
      | Some c =>
          match k_stage c with
          | PSending =>
              if ok then
                let c' := set_stage c PWaiting in
                complete_with_reply (with_calls st (call_set c' (p_calls st))) c'
              else finish st id (ORaise id KSendFailed)
          | _ => (st, [])
          end
      | None => (st, [])
      end
  | EFrame d =>
      match d with
      | DShort | DUnknown _ _ | DUndecodable _ _ => (st, [])
      | DOk s fid invalid vs =>
          match aw_get s (p_awaiting st) with
          | Some (expected, call) =>
              let st1 := pop_awaiting st s in
              if invalid then deliver st1 call RInvalidCommand
              else if expected =? fid then deliver st1 call (RValues vs)
              else (st1, [])          (* assert expected_id == frame_id fails; entry already popped *)
          | None => (st, [OCallback fid vs])
          end
      end
  | ETimeout id =>
      match call_get id (p_calls st) with
      | Some c =>
          match k_stage c, k_reply c with
          | PWaiting, RNone => finish st id (ORaise id KTimeout)
          | _, _ => (st, [])
          end
      | None => (st, [])
      end
  | ECancel id =>
      match call_get id (p_calls st) with
      | Some c =>
          match k_stage c with
          | PQueued =>
              ({| p_seq := p_seq st; p_awaiting := p_awaiting st; p_holder := p_holder st;
                  p_queue := q_remove id (p_queue st); p_counter := p_counter st;
                  p_calls := call_del id (p_calls st) |}, [ORaise id KCancelled])
          | _ => finish st id (ORaise id KCancelled)
          end
      | None => (st, [])
      end
  end.

Fixpoint proto_run (st : pstate) (es : list pevent) : pstate * list (list pout) :=
  match es with
  | [] => (st, [])
  | e :: es' => let '(st1, o) := proto_step st e in
                let '(st2, os) := proto_run st1 es' in (st2, o :: os)
  end.

(* ---- the byte level: EZSP.frame_received on raw bytes (C08) ------------------------------------- *)
Section Bytes.
  Variable schemas : list schema.
  Variable kind : N.
  Variable cs : list command.
  Variable invalid_fid : N.        (* frame id of invalidCommand in the active table *)

  Definition classify (data : list N) : option decoded :=
    match data with
    | [] => None                                       (* empty frame: ignored before dispatch *)
    | _ =>
        match header_rx kind data with
        | None => Some DShort
        | Some (s, fid, payload) =>
            match find_by_id fid cs with
            | None => Some (DUnknown s fid)
            | Some c =>
                match decode_schema (schema_at schemas (c_rx c)) payload with
                | None => Some (DUndecodable s fid)
                | Some (vs, _) => Some (DOk s fid (fid =? invalid_fid) vs)   (* trailing data ignored *)
                end
            end
        end
    end.

  Definition frame_received (st : pstate) (data : list N) : pstate * list pout :=
    match classify data with
    | None => (st, [])
    | Some d => proto_step st (EFrame d)
    end.
End Bytes.
