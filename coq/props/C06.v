(* C06 -- each EZSP command gets its own response; one in flight; keep-alives go first.
   Statements only; proofs in proofs/EzspProto_proofs.v.  [proto_step] transliterates
   ProtocolHandler.command/__call__ with the priority semaphore's contract; it is tied to the real
   classes (and the real zigpy semaphore) by the C06 correspondence. *)
From Coq Require Import String ZArith NArith List Bool Sorting.Sorted.
Import ListNotations.
Require Import BV.lib.EzspTypes BV.gen.GenProto BV.model.EzspCodec BV.model.EzspProto BV.proofs.EzspProto_proofs.
Open Scope N_scope.

(* vocabulary (proofs file):
   outs es      := concat (snd (proto_run p_init es))         final es := fst (proto_run p_init es)
   calls es     := ids of the ECall events ;  calls_unique es := NoDup (calls es)
   sends l      := the (id, seq, fid) of the OSend outputs of l, in order
   in_flight st := the calls of st whose stage is PSending or PWaiting
   q_before a b := a precedes-or-equals b in the queue order: higher priority first, then earlier arrival
   reachable st := st = final es for some es with calls_unique es
   spec_priority name := 999 for nop/readCounters/readAndClearCounters/getValue, -1 for sendUnicast/
                   sendMulticast/sendBroadcast/setSourceRoute/setExtendedTimeout, 0 otherwise *)

(* a call returns exactly the payload of a frame that carried the sequence number and frame id of
   its own request, received after that request was sent *)
Theorem c06_own_response : forall es id vs, calls_unique es ->
  In (OReturn id vs) (outs es) ->
  exists es1 es2 s f, es = es1 ++ EFrame (DOk s f false vs) :: es2 /\ In (OSend id s f) (outs es1).
Proof. exact own_response. Qed.

(* one frame completes at most the call registered under its sequence number, and only when the
   frame id is the one that call sent: late, duplicate or foreign frames complete nobody else *)
(* CORRECTED: first stated for every st, which is false of a record that cannot arise: in
     st = {| p_seq := 1; p_awaiting := [(0, (10, 1))]; p_holder := Some 1; p_queue := []; p_counter := 0;
             p_calls := [{| k_id := 1; k_prio := 0; k_fid := 10; k_seq := 0; k_stage := PWaiting;
                            k_reply := RValues [XNone] |}] |}
   (a call still waiting although its reply is already recorded) the frames DOk 0 10 true [] and
   DOk 0 10 false [] both produce [OReturn 1 [XNone]]: inv = true resp. vs' <> vs.  In a reachable
   state a waiting call has no reply recorded (a reply completes it at once), hence [reachable st]. *)
Theorem c06_no_cross : forall st s f inv vs id vs', reachable st ->
  In (OReturn id vs') (snd (proto_step st (EFrame (DOk s f inv vs)))) ->
  aw_get s (p_awaiting st) = Some (f, id) /\ inv = false /\ vs' = vs.
Proof. exact no_cross. Qed.

(* a frame that answers no pending call goes to the callbacks exactly once, and does nothing else;
   a frame that does answer one is not a callback *)
Theorem c06_callbacks_once : forall st s f inv vs,
  aw_get s (p_awaiting st) = None ->
  proto_step st (EFrame (DOk s f inv vs)) = (st, [OCallback f vs]).
Proof. exact callbacks_once. Qed.

Theorem c06_pending_not_callback : forall st s f inv vs x f' vs',
  aw_get s (p_awaiting st) = Some x ->
  ~ In (OCallback f' vs') (snd (proto_step st (EFrame (DOk s f inv vs)))).
Proof. exact pending_not_callback. Qed.

(* the command timeout ends a call that is still waiting *)
(* CORRECTED: first stated for every st, which is false when p_calls lists the same call id twice:
   with c = {| k_id := 1; k_prio := 0; k_fid := 10; k_seq := 0; k_stage := PWaiting; k_reply := RNone |}
   and st = {| p_seq := 1; p_awaiting := []; p_holder := Some 1; p_queue := []; p_counter := 0;
               p_calls := [c; c] |},  call_get 1 (p_calls (fst (proto_step st (ETimeout 1)))) = Some c.
   Reachable states list each call once, hence [reachable st]. *)
Theorem c06_timeout : forall st id c, reachable st -> call_get id (p_calls st) = Some c ->
  k_stage c = PWaiting -> k_reply c = RNone ->
  In (ORaise id KTimeout) (snd (proto_step st (ETimeout id))) /\
  call_get id (p_calls (fst (proto_step st (ETimeout id)))) = None.
Proof. exact timeout_raises. Qed.

(* at most one command is sending or awaiting its response, and it is the holder of the slot *)
Theorem c06_one_in_flight : forall es, calls_unique es ->
  (List.length (in_flight (final es)) <= 1)%nat /\
  (forall c, In c (in_flight (final es)) -> p_holder (final es) = Some (k_id c)).
Proof. exact one_in_flight. Qed.

Theorem c06_concurrency_pinned : MAX_COMMAND_CONCURRENCY = 1.
Proof. reflexivity. Qed.

(* queued commands start in priority order, first come first served within a priority: the queue
   is always sorted that way and the slot goes to its head *)
Theorem c06_priority_order : forall es, calls_unique es ->
  StronglySorted q_before (p_queue (final es)).
Proof. exact queue_sorted. Qed.

Theorem c06_head_starts : forall st p n id q c, p_queue st = (p, n, id) :: q ->
  call_get id (p_calls st) = Some c ->
  exists s, In (OSend id s (k_fid c)) (snd (release st)).
Proof. exact head_starts. Qed.

(* nobody waits while the slot is free: no exit path leaks the slot *)
Theorem c06_no_slot_leak : forall es, calls_unique es ->
  p_holder (final es) = None -> p_queue (final es) = [] /\ in_flight (final es) = [].
Proof. exact no_slot_leak. Qed.

(* ADDED (the other half of "no exit path leaks the slot"): a slot that is held is held by a call
   that is sending or waiting, never by a call that has ended *)
Theorem c06_slot_held_by_in_flight : forall es h, calls_unique es ->
  p_holder (final es) = Some h -> exists c, In c (in_flight (final es)) /\ k_id c = h.
Proof. exact holder_in_flight. Qed.

(* the priority classes named by the property, over every command name of every version
   ([spec_priority] is defined in the proofs file) *)
Theorem c06_priority_classes : forall name p, In (name, p) PRIORITIES -> p = spec_priority name.
Proof. exact priority_classes. Qed.

(* request sequence numbers advance by one modulo 256 *)
Theorem c06_seq_mod_256 : forall es, calls_unique es ->
  map (fun x => snd (fst x)) (sends (outs es)) =
    map (fun k => N.of_nat k mod 256) (seq 0 (List.length (sends (outs es)))).
Proof. exact seq_consecutive. Qed.

(* non-vacuity: a packet-send command queued first is overtaken by a keep-alive queued later *)
Example c06_example :
  let es := [ECall 1 0 10; ECall 2 (-1) 52; ECall 3 999 5; ESendDone 1 true;
             EFrame (DOk 0 10 false []); ESendDone 3 true; EFrame (DOk 1 5 false [])] in
  sends (outs es) = [(1, 0, 10); (3, 1, 5); (2, 2, 52)].
Proof. vm_compute. reflexivity. Qed.

(* ---- the positive halves (proofs/EzspProtoPos_proofs.v) ------------------------------------------------ *)
Require Import BV.proofs.EzspProtoPos_proofs.

(* the response carrying the sequence number and the frame id a waiting call registered completes it with exactly
   that payload, and the call is over *)
Theorem c06_own_response_returns : forall st s f vs id c, reachable st ->
  aw_get s (p_awaiting st) = Some (f, id) -> call_get id (p_calls st) = Some c -> k_stage c = PWaiting ->
  In (OReturn id vs) (snd (proto_step st (EFrame (DOk s f false vs)))) /\
  call_get id (p_calls (fst (proto_step st (EFrame (DOk s f false vs))))) = None.
Proof. exact own_response_returns. Qed.

(* ... also when it is processed before send_data() has returned: it is recorded and returned then *)
Theorem c06_response_before_send_returns : forall st s f vs id c, reachable st ->
  aw_get s (p_awaiting st) = Some (f, id) -> call_get id (p_calls st) = Some c -> k_stage c = PSending ->
  In (OReturn id vs)
     (snd (proto_step (fst (proto_step st (EFrame (DOk s f false vs)))) (ESendDone id true))).
Proof. exact response_then_send_done_returns. Qed.

Theorem c06_invalid_command_raises : forall st s f f' vs id c, reachable st ->
  aw_get s (p_awaiting st) = Some (f, id) -> call_get id (p_calls st) = Some c -> k_stage c = PWaiting ->
  In (ORaise id KInvalidCommand) (snd (proto_step st (EFrame (DOk s f' true vs)))) /\
  call_get id (p_calls (fst (proto_step st (EFrame (DOk s f' true vs))))) = None.
Proof. exact invalid_command_raises. Qed.

Theorem c06_no_reply_times_out : forall st id c, reachable st -> call_get id (p_calls st) = Some c ->
  k_stage c = PWaiting ->
  In (ORaise id KTimeout) (snd (proto_step st (ETimeout id))) /\
  call_get id (p_calls (fst (proto_step st (ETimeout id)))) = None.
Proof. exact no_reply_times_out. Qed.

(* whenever the holder of the send slot ends in a step, the head of the queue is sent in that very step under the
   next sequence number and holds the slot *)
Theorem c06_slot_handed_on : forall st e id o p n id' q c', reachable st ->
  p_holder st = Some id -> p_queue st = (p, n, id') :: q -> call_get id' (p_calls st) = Some c' ->
  In o (snd (proto_step st e)) -> ends id o ->
  In (OSend id' (p_seq st) (k_fid c')) (snd (proto_step st e)) /\
  p_holder (fst (proto_step st e)) = Some id' /\ p_queue (fst (proto_step st e)) = q.
Proof. exact slot_handed_on. Qed.

(* ---- the tie to the source text ----------------------------------------------------------------------
   gen/GenProtoFn.v is emitted on every run from the Python AST of ProtocolHandler._get_command_priority, _ezsp_frame,
   command, __call__, the COMMANDS_BY_ID comprehension of __init__ (bellows/ezsp/protocol.py) and EZSP.frame_received
   (harness/pysrc.py: self._seq / self._awaiting are state variables, calls on other objects are effects in order,
   the three suspension points of command() resume as the parameters acq / sent / waited say).
   Vocabulary (proofs/ProtoSrc_proofs.v):
     aw_abs aw        the model's view of the source's _awaiting dict: (cmd_id, rx_schema, future) |-> (cmd_id, future)
     py_header_tx     the header writer emitted from the source of EZSPv4 / v5 / v8 (gen/GenEzspFn.v), by header kind
     end_of id s w    the model output that ends call id when send_data / the wait resume as s / w say
     out_of id r      the same for how the emitted coroutine ended (return value / exception)                         *)
Require Import BV.gen.GenCmd BV.model.EzspCases BV.gen.GenProtoFn BV.proofs.ProtoSrc_proofs.

(* the literal dict of _get_command_priority gives the priority the C06 table holds for every entry, every command
   name of every version is in that table with the source's priority, and -- for EVERY string -- it is the property's
   classes *)
Theorem c06_source_priority :
  (forall name p, In (name, p) PRIORITIES -> py_get_command_priority name = p)
  /\ (forall v cs c, In (v, cs) COMMANDS -> In c cs -> In (c_name c, py_get_command_priority (c_name c)) PRIORITIES)
  /\ (forall name, py_get_command_priority name = spec_priority name).
Proof. exact src_priority. Qed.

(* command() from the grant of the send slot on is [start_call]: same sequence counter and pending table at the call
   of send_data, the counter advanced by one modulo 256, the entry under the OLD number with the command's id and
   this call's future, the request handed to the gateway is the model's frame (header with the old number), the slot
   is asked for with the source's priority and released exactly once, last; the coroutine ends as [end_of] says *)
Theorem c06_source_command : forall schemas kind cs st aw c name cmd args data sent waited,
  find_by_name name cs = Some cmd -> k_fid c = c_id cmd -> aw_abs aw = p_awaiting st ->
  frame_tx schemas kind (p_seq st) cmd args = Some data -> waited_ok waited ->
  let '(seq', aw', effs, r) :=
    py_command schemas (py_header_tx kind cs) cs (p_seq st) aw name args (k_id c) AcqOk sent waited in
  let '(st', outs) := start_call st c in
  seq' = p_seq st' /\ aw_abs aw' = p_awaiting st' /\
  seq' = (p_seq st + 1) mod 256 /\ dict_get (p_seq st) aw' = Some (c_id cmd, c_rx cmd, k_id c) /\
  outs = [OSend (k_id c) (p_seq st) (c_id cmd)] /\
  (exists tl, effs = PAcquire (py_get_command_priority name) :: PSendData data :: tl
              /\ (tl = [PRelease] \/ tl = [PAwaitFuture (k_id c) EZSP_CMD_TIMEOUT; PRelease])) /\
  out_of (k_id c) r = Some (end_of (k_id c) sent waited).
Proof. exact src_command_send. Qed.

(* ... and the model's events for those resumptions end the call through [finish] (that output first, then the
   release of the slot) *)
Theorem c06_source_command_ends : forall st id c, call_get id (p_calls st) = Some c ->
  (k_stage c = PSending -> proto_step st (ESendDone id false) = finish st id (end_of id SentRaised WTimeout)) /\
  (k_stage c <> PQueued -> proto_step st (ECancel id) = finish st id (end_of id SentCancelled WTimeout)) /\
  (k_stage c = PWaiting -> k_reply c = RNone -> proto_step st (ETimeout id) = finish st id (end_of id SentOk WTimeout)) /\
  (forall vs, k_reply c = RValues vs -> complete_with_reply st c = finish st id (end_of id SentOk (WResult vs))) /\
  (k_reply c = RInvalidCommand -> complete_with_reply st c = finish st id (end_of id SentOk (WException XInvalidCommand))).
Proof. exact model_end_of. Qed.

(* cancelled while queued for the slot: nothing touched, nothing released (the model's ECancel of a queued call) *)
Theorem c06_source_command_cancelled_in_queue : forall schemas cs ftx seq aw name args fut sent waited,
  py_command schemas ftx cs seq aw name args fut AcqCancelled sent waited =
    (seq, aw, [PAcquire (py_get_command_priority name)], PyRaise XCancelled).
Proof. exact src_command_cancelled_in_queue. Qed.

(* a request that cannot be built leaves the counter and the pending table alone and gives the slot back *)
Theorem c06_source_command_build_fails : forall schemas cs ftx seq aw name args fut sent waited e,
  py_ezsp_frame schemas ftx cs seq name args = Exn e ->
  py_command schemas ftx cs seq aw name args fut AcqOk sent waited =
    (seq, aw, [PAcquire (py_get_command_priority name); PRelease], PyRaise e).
Proof. exact src_command_build_fails. Qed.

(* a fresh handler is the model's initial state *)
Theorem c06_source_init :
  fst py_init = p_seq p_init /\ aw_abs (snd py_init) = p_awaiting p_init /\ (forall cs, ids_known cs (snd py_init)).
Proof. exact src_init. Qed.

(* non-vacuity on the generated v8 table: getValue after 255 earlier commands, answered in time *)
Example c06_source_example :
  let '(seq', aw', effs, r) :=
    py_command SCHEMAS (py_header_tx 8 (commands_of 8)) (commands_of 8) 255 [] "getValue" [XP (VI 3)] 7
               AcqOk SentOk (WResult [XP (VI 0); XP (VB [1; 0])]) in
  seq' = 0 /\ aw_abs aw' = [(255, (0xAA, 7))] /\
  effs = [PAcquire 999%Z; PSendData [255; 0; 1; 0xAA; 0; 3]; PAwaitFuture 7 10; PRelease] /\
  r = PyValue [XP (VI 0); XP (VB [1; 0])].
Proof. vm_compute. repeat split. Qed.

(* ---- the racing schedule (model/EzspRace.v, proofs/EzspRace_proofs.v) ------------------------------------
   A frame and the expiry of the command timeout of the call that waits under the frame's sequence number in ONE
   event-loop iteration: asyncio runs the I/O callback (the entry is popped, the future resolved), then the due
   timer (the waiting task is cancelled before it resumed), and the call ends with TimeoutError whatever the frame
   carried ([race_step]; observed on the real classes, see the header of model/EzspRace.v; the correspondence
   runs this schedule through Driver.race_frame).
   Vocabulary (proofs/EzspRace_proofs.v):
     revent := REv e | RRace d ;  rstep / rrun ;  routs es, rfinal es, rcalls es, rcalls_unique es as above over rrun
     rreachable st := st = rfinal es for some es with rcalls_unique es
     frame_of e    := the frame an event hands to __call__ (REv (EFrame d) and RRace d)
     racing st d s expected call c := d carries number s, s is pending for (expected, call), call's record c is
                      waiting without a reply
     race_events st d := [EFrame (DOk s (expected + 1) false []); ETimeout call] when racing, [EFrame d] otherwise
     flat r        := (fst r, concat (snd r))                                                              *)
Require Import BV.model.EzspRace BV.proofs.EzspRace_proofs.

(* what the step is: the plain frame step when no call waits (without a reply) under the frame's number, otherwise
   the entry is popped and the call ends by the timeout, the slot being released *)
Theorem c06_race_step : forall st d,
  (race_step st d = proto_step st (EFrame d) /\ forall s e call c, ~ racing st d s e call c)
  \/ (exists s e call c, racing st d s e call c /\
        race_step st d = finish (pop_awaiting st s) call (ORaise call KTimeout)).
Proof. exact race_spec. Qed.

(* state and outputs of a race step are those of two plain events: a frame with a foreign frame id under that
   number (pops the entry, completes nobody), then the timeout of the call -- so every state reached with race
   steps is a state of the plain machine and all the theorems above that assume [reachable st] apply to it *)
Theorem c06_race_as_plain_events : forall st d, race_step st d = flat (proto_run st (race_events st d)).
Proof. exact race_as_plain. Qed.

Theorem c06_race_reachable : forall st, rreachable st -> reachable st.
Proof. exact rreachable_reachable. Qed.

(* the reply that races the timeout never completes a call with its payload ... *)
Theorem c06_race_never_returns : forall st d id vs, rreachable st -> ~ In (OReturn id vs) (snd (race_step st d)).
Proof. exact race_never_returns. Qed.

(* ... and a race never ends a DIFFERENT call: the only call that ends in a race step is the one that waits under
   the frame's own sequence number, sent under exactly that number, and it ends with the timeout *)
Theorem c06_race_no_cross : forall st d id o, rreachable st ->
  In o (snd (race_step st d)) -> ends id o ->
  o = ORaise id KTimeout /\
  exists s f inv vs f0 c, d = DOk s f inv vs /\ aw_get s (p_awaiting st) = Some (f0, id) /\
    call_get id (p_calls st) = Some c /\ k_stage c = PWaiting /\ k_seq c = s /\ k_fid c = f0.
Proof. exact race_no_cross. Qed.

(* the call under the frame's number raises the timeout in that very step -- whether the frame is its own response,
   an invalidCommand or another command's response --, it is over, and no pending entry names it any more *)
Theorem c06_race_times_out : forall st s f inv vs f0 id c, rreachable st ->
  aw_get s (p_awaiting st) = Some (f0, id) -> call_get id (p_calls st) = Some c -> k_stage c = PWaiting ->
  let r := race_step st (DOk s f inv vs) in
  In (ORaise id KTimeout) (snd r) /\
  call_get id (p_calls (fst r)) = None /\
  (forall s' f', ~ In (s', (f', id)) (p_awaiting (fst r))) /\
  ~ In (s, (f0, id)) (p_awaiting (fst r)).
Proof. exact race_times_out. Qed.

(* the frame that matched a pending entry is not handed to the callbacks; one that answers no pending call is
   delivered exactly once and nothing else happens; one for a call still inside send_data is the plain frame *)
Theorem c06_race_pending_not_callback : forall st s f inv vs x f' vs',
  aw_get s (p_awaiting st) = Some x ->
  ~ In (OCallback f' vs') (snd (race_step st (DOk s f inv vs))).
Proof. exact race_pending_not_callback. Qed.

Theorem c06_race_callbacks_once : forall st s f inv vs,
  aw_get s (p_awaiting st) = None ->
  race_step st (DOk s f inv vs) = (st, [OCallback f vs]).
Proof. exact race_callbacks_once. Qed.

Theorem c06_race_while_sending : forall st s f inv vs f0 id c,
  aw_get s (p_awaiting st) = Some (f0, id) -> call_get id (p_calls st) = Some c -> k_stage c = PSending ->
  race_step st (DOk s f inv vs) = proto_step st (EFrame (DOk s f inv vs)).
Proof. exact race_while_sending. Qed.

(* the send slot is released and handed to the head of the queue (priority order) in the same step, under the next
   sequence number: for every step of a run with race steps, and for the race step in particular *)
Theorem c06_race_slot_handed_on_any_step : forall st e id o p n id' q c', rreachable st ->
  p_holder st = Some id -> p_queue st = (p, n, id') :: q -> call_get id' (p_calls st) = Some c' ->
  In o (snd (rstep st e)) -> ends id o ->
  In (OSend id' (p_seq st) (k_fid c')) (snd (rstep st e)) /\
  p_holder (fst (rstep st e)) = Some id' /\ p_queue (fst (rstep st e)) = q.
Proof. exact rslot_handed_on. Qed.

Theorem c06_race_slot_handed_on : forall st s f inv vs f0 id c p n id' q c', rreachable st ->
  aw_get s (p_awaiting st) = Some (f0, id) -> call_get id (p_calls st) = Some c -> k_stage c = PWaiting ->
  p_queue st = (p, n, id') :: q -> call_get id' (p_calls st) = Some c' ->
  let r := race_step st (DOk s f inv vs) in
  In (OSend id' (p_seq st) (k_fid c')) (snd r) /\ p_holder (fst r) = Some id' /\ p_queue (fst r) = q.
Proof. exact race_slot_handed_on. Qed.

Theorem c06_race_slot_released : forall st s f inv vs f0 id c, rreachable st ->
  aw_get s (p_awaiting st) = Some (f0, id) -> call_get id (p_calls st) = Some c -> k_stage c = PWaiting ->
  p_queue st = [] -> p_holder (fst (race_step st (DOk s f inv vs))) = None.
Proof. exact race_slot_released. Qed.

(* the slot / queue / calls invariant ([Inv], proofs/EzspProto_proofs.v: in-flight calls hold the slot, the queue
   lists exactly the queued calls in priority order, nobody queues while the slot is free, a waiting call has no
   reply) is kept by every step, race steps included *)
Theorem c06_race_invariant_kept : forall st e, Inv st ->
  (forall id p f, e = REv (ECall id p f) -> call_get id (p_calls st) = None) ->
  Inv (fst (rstep st e)).
Proof. exact rstep_Inv. Qed.

(* the run-level statements of C06 over every run with race steps *)
Theorem c06_race_one_in_flight : forall es, rcalls_unique es ->
  (List.length (in_flight (rfinal es)) <= 1)%nat /\
  (forall c, In c (in_flight (rfinal es)) -> p_holder (rfinal es) = Some (k_id c)).
Proof. exact rone_in_flight. Qed.

Theorem c06_race_priority_order : forall es, rcalls_unique es ->
  StronglySorted q_before (p_queue (rfinal es)).
Proof. exact rqueue_sorted. Qed.

Theorem c06_race_no_slot_leak : forall es, rcalls_unique es ->
  p_holder (rfinal es) = None -> p_queue (rfinal es) = [] /\ in_flight (rfinal es) = [].
Proof. exact rno_slot_leak. Qed.

Theorem c06_race_slot_held_by_in_flight : forall es h, rcalls_unique es ->
  p_holder (rfinal es) = Some h -> exists c, In c (in_flight (rfinal es)) /\ k_id c = h.
Proof. exact rholder_in_flight. Qed.

Theorem c06_race_seq_mod_256 : forall es, rcalls_unique es ->
  map (fun x => snd (fst x)) (sends (routs es)) =
    map (fun k => N.of_nat k mod 256) (seq 0 (List.length (sends (routs es)))).
Proof. exact rseq_consecutive. Qed.

Theorem c06_race_own_response : forall es id vs, rcalls_unique es ->
  In (OReturn id vs) (routs es) ->
  exists es1 e es2 s f, es = es1 ++ e :: es2 /\ frame_of e = Some (DOk s f false vs) /\
                        In (OSend id s f) (routs es1).
Proof. exact rown_response. Qed.

(* frames handled by plain steps after (or before) a race complete only the call registered under their number:
   the frame that raced, arriving again, completes nobody *)
Theorem c06_race_later_frames_no_cross : forall st s f inv vs id vs', rreachable st ->
  In (OReturn id vs') (snd (proto_step st (EFrame (DOk s f inv vs)))) ->
  aw_get s (p_awaiting st) = Some (f, id) /\ inv = false /\ vs' = vs.
Proof. exact rno_cross. Qed.

(* non-vacuity: call 1 (ordinary) waits under number 0, call 2 (keep-alive) is queued; the reply of call 1 is handled
   in the iteration in which its timeout expires: call 1 raises the timeout, call 2 is sent under number 1 in the
   same step; the same frame once more goes to the callbacks *)
Example c06_race_example :
  let d := DOk 0 10 false [XNone] in
  let es := [REv (ECall 1 0 10); REv (ECall 2 999 5); REv (ESendDone 1 true); RRace d; REv (EFrame d)] in
  nth 3 (snd (rrun p_init es)) [] = [ORaise 1 KTimeout; OSend 2 1 5] /\
  nth 4 (snd (rrun p_init es)) [] = [OCallback 10 [XNone]] /\
  p_awaiting (rfinal es) = [(1, (5, 2))] /\ p_holder (rfinal es) = Some 2.
Proof. vm_compute. repeat split. Qed.
