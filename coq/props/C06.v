(* C06 -- each EZSP command gets its own response; one in flight; keep-alives go first.
   Statements only; proofs in proofs/EzspProto_proofs.v.  [proto_step] transliterates
   ProtocolHandler.command/__call__ with the priority semaphore's contract; it is tied to the real
   classes (and the real zigpy semaphore) by the C06 correspondence. *)
From Coq Require Import String ZArith NArith List Bool Sorting.Sorted.
Import ListNotations.
Require Import BV.lib.EzspTypes BV.gen.GenProto BV.model.EzspCodec BV.model.EzspProto BV.proofs.EzspProto_proofs.
Open Scope N_scope.

(* vocabulary (proofs file):
   outs es      := concat (snd (proto_run p_init es))         final es := fst (proto_run p_init es)
   calls es     := ids of the ECall events ;  calls_unique es := NoDup (calls es)
   sends l      := the (id, seq, fid) of the OSend outputs of l, in order
   in_flight st := the calls of st whose stage is PSending or PWaiting
   q_before a b := a precedes-or-equals b in the queue order: higher priority first, then earlier arrival
   reachable st := st = final es for some es with calls_unique es
   spec_priority name := 999 for nop/readCounters/readAndClearCounters/getValue, -1 for sendUnicast/
                   sendMulticast/sendBroadcast/setSourceRoute/setExtendedTimeout, 0 otherwise *)

(* a call returns exactly the payload of a frame that carried the sequence number and frame id of
   its own request, received after that request was sent *)
Theorem c06_own_response : forall es id vs, calls_unique es ->
  In (OReturn id vs) (outs es) ->
  exists es1 es2 s f, es = es1 ++ EFrame (DOk s f false vs) :: es2 /\ In (OSend id s f) (outs es1).
Proof. exact own_response. Qed.

(* one frame completes at most the call registered under its sequence number, and only when the
   frame id is the one that call sent: late, duplicate or foreign frames complete nobody else *)
(* CORRECTED: first stated for every st, which is false of a record that cannot arise: in
     st = {| p_seq := 1; p_awaiting := [(0, (10, 1))]; p_holder := Some 1; p_queue := []; p_counter := 0;
             p_calls := [{| k_id := 1; k_prio := 0; k_fid := 10; k_seq := 0; k_stage := PWaiting;
                            k_reply := RValues [XNone] |}] |}
   (a call still waiting although its reply is already recorded) the frames DOk 0 10 true [] and
   DOk 0 10 false [] both produce [OReturn 1 [XNone]]: inv = true resp. vs' <> vs.  In a reachable
   state a waiting call has no reply recorded (a reply completes it at once), hence [reachable st]. *)
Theorem c06_no_cross : forall st s f inv vs id vs', reachable st ->
  In (OReturn id vs') (snd (proto_step st (EFrame (DOk s f inv vs)))) ->
  aw_get s (p_awaiting st) = Some (f, id) /\ inv = false /\ vs' = vs.
Proof. exact no_cross. Qed.

(* a frame that answers no pending call goes to the callbacks exactly once, and does nothing else;
   a frame that does answer one is not a callback *)
Theorem c06_callbacks_once : forall st s f inv vs,
  aw_get s (p_awaiting st) = None ->
  proto_step st (EFrame (DOk s f inv vs)) = (st, [OCallback f vs]).
Proof. exact callbacks_once. Qed.

Theorem c06_pending_not_callback : forall st s f inv vs x f' vs',
  aw_get s (p_awaiting st) = Some x ->
  ~ In (OCallback f' vs') (snd (proto_step st (EFrame (DOk s f inv vs)))).
Proof. exact pending_not_callback. Qed.

(* the command timeout ends a call that is still waiting *)
(* CORRECTED: first stated for every st, which is false when p_calls lists the same call id twice:
   with c = {| k_id := 1; k_prio := 0; k_fid := 10; k_seq := 0; k_stage := PWaiting; k_reply := RNone |}
   and st = {| p_seq := 1; p_awaiting := []; p_holder := Some 1; p_queue := []; p_counter := 0;
               p_calls := [c; c] |},  call_get 1 (p_calls (fst (proto_step st (ETimeout 1)))) = Some c.
   Reachable states list each call once, hence [reachable st]. *)
Theorem c06_timeout : forall st id c, reachable st -> call_get id (p_calls st) = Some c ->
  k_stage c = PWaiting -> k_reply c = RNone ->
  In (ORaise id KTimeout) (snd (proto_step st (ETimeout id))) /\
  call_get id (p_calls (fst (proto_step st (ETimeout id)))) = None.
Proof. exact timeout_raises. Qed.

(* at most one command is sending or awaiting its response, and it is the holder of the slot *)
Theorem c06_one_in_flight : forall es, calls_unique es ->
  (List.length (in_flight (final es)) <= 1)%nat /\
  (forall c, In c (in_flight (final es)) -> p_holder (final es) = Some (k_id c)).
Proof. exact one_in_flight. Qed.

Theorem c06_concurrency_pinned : MAX_COMMAND_CONCURRENCY = 1.
Proof. reflexivity. Qed.

(* queued commands start in priority order, first come first served within a priority: the queue
   is always sorted that way and the slot goes to its head *)
Theorem c06_priority_order : forall es, calls_unique es ->
  StronglySorted q_before (p_queue (final es)).
Proof. exact queue_sorted. Qed.

Theorem c06_head_starts : forall st p n id q c, p_queue st = (p, n, id) :: q ->
  call_get id (p_calls st) = Some c ->
  exists s, In (OSend id s (k_fid c)) (snd (release st)).
Proof. exact head_starts. Qed.

(* nobody waits while the slot is free: no exit path leaks the slot *)
Theorem c06_no_slot_leak : forall es, calls_unique es ->
  p_holder (final es) = None -> p_queue (final es) = [] /\ in_flight (final es) = [].
Proof. exact no_slot_leak. Qed.

(* ADDED (the other half of "no exit path leaks the slot"): a slot that is held is held by a call
   that is sending or waiting, never by a call that has ended *)
Theorem c06_slot_held_by_in_flight : forall es h, calls_unique es ->
  p_holder (final es) = Some h -> exists c, In c (in_flight (final es)) /\ k_id c = h.
Proof. exact holder_in_flight. Qed.

(* the priority classes named by the property, over every command name of every version
   ([spec_priority] is defined in the proofs file) *)
Theorem c06_priority_classes : forall name p, In (name, p) PRIORITIES -> p = spec_priority name.
Proof. exact priority_classes. Qed.

(* request sequence numbers advance by one modulo 256 *)
Theorem c06_seq_mod_256 : forall es, calls_unique es ->
  map (fun x => snd (fst x)) (sends (outs es)) =
    map (fun k => N.of_nat k mod 256) (seq 0 (List.length (sends (outs es)))).
Proof. exact seq_consecutive. Qed.

(* non-vacuity: a packet-send command queued first is overtaken by a keep-alive queued later *)
Example c06_example :
  let es := [ECall 1 0 10; ECall 2 (-1) 52; ECall 3 999 5; ESendDone 1 true;
             EFrame (DOk 0 10 false []); ESendDone 3 true; EFrame (DOk 1 5 false [])] in
  sends (outs es) = [(1, 0, 10); (3, 1, 5); (2, 2, 52)].
Proof. vm_compute. reflexivity. Qed.

(* ---- the positive halves (proofs/EzspProtoPos_proofs.v) ------------------------------------------------ *)
Require Import BV.proofs.EzspProtoPos_proofs.

(* the response carrying the sequence number and the frame id a waiting call registered completes it with exactly
   that payload, and the call is over *)
Theorem c06_own_response_returns : forall st s f vs id c, reachable st ->
  aw_get s (p_awaiting st) = Some (f, id) -> call_get id (p_calls st) = Some c -> k_stage c = PWaiting ->
  In (OReturn id vs) (snd (proto_step st (EFrame (DOk s f false vs)))) /\
  call_get id (p_calls (fst (proto_step st (EFrame (DOk s f false vs))))) = None.
Proof. exact own_response_returns. Qed.

(* ... also when it is processed before send_data() has returned: it is recorded and returned then *)
Theorem c06_response_before_send_returns : forall st s f vs id c, reachable st ->
  aw_get s (p_awaiting st) = Some (f, id) -> call_get id (p_calls st) = Some c -> k_stage c = PSending ->
  In (OReturn id vs)
     (snd (proto_step (fst (proto_step st (EFrame (DOk s f false vs)))) (ESendDone id true))).
Proof. exact response_then_send_done_returns. Qed.

Theorem c06_invalid_command_raises : forall st s f f' vs id c, reachable st ->
  aw_get s (p_awaiting st) = Some (f, id) -> call_get id (p_calls st) = Some c -> k_stage c = PWaiting ->
  In (ORaise id KInvalidCommand) (snd (proto_step st (EFrame (DOk s f' true vs)))) /\
  call_get id (p_calls (fst (proto_step st (EFrame (DOk s f' true vs))))) = None.
Proof. exact invalid_command_raises. Qed.

Theorem c06_no_reply_times_out : forall st id c, reachable st -> call_get id (p_calls st) = Some c ->
  k_stage c = PWaiting ->
  In (ORaise id KTimeout) (snd (proto_step st (ETimeout id))) /\
  call_get id (p_calls (fst (proto_step st (ETimeout id)))) = None.
Proof. exact no_reply_times_out. Qed.

(* whenever the holder of the send slot ends in a step, the head of the queue is sent in that very step under the
   next sequence number and holds the slot *)
Theorem c06_slot_handed_on : forall st e id o p n id' q c', reachable st ->
  p_holder st = Some id -> p_queue st = (p, n, id') :: q -> call_get id' (p_calls st) = Some c' ->
  In o (snd (proto_step st e)) -> ends id o ->
  In (OSend id' (p_seq st) (k_fid c')) (snd (proto_step st e)) /\
  p_holder (fst (proto_step st e)) = Some id' /\ p_queue (fst (proto_step st e)) = q.
Proof. exact slot_handed_on. Qed.
