(* C09 -- bring-up negotiates the NCP's protocol version and frames everything accordingly.
   Statements only; proofs in proofs/Bringup_proofs.v.  [bring_up] transliterates
   EZSP.startup_reset/reset/version/_switch_protocol_version; supported versions, the newest version,
   header kinds and the default-config tables come from the generated files.  Tied to the code by the
   C09 correspondence on the full stack (real ASH, Gateway, EZSP) against a simulated NCP. *)
From Coq Require Import NArith List Bool.
Import ListNotations.
Require Import BV.gen.GenConfig BV.gen.GenCmd BV.model.EzspCodec BV.model.EzspCases BV.model.Config
               BV.model.Bringup BV.proofs.Bringup_proofs.
Open Scope N_scope.

(* adopted v := v when bellows has command tables for v, else the newest version it knows *)

(* every NCP version (any number at all): the first version query is in the legacy 3-byte format
   and asks for version 4 *)
Theorem c09_first_query_legacy : forall ncp_v, hd None (snd (bring_up ncp_v)) = Some [0; 0; 0; 4].
Proof. exact first_query_legacy. Qed.

(* the reported version is adopted; its own tables when supported, the newest known ones otherwise *)
Theorem c09_adopts : forall ncp_v,
  b_version (fst (bring_up ncp_v)) = ncp_v /\ b_handler (fst (bring_up ncp_v)) = adopted ncp_v.
Proof. exact adopts. Qed.

(* a second query, in the new format, exactly when the version differs from 4 *)
Theorem c09_second_query : forall ncp_v, ncp_v <> 4 -> 4 <= ncp_v ->
  List.length (snd (bring_up ncp_v)) = 2%nat /\
  nth 1 (snd (bring_up ncp_v)) None =
    Some (if adopted ncp_v <? 8 then [0; 0x00; 0xFF; 0x00; 0; ncp_v mod 256]
          else [0; 0x00; 0x01; 0; 0; ncp_v mod 256]).
Proof.
  intros v Hne Hge. split; [rewrite (second_query v Hne); reflexivity | apply second_query_layout; assumption].
Qed.

Theorem c09_no_second_query_v4 : snd (bring_up 4) = [Some [0; 0; 0; 4]].
Proof. exact no_second_query_v4. Qed.

(* from then on every frame is formatted for the adopted version *)
Theorem c09_framing : forall ncp_v fid,
  later_header (fst (bring_up ncp_v)) fid =
    header_tx (if adopted ncp_v =? 4 then 4 else if adopted ncp_v <? 8 then 5 else 8)
              (b_seq (fst (bring_up ncp_v))) fid.
Proof. exact framing. Qed.

(* so that the default configuration can be written: a default table exists for the adopted handler,
   for every reported version including unknown newer ones *)
Theorem c09_config_total : forall ncp_v,
  config_table_defined (fst (bring_up ncp_v)) = true /\ config_defaults (b_handler (fst (bring_up ncp_v))) <> [].
Proof. intros v. split; [apply config_total | apply config_defaults_nonempty]. Qed.

(* after every later reset, framing falls back to the legacy format until negotiation is repeated,
   and the repeated negotiation is the same as the first *)
Theorem c09_after_reset_legacy : forall st,
  b_handler (do_reset st) = 4 /\ b_version (do_reset st) = 4 /\
  version_frame (do_reset st) (b_version (do_reset st)) = Some [0; 0; 0; 4].
Proof. exact after_reset_legacy. Qed.

Theorem c09_second_bringup : forall ncp_v st, do_version (do_reset st) ncp_v = bring_up ncp_v.
Proof. exact second_bringup_same. Qed.

Theorem c09_pinned : SUPPORTED_VERSIONS = [4; 5; 6; 7; 8; 9; 10; 11; 12; 13; 14] /\ EZSP_LATEST = 14.
Proof. split; reflexivity. Qed.

Example c09_example :
  snd (bring_up 13) = [Some [0; 0; 0; 4]; Some [0; 0; 1; 0; 0; 13]] /\ b_handler (fst (bring_up 200)) = 14
  /\ snd (bring_up 6) = [Some [0; 0; 0; 4]; Some [0; 0; 0xFF; 0; 0; 6]].
Proof. vm_compute. repeat split. Qed.

(* ---- the tie to the source text --------------------------------------------------------------------
   gen/GenBringupFn.v is emitted on every run from the Python AST of EZSP.startup_reset / reset / version /
   _switch_protocol_version / _command / start_ezsp / stop_ezsp / connect / __init__
   (bellows/ezsp/__init__.py): one Gallina function per method over the state (_ezsp_version, VERSION of
   the protocol handler object, _ezsp_event set, effects so far); the outcome of every await is an
   argument (the version the NCP reports; whether the reset wait / the reset handshake times out);
   `if version not in self._BY_VERSION: version = EZSP_LATEST` and `if ver != self.ezsp_version:` are
   emitted as written, over the keys of the live dict and the live constant.  Effects: BReset (the ASH
   reset handshake), BNewHandler v (a new handler object of class VERSION v), BRunning b (start / stop),
   BCommand name arg h (the command issued through the handler object of VERSION h).  [replay] turns
   effects into the frames the handler objects build (a new object starts at sequence number
   py_handler_seq_init, a command advances it: both read from ProtocolHandler's source).
   Below v, the version the NCP reports, is ANY number. *)
Require Import BV.gen.GenBringupFn BV.proofs.BringupSrc_proofs.
From Coq Require Import String.

(* EZSP.version() from any running state: the query goes through the handler in use and asks for the
   current version; the reported version is adopted (its own tables when supported, else the newest) and
   confirmed through the adopted handler exactly when it differs; state and frames are [do_version]'s *)
Theorem c09_source_version : forall st v x eff, b_handler st <> 0 -> b_running st = true ->
  py_EZSP_version_k (b_version st, b_handler st, true, eff) (AVal v) (AVal x)
    = (b_version (fst (do_version st v)), b_handler (fst (do_version st v)), true,
       eff ++ BCommand "version" (b_version st) (b_handler st) ::
              (if v =? b_version st then [] else [BNewHandler (adopted v); BCommand "version" v (adopted v)]),
       ORet 0)
  /\ replay (b_seq st) (version_effs (b_version st) (b_handler st) v)
       = (b_seq (fst (do_version st v)), snd (do_version st v)).
Proof. exact src_version_model. Qed.

(* the whole bring-up (__init__, connect, startup_reset) on a serial path (tcp = false) or a socket path
   (tcp = true; the start-up reset is seen, w = AVal _, or the wait times out): it returns normally with
   _ezsp_version = v and the handler adopted for v, EZSP running; the first query is issued through the v4
   handler asking for 4, the second, iff v <> 4, through the adopted handler asking for v; the frames and
   the final state are those of [bring_up v], about which the theorems above speak *)
Theorem c09_source_bring_up : forall tcp w r v x, (tcp = true -> w <> AOtherError) ->
  py_EZSP_startup_reset_k py_connected tcp w (AVal r) (AVal v) (AVal x)
    = (v, adopted v, true,
       [BNewHandler 4]
       ++ (if tcp then [BWaitStartupReset (Some py_NETWORK_COORDINATOR_STARTUP_RESET_WAIT)] else [])
       ++ (if reset_seen tcp w then [BNewHandler 4; BRunning true] else [BRunning false; BReset; BNewHandler 4; BRunning true])
       ++ BCommand "version" 4 4 :: (if v =? 4 then [] else [BNewHandler (adopted v); BCommand "version" v (adopted v)]),
       ORet 0)
  /\ bring_up v = ({| b_version := v; b_handler := adopted v; b_running := true;
                      b_seq := fst (replay 0 (bringup_effs tcp w v)) |},
                   snd (replay 0 (bringup_effs tcp w v))).
Proof. exact src_bring_up. Qed.

(* A LATER start-up round (ControllerApplication._reset(): stop_ezsp() then startup_reset() on the same object), from
   ANY stopped state -- whatever version had been negotiated and whatever handler object is installed: whether the host
   requests the reset or, on a socket path, the NCP's own reset is seen during the start-up wait, the v4 handler is
   installed again before the first version query, and the frames on the wire are those of the first bring-up.
   (Before the repair 2dcaf68 the "reset seen" path kept the old handler: from the state (13, 13) the first query after
   the NCP's reset went out in the extended format; found by the C09 correspondence, see DESIGN.md section 8.) *)
Theorem c09_source_later_startup_reset : forall zv h eff tcp w r v x, (tcp = true -> w <> AOtherError) ->
  py_EZSP_startup_reset_k (zv, h, false, eff) tcp w (AVal r) (AVal v) (AVal x)
    = (v, adopted v, true,
       eff ++ (if tcp then [BWaitStartupReset (Some py_NETWORK_COORDINATOR_STARTUP_RESET_WAIT)] else [])
           ++ (if reset_seen tcp w then [BNewHandler 4; BRunning true] else [BRunning false; BReset; BNewHandler 4; BRunning true])
           ++ BCommand "version" 4 4 :: (if v =? 4 then [] else [BNewHandler (adopted v); BCommand "version" v (adopted v)]),
       ORet 0).
Proof. exact src_startup_reset_any. Qed.

Theorem c09_source_later_startup_frames : forall tcp w v seq,
  snd (replay seq (startup_effs tcp w v)) = snd (bring_up v).
Proof. exact src_startup_reset_frames. Qed.

(* EZSP.reset() from ANY state: stop, reset handshake, back to the v4 handler (a new object: sequence
   number 0) and version 4, only then start -- the state is [do_reset]'s *)
Theorem c09_source_reset_falls_back : forall st x eff,
  py_EZSP_reset_k (b_version st, b_handler st, b_running st, eff) (AVal x)
    = (b_version (do_reset st), b_handler (do_reset st), b_running (do_reset st),
       eff ++ [BRunning false; BReset; BNewHandler 4; BRunning true], ORet 0)
  /\ replay (b_seq st) reset_effs = (b_seq (do_reset st), []).
Proof. exact src_reset_model. Qed.

(* and the negotiation after a later reset is the first one again *)
Theorem c09_source_reset_then_version : forall st r v x eff,
  let '(zv, h, run, eff1, _) := py_EZSP_reset_k (b_version st, b_handler st, b_running st, eff) (AVal r) in
  py_EZSP_version_k (zv, h, run, eff1) (AVal v) (AVal x)
    = (b_version (fst (bring_up v)), b_handler (fst (bring_up v)), true,
       eff ++ reset_effs ++ version_effs 4 4 v, ORet 0)
  /\ replay (b_seq st) (reset_effs ++ version_effs 4 4 v) = (b_seq (fst (bring_up v)), snd (bring_up v)).
Proof. exact src_reset_then_version. Qed.

(* a reset handshake that fails leaves EZSP stopped, and a stopped EZSP refuses a command without sending it *)
Theorem c09_source_reset_failed : forall zv h run eff r, r = ATimeoutError \/ r = AOtherError ->
  exists e, py_EZSP_reset_k (zv, h, run, eff) r = (zv, h, false, eff ++ [BRunning false; BReset], OExn e).
Proof. exact src_reset_failed. Qed.

Theorem c09_source_command_not_running : forall zv h eff name arg a, h <> 0 ->
  py_EZSP__command_k (zv, h, false, eff) name arg a = (zv, h, false, eff, OExn XEzspError).
Proof. exact src_command_not_running. Qed.

Example c09_source_example :
  snd (replay 0 (bringup_effs false ATimeoutError 13)) = [Some [0; 0; 0; 4]; Some [0; 0; 1; 0; 0; 13]]
  /\ snd (replay 0 (bringup_effs true (AVal 0) 200)) = [Some [0; 0; 0; 4]; Some [0; 0; 1; 0; 0; 200]].
Proof. vm_compute. split; reflexivity. Qed.
