(* C09 -- bring-up negotiates the NCP's protocol version and frames everything accordingly.
   Statements only; proofs in proofs/Bringup_proofs.v.  [bring_up] transliterates
   EZSP.startup_reset/reset/version/_switch_protocol_version; supported versions, the newest version,
   header kinds and the default-config tables come from the generated files.  Tied to the code by the
   C09 correspondence on the full stack (real ASH, Gateway, EZSP) against a simulated NCP. *)
From Coq Require Import NArith List Bool.
Import ListNotations.
Require Import BV.gen.GenConfig BV.gen.GenCmd BV.model.EzspCodec BV.model.EzspCases BV.model.Config
               BV.model.Bringup BV.proofs.Bringup_proofs.
Open Scope N_scope.

(* adopted v := v when bellows has command tables for v, else the newest version it knows *)

(* every NCP version (any number at all): the first version query is in the legacy 3-byte format
   and asks for version 4 *)
Theorem c09_first_query_legacy : forall ncp_v, hd None (snd (bring_up ncp_v)) = Some [0; 0; 0; 4].
Proof. exact first_query_legacy. Qed.

(* the reported version is adopted; its own tables when supported, the newest known ones otherwise *)
Theorem c09_adopts : forall ncp_v,
  b_version (fst (bring_up ncp_v)) = ncp_v /\ b_handler (fst (bring_up ncp_v)) = adopted ncp_v.
Proof. exact adopts. Qed.

(* a second query, in the new format, exactly when the version differs from 4 *)
Theorem c09_second_query : forall ncp_v, ncp_v <> 4 -> 4 <= ncp_v ->
  List.length (snd (bring_up ncp_v)) = 2%nat /\
  nth 1 (snd (bring_up ncp_v)) None =
    Some (if adopted ncp_v <? 8 then [0; 0x00; 0xFF; 0x00; 0; ncp_v mod 256]
          else [0; 0x00; 0x01; 0; 0; ncp_v mod 256]).
Proof.
  intros v Hne Hge. split; [rewrite (second_query v Hne); reflexivity | apply second_query_layout; assumption].
Qed.

Theorem c09_no_second_query_v4 : snd (bring_up 4) = [Some [0; 0; 0; 4]].
Proof. exact no_second_query_v4. Qed.

(* from then on every frame is formatted for the adopted version *)
Theorem c09_framing : forall ncp_v fid,
  later_header (fst (bring_up ncp_v)) fid =
    header_tx (if adopted ncp_v =? 4 then 4 else if adopted ncp_v <? 8 then 5 else 8)
              (b_seq (fst (bring_up ncp_v))) fid.
Proof. exact framing. Qed.

(* so that the default configuration can be written: a default table exists for the adopted handler,
   for every reported version including unknown newer ones *)
Theorem c09_config_total : forall ncp_v,
  config_table_defined (fst (bring_up ncp_v)) = true /\ config_defaults (b_handler (fst (bring_up ncp_v))) <> [].
Proof. intros v. split; [apply config_total | apply config_defaults_nonempty]. Qed.

(* after every later reset, framing falls back to the legacy format until negotiation is repeated,
   and the repeated negotiation is the same as the first *)
Theorem c09_after_reset_legacy : forall st,
  b_handler (do_reset st) = 4 /\ b_version (do_reset st) = 4 /\
  version_frame (do_reset st) (b_version (do_reset st)) = Some [0; 0; 0; 4].
Proof. exact after_reset_legacy. Qed.

Theorem c09_second_bringup : forall ncp_v st, do_version (do_reset st) ncp_v = bring_up ncp_v.
Proof. exact second_bringup_same. Qed.

Theorem c09_pinned : SUPPORTED_VERSIONS = [4; 5; 6; 7; 8; 9; 10; 11; 12; 13; 14] /\ EZSP_LATEST = 14.
Proof. split; reflexivity. Qed.

Example c09_example :
  snd (bring_up 13) = [Some [0; 0; 0; 4]; Some [0; 0; 1; 0; 0; 13]] /\ b_handler (fst (bring_up 200)) = 14
  /\ snd (bring_up 6) = [Some [0; 0; 0; 4]; Some [0; 0; 0xFF; 0; 0; 6]].
Proof. vm_compute. repeat split. Qed.
