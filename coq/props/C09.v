Require Import BV.model.Bringup.
