(* C17 -- event-completed operations never miss their completing event or leak listeners.
   Statements only; proofs in proofs/Events_proofs.v.  [estep] transliterates wait_for_stack_status /
   stack_status_callback / formNetwork / leaveNetwork / _list_command / _ensure_network_running; it is
   tied to the real EZSP and ControllerApplication by the C17 correspondence. *)
From Coq Require Import String ZArith NArith List Bool.
Import ListNotations.
Require Import BV.gen.GenStatus BV.gen.GenProto BV.gen.GenApp BV.model.Status BV.model.Events BV.proofs.Events_proofs.
Open Scope N_scope.

(* vocabulary (proofs file):
   efinal es := fst (erun e_init es)        eouts es := concat (snd (erun e_init es))
   idle st   := active st = None /\ listeners st = [] /\ scan_cbs st = 0
   matching k c := c = CStatus (wanted k)   (for k <> OScan)
   op_run k body := EStart k :: body   where body contains no EStart                                   *)

(* the statuses waited for are the unified NETWORK_UP / NETWORK_DOWN of the generated enum *)
Theorem c17_statuses_pinned :
  member "NETWORK_UP" sl_members = Some NETWORK_UP /\ member "NETWORK_DOWN" sl_members = Some NETWORK_DOWN
  /\ NETWORK_OPS_TIMEOUT = 10 /\ NETWORK_UP_TIMEOUT_S = 10.
Proof. vm_compute. repeat split. Qed.

(* form / leave / bring-up complete only after BOTH the command was accepted and the matching
   stack-status event was processed after the operation was issued.
   (As first written this theorem carried the extra hypothesis
      In (EReply true false) body \/ In (EReply true true) body
    which is redundant -- c17_complete_needs_accept derives it -- and only weakened the statement; it is
    dropped.  No counterexample: the original was true, just weaker.) *)
Theorem c17_complete_iff : forall st body k r, idle st -> k <> OScan -> ~ (exists k', In (EStart k') body) ->
  In (ODone k (DoneOk r)) (concat (snd (erun st (EStart k :: body)))) ->
  exists l, In (ECallbacks l) body /\ In (CStatus (wanted k)) l.
Proof. exact complete_needs_event. Qed.

(* ORDER: the successful completion is output at a definite step [e] of the body, and the accepting reply
   and (for form / leave / bring-up) the matching batch both occur after the EStart and no later than
   that step (the completing step is itself whichever of the two came last) *)
Theorem c17_complete_order : forall st body k r, idle st -> ~ (exists k', In (EStart k') body) ->
  In (ODone k (DoneOk r)) (concat (snd (erun st (EStart k :: body)))) ->
  exists b1 e b2, body = b1 ++ e :: b2 /\
    In (ODone k (DoneOk r)) (snd (estep (fst (erun st (EStart k :: b1))) e)) /\
    (exists nj, In (EReply true nj) (b1 ++ [e])) /\
    (k <> OScan -> exists l, In (ECallbacks l) (b1 ++ [e]) /\ In (CStatus (wanted k)) l).
Proof. exact complete_order. Qed.

Theorem c17_complete_needs_accept : forall st body k r, idle st -> ~ (exists k', In (EStart k') body) ->
  In (ODone k (DoneOk r)) (concat (snd (erun st (EStart k :: body)))) ->
  exists nj, In (EReply true nj) body.
Proof. exact complete_needs_accept. Qed.

(* the event is observed whenever it arrives after the command was issued -- before or after the
   command's own response: the operation then completes, it does not time out *)
Theorem c17_not_missed_before_reply : forall st k l nj, idle st -> k <> OScan -> In (CStatus (wanted k)) l ->
  concat (snd (erun st [EStart k; ECallbacks l; EReply true nj])) = [OCommand k; ODone k (DoneOk [])].
Proof. exact not_missed_before_reply. Qed.

Theorem c17_not_missed_after_reply : forall st k l nj, idle st -> k <> OScan -> In (CStatus (wanted k)) l ->
  concat (snd (erun st [EStart k; EReply true nj; ECallbacks l])) = [OCommand k; ODone k (DoneOk [])].
Proof. exact not_missed_after_reply. Qed.

(* refusal and timeout raise *)
Theorem c17_refused : forall st k, idle st ->
  concat (snd (erun st [EStart k; EReply false false])) = [OCommand k; ODone k DoneRefused].
Proof. exact refused_raises. Qed.

Theorem c17_timeout : forall st k l nj, idle st -> k <> OScan -> ~ In (CStatus (wanted k)) l ->
  concat (snd (erun st [EStart k; EReply true nj; ECallbacks l; ETimeout])) = [OCommand k; ODone k DoneTimeout].
Proof. exact timeout_raises. Qed.

(* a scan returns, in order, every result callback processed between issuing it and its completion
   callback (the model, like the code, also keeps results that arrive in the SAME read after the
   completion callback), and none processed before it was issued *)
Theorem c17_scan_results : forall st before l1 l2 nj, idle st ->
  ~ In (CComplete true) l1 -> ~ In (CComplete false) l1 ->
  concat (snd (erun st [ECallbacks before; EStart OScan; EReply true nj; ECallbacks l1; ECallbacks (CComplete true :: l2)]))
  = [OCommand OScan;
     ODone OScan (DoneOk (flat_map (fun c => match c with CItem r => [r] | _ => [] end) (l1 ++ l2)))].
Proof. exact scan_results. Qed.

(* when an operation ends -- success, refusal, timeout, failed completion or cancellation -- no
   listener or callback registered for it remains: the state is idle again, for ANY event history *)
Theorem c17_no_residue : forall es, active (efinal es) = None -> idle (efinal es).
Proof. exact no_residue. Qed.

Theorem c17_done_means_idle : forall st e k o, In (ODone k o) (snd (estep st e)) -> idle (fst (estep st e)).
Proof. exact done_means_idle. Qed.

Example c17_example :
  concat (snd (erun e_init [EStart OLeave; ECallbacks [CStatus NETWORK_UP; CStatus NETWORK_DOWN]; EReply true false;
                            EStart OScan; EReply true false; ECallbacks [CItem 11; CItem 12]; ECallbacks [CComplete true];
                            EStart OForm; ECancel]))
  = [OCommand OLeave; ODone OLeave (DoneOk []); OCommand OScan; ODone OScan (DoneOk [11; 12]%Z);
     OCommand OForm; ODone OForm DoneCancelled].
Proof. vm_compute. reflexivity. Qed.

(* ---- the positive halves in one statement (proofs/EventsPos_proofs.v) ------------------------------------
   command accepted, the wanted status event somewhere in the run (before or after the reply), every timeout either
   before the reply or after the event, no cancellation: the operation completes successfully, and nothing is left *)
Require Import BV.proofs.EventsPos_proofs.

Theorem c17_accepted_and_event_completes : forall st k body, idle st -> k <> OScan ->
  no_abort body -> accepted body -> matched k body -> timely k body ->
  concat (snd (erun st (EStart k :: body))) = [OCommand k; ODone k (DoneOk [])].
Proof. exact accepted_and_event_completes. Qed.

Theorem c17_scan_completes_with_results : forall st pre nj mid l1 l2, idle st ->
  (forall l, In l pre -> no_complete l) -> (forall l, In l mid -> no_complete l) -> no_complete l1 ->
  concat (snd (erun st (EStart OScan :: map ECallbacks pre ++ EReply true nj :: map ECallbacks mid
                        ++ [ECallbacks (l1 ++ CComplete true :: l2)])))
  = [OCommand OScan; ODone OScan (DoneOk (items_of (concat pre ++ concat mid ++ l1 ++ l2)))].
Proof. exact scan_completes_with_results. Qed.

(* ---- the tie to the source text --------------------------------------------------------------------
   gen/GenEventsFn.v is emitted on every run from the Python AST of EZSP.add_callback / remove_callback /
   handle_callback / stack_status_callback / wait_for_stack_status (the generator behind the context manager:
   what runs before the yield, after it on a normal exit, on an exception / cancellation, and the future's
   done-callback), of the callback _list_command registers, and -- as scripts: statements before the scope,
   the scope, the statements inside it -- of formNetwork, leaveNetwork, _list_command and
   ControllerApplication._ensure_network_running.  proofs/EventsSrc_proofs.v relates them to the listener and
   callback bookkeeping of [estep]. *)
Require Import BV.gen.GenEventsFn BV.proofs.EventsSrc_proofs.

(* form / leave / bring-up wait for the status the model says, inside `with wait_for_stack_status(..)`; a scan
   registers its callback and runs under try/finally.  [executions] lists every way through the function (each
   statement may leave it: exception, cancellation at an await, early return); on each of them the operation's
   command is issued, and the event awaited, only after the registration, and the registration is undone before the
   function is left; the first execution is the one that completes *)
Theorem c17_source_listener_scope :
  op_ok py_formNetwork (ScopeWith (wanted OForm)) "formNetwork" /\
  op_ok py_leaveNetwork (ScopeWith (wanted OLeave)) "leaveNetwork" /\
  op_ok py_ensure_network_running (ScopeWith (wanted OBringup)) "initialize_network" /\
  op_ok py_list_command ScopeCallback "<name>".
Proof. exact src_listener_scope. Qed.

(* entering the context manager makes the registration [estep] makes on [EStart]: one pending listener for the
   status, after those already there ([lrefines]: status by status the pending flags agree, in order) *)
Theorem c17_source_register : forall s f d ml,
  lrefines d ml -> lrefines (py_wait_enter s f d) (ml ++ [(s, true)]).
Proof. exact src_register. Qed.

(* leaving it -- normally, by an exception or a cancellation -- and the future's done-callback all remove this
   listener and nothing else; entering and leaving with nothing in between restores what every status reads,
   which is what [finish] does to a state that was idle when the operation started *)
Theorem c17_source_unregister : forall s f d, NoDup (ids (dd_get s d)) ->
  (py_wait_exit_normal s f d = unregister s f d /\ py_wait_exit_exception s f d = unregister s f d /\
   py_wait_done_callback s f d = unregister s f d) /\
  ~ In f (ids (dd_get s (unregister s f d))) /\
  filter (fun x => negb (fst x =? f)) (dd_get s (unregister s f d)) = filter (fun x => negb (fst x =? f)) (dd_get s d) /\
  (forall s', s' <> s -> dd_get s' (unregister s f d) = dd_get s' d).
Proof. exact src_unregister. Qed.

Theorem c17_source_enter_exit : forall s f d, ~ In f (ids (dd_get s d)) ->
  forall s', dd_get s' (py_wait_exit_exception s f (py_wait_enter s f d)) = dd_get s' d /\
             dd_get s' (py_wait_exit_normal s f (py_wait_enter s f d)) = dd_get s' d.
Proof. exact src_enter_exit. Qed.

(* stack_status_callback is [notify]; other frames leave the listeners alone *)
Theorem c17_source_notify : forall s d ml, lrefines d ml ->
  lrefines (fst (py_stack_status_callback true s d)) (fst (notify s ml)) /\
  (forall other, py_stack_status_callback false other d = (d, false)).
Proof. exact src_notify. Qed.

(* the registry of callbacks a scan uses: add_callback returns an id that was not in use and appends the callback;
   remove_callback of that id takes out exactly this entry, whatever was registered later; handle_callback calls
   every registered callback, in order, also after one of them raised *)
Theorem c17_source_callback_registry : forall (C : Type) h (cbs later : zdict C) cb,
  (zd_mem (snd (py_add_callback h cbs cb)) cbs = false /\
   fst (py_add_callback h cbs cb) = cbs ++ [(snd (py_add_callback h cbs cb), cb)]) /\
  (let '(cbs1, id_) := py_add_callback h cbs cb in py_remove_callback (cbs1 ++ later) id_ = Some (cb, cbs ++ later)) /\
  (forall (S : Type) (call : C -> S -> S * bool) (s : S),
     py_handle_callback call cbs s = fold_left (fun s c => fst (call c s)) (map snd cbs) s).
Proof. exact src_callback_registry. Qed.

(* the callback a scan registers is [handle_cb]: a result frame is appended, the completion frame resolves the
   future once (a second one raises inside handle_callback and changes nothing) *)
Theorem c17_source_scan_callback : forall (R : Type) (to_item : R -> Z) (to_ok : R -> bool) st results fut resp,
  (0 <? scan_cbs st) = true -> scan_rel to_item to_ok results fut st ->
  (let '(results1, fut1, raised) := py_list_command_cb true false resp results fut in
   scan_rel to_item to_ok results1 fut1 (handle_cb st (CItem (to_item resp))) /\ raised = false) /\
  (let '(results1, fut1, raised) := py_list_command_cb false true resp results fut in
   scan_rel to_item to_ok results1 fut1 (handle_cb st (CComplete (to_ok resp))) /\ raised = event_seen st).
Proof. exact src_scan_callback. Qed.
