(* C08 -- malformed or unexpected EZSP frames are contained.
   Statements only; proofs in proofs/EzspBytes_proofs.v.  [frame_received] = EZSP.frame_received
   on raw bytes: guard (empty frame), header reader, COMMANDS_BY_ID, schema decode, the pending-call
   check of ProtocolHandler.__call__, with every exception the code catches modelled as "ignored".
   "Never raises" itself is a statement about Python and is decided by the C08 correspondence. *)
From Coq Require Import String ZArith NArith List Bool.
Import ListNotations.
Require Import BV.lib.EzspTypes BV.gen.GenCmd BV.model.EzspCodec BV.model.EzspProto BV.model.EzspCases BV.proofs.EzspBytes_proofs.
Open Scope N_scope.

(* The invariant of reachable states used by c08_no_cross: a call that waits for its reply has none
   recorded yet ([waiting_has_no_reply], defined in proofs/EzspBytes_proofs.v as
     forall c, In c (p_calls st) -> k_stage c = PWaiting -> k_reply c = RNone).
   It holds initially and is kept by every event of the machine, hence in every reachable state. *)
Theorem c08_waiting_inv_init : waiting_has_no_reply p_init.
Proof. exact waiting_inv_init. Qed.

Theorem c08_waiting_inv_step : forall st e,
  waiting_has_no_reply st -> waiting_has_no_reply (fst (proto_step st e)).
Proof. exact waiting_inv_step. Qed.

Theorem c08_waiting_inv_reachable : forall es, waiting_has_no_reply (fst (proto_run p_init es)).
Proof. exact waiting_inv_reachable. Qed.

Section AnyTable.
  (* any schema table, header layout, command table and invalidCommand id *)
  Variables (schemas : list schema) (kind : N) (cs : list command) (invalid_fid : N).
  Let recv := frame_received schemas kind cs invalid_fid.
  Let classify := classify schemas kind cs invalid_fid.

  (* whatever the bytes, a pending command is completed only by a frame that reads as: its own
     sequence number, its own frame id, a payload that decodes fully under that command's schema *)
  (* CORRECTED: as first written (for an ARBITRARY st, without the invariant) this is false.  set_reply
     keeps the first reply, so in a state where a call is PWaiting with a reply already recorded the
     frame's own values are ignored and the OLD reply is returned -- even by an invalidCommand frame.
     Counterexample (checked below as c08_no_cross_needs_invariant): schemas [[IP (PU 1)]; []],
     cs [("a",1,1,0); ("invalidCommand",0x58,1,0)], kind 4, invalid_fid 0x58,
       st = {| p_seq := 1; p_awaiting := [(0,(1,7))]; p_holder := Some 7; p_queue := []; p_counter := 0;
               p_calls := [{| k_id := 7; k_fid := 1; k_stage := PWaiting; k_reply := RValues [XP (VI 9)] |}] |}
     recv st [0;0x80;1;5]    gives [OReturn 7 [XP (VI 9)]] although the payload decodes to [XP (VI 5)];
     recv st [0;0x80;0x58;5] gives [OReturn 7 [XP (VI 9)]] although f = invalid_fid.
     Such a state is unreachable (complete_with_reply ends a call as soon as it is both waiting and
     answered); the minimal correction is the hypothesis [waiting_has_no_reply st], which holds in
     every reachable state (c08_waiting_inv_reachable) and is kept by recv (c08_waiting_inv_recv). *)
  Theorem c08_no_cross : forall st data id vs,
    waiting_has_no_reply st ->
    In (OReturn id vs) (snd (recv st data)) ->
    exists s f payload c rest,
      header_rx kind data = Some (s, f, payload) /\ find_by_id f cs = Some c /\
      decode_schema (schema_at schemas (c_rx c)) payload = Some (vs, rest) /\
      aw_get s (p_awaiting st) = Some (f, id) /\ f <> invalid_fid.
  Proof. exact (bytes_no_cross schemas kind cs invalid_fid). Qed.

  (* no callback unless the frame decodes fully as a known frame of the active version *)
  Theorem c08_callback_only_if_decodes : forall st data f vs,
    In (OCallback f vs) (snd (recv st data)) ->
    exists s payload c rest,
      header_rx kind data = Some (s, f, payload) /\ find_by_id f cs = Some c /\
      decode_schema (schema_at schemas (c_rx c)) payload = Some (vs, rest) /\
      aw_get s (p_awaiting st) = None.
  Proof. exact (bytes_callback_only_if_decodes schemas kind cs invalid_fid). Qed.

  (* empty, truncated, unknown-id and undecodable frames change nothing at all *)
  Theorem c08_malformed_no_effect : forall st data,
    match classify data with
    | None | Some DShort | Some (DUnknown _ _) | Some (DUndecodable _ _) => True
    | Some (DOk _ _ _ _) => False
    end -> recv st data = (st, []).
  Proof. exact (bytes_malformed_no_effect schemas kind cs invalid_fid). Qed.

  (* a known frame whose id does not match the pending command with the same sequence number
     completes nobody (the pending entry is dropped and that call ends by its timeout) *)
  Theorem c08_mismatch_completes_nobody : forall st data s f vs exp id,
    classify data = Some (DOk s f false vs) -> aw_get s (p_awaiting st) = Some (exp, id) -> exp <> f ->
    snd (recv st data) = [].
  Proof. exact (bytes_mismatch_completes_nobody schemas kind cs invalid_fid). Qed.

  (* commands issued afterwards still complete normally: after ANY sequence of received byte
     strings, a fresh call that gets the slot is sent, and its matching reply returns it *)
  Theorem c08_later_ok : forall st junk id prio f vs,
    let st0 := fold_left (fun s d => fst (recv s d)) junk st in
    p_holder st0 = None -> p_queue st0 = [] -> call_get id (p_calls st0) = None ->
    let '(st1, o1) := proto_step st0 (ECall id prio f) in
    let '(st2, o2) := proto_step st1 (ESendDone id true) in
    let '(st3, o3) := proto_step st2 (EFrame (DOk (p_seq st0) f false vs)) in
    o1 = [OSend id (p_seq st0) f] /\ o2 = [] /\ o3 = [OReturn id vs] /\ p_holder st3 = None.
  Proof. exact (bytes_later_ok schemas kind cs invalid_fid). Qed.

  (* received bytes never start, cancel or time out a command, and never touch the send slot's queue
     except by completing a call.  Three statements:
     - c08_receive_only_completes (as first written; true, but it only speaks of the queue): the queue
       moves only if the frame completed a call (OReturn or ORaise KInvalidCommand);
     - c08_receive_outputs: EVERY output of recv is an OReturn, an ORaise _ KInvalidCommand (never
       KTimeout / KCancelled / KSendFailed), an OCallback, or an OSend -- and an OSend is only ever that
       of the call at the head of the queue (a call already in p_calls, i.e. previously QUEUED, sent
       under the current p_seq), which leaves the queue, and only when the same frame completed a call;
     - c08_receive_quiet: if no OReturn/ORaise is produced, then p_queue, p_holder, p_seq and p_counter
       are unchanged, p_awaiting loses at most the entry of the frame's sequence number, and p_calls is
       unchanged up to the reply recorded on one call that is not yet waiting (still in send_data). *)
  Theorem c08_receive_outputs : forall st data o,
    In o (snd (recv st data)) ->
    match o with
    | OReturn _ _ | OCallback _ _ => True
    | ORaise _ k => k = KInvalidCommand
    | OSend id s f =>
        s = p_seq st /\
        (exists p n q', p_queue st = (p, n, id) :: q' /\ p_queue (fst (recv st data)) = q') /\
        (exists c, In c (p_calls st) /\ k_id c = id /\ k_fid c = f) /\
        (exists done, (exists vs, In (OReturn done vs) (snd (recv st data)))
                      \/ In (ORaise done KInvalidCommand) (snd (recv st data)))
    end.
  Proof. exact (bytes_receive_outputs schemas kind cs invalid_fid). Qed.

  Theorem c08_receive_quiet : forall st data,
    (forall o, In o (snd (recv st data)) ->
       match o with OReturn _ _ | ORaise _ _ => False | _ => True end) ->
    let st' := fst (recv st data) in
    p_queue st' = p_queue st /\ p_holder st' = p_holder st /\
    p_seq st' = p_seq st /\ p_counter st' = p_counter st /\
    (p_awaiting st' = p_awaiting st \/ exists s, p_awaiting st' = aw_del s (p_awaiting st)) /\
    (p_calls st' = p_calls st
     \/ exists c r, In c (p_calls st) /\ k_stage c <> PWaiting /\ r <> RNone /\
                    p_calls st' = call_set (set_reply c r) (p_calls st)).
  Proof. exact (bytes_receive_quiet schemas kind cs invalid_fid). Qed.

  (* received bytes keep the invariant of c08_no_cross *)
  Theorem c08_waiting_inv_recv : forall st data,
    waiting_has_no_reply st -> waiting_has_no_reply (fst (recv st data)).
  Proof. exact (bytes_waiting_inv_recv schemas kind cs invalid_fid). Qed.

  Theorem c08_receive_only_completes : forall st data,
    p_queue (fst (recv st data)) = p_queue st \/ exists id vs, In (OReturn id vs) (snd (recv st data))
                                              \/ In (ORaise id KInvalidCommand) (snd (recv st data)).
  Proof. exact (bytes_receive_only_completes schemas kind cs invalid_fid). Qed.
End AnyTable.

(* the counterexample to c08_no_cross without its invariant hypothesis *)
Example c08_no_cross_needs_invariant :
  let schemas := [[IP (PU 1)]; []] in
  let cs : list command := [("a"%string, 1, 1%nat, 0%nat); ("invalidCommand"%string, 0x58, 1%nat, 0%nat)] in
  let st := {| p_seq := 1; p_awaiting := [(0, (1, 7))]; p_holder := Some 7; p_queue := []; p_counter := 0;
               p_calls := [{| k_id := 7; k_prio := 0; k_fid := 1; k_seq := 0; k_stage := PWaiting;
                              k_reply := RValues [XP (VI 9)] |}] |} in
  snd (frame_received schemas 4 cs 0x58 st [0; 0x80; 1; 5]) = [OReturn 7 [XP (VI 9)]]
  /\ decode_schema (schema_at schemas 0) [5] = Some ([XP (VI 5)], [])
  /\ snd (frame_received schemas 4 cs 0x58 st [0; 0x80; 0x58; 5]) = [OReturn 7 [XP (VI 9)]].
Proof. vm_compute. repeat split. Qed.

(* non-vacuity on the generated v8 table: a truncated version response, an unknown id, and a
   full frame under a foreign sequence number *)
Example c08_example :
  let cs := commands_of 8 in
  let st := fst (proto_step p_init (ECall 1 0 0)) in                    (* version command pending, seq 0 *)
  snd (frame_received SCHEMAS 8 cs 0x58 st [0; 0x80; 1; 0; 0; 8]) = []               (* truncated reply *)
  /\ snd (frame_received SCHEMAS 8 cs 0x58 st [0; 0x80; 1; 0xEE; 0xEE]) = []        (* unknown frame id *)
  /\ snd (frame_received SCHEMAS 8 cs 0x58 st [9; 0x80; 1; 0; 0; 8; 2; 0x10; 0x70])
     = [OCallback 0 [XP (VI 8); XP (VI 2); XP (VI 0x7010)]].
Proof. vm_compute. repeat split. Qed.

(* ---- the tie to the source text ----------------------------------------------------------------------
   gen/GenProtoFn.v is emitted on every run from the Python AST of EZSP.frame_received (bellows/ezsp/__init__.py) and
   ProtocolHandler.__call__ with the COMMANDS_BY_ID comprehension of __init__ (bellows/ezsp/protocol.py); the header
   readers come from gen/GenEzspFn.v (source of EZSPv4 / v5 / v8._ezsp_frame_rx), chosen by header kind ([py_header_rx]).
   Vocabulary (proofs/ProtoSrc_proofs.v):
     aw_abs aw           the model's view of the source's _awaiting dict: (cmd_id, rx_schema, future) |-> (cmd_id, future);
                         a future is named by the id of the call awaiting it
     fut_done st f       future f is done: its call has ended, or a reply is already recorded for it
     run_effs cs st effs the effects applied to the model: set_result / set_exception on a pending future is [deliver]
                         to its call, _handle_callback(name, values) is an OCallback with the frame id of that name
     ids_known cs aw     every pending entry carries the frame id of a command of the table (command() takes it from
                         COMMANDS[name]: c06_source_command; kept by the receive path: third conjunct)
   For every byte string the emitted receive path never lets an exception out, leaves exactly the pending table of the
   model's [frame_received] (the [recv] of every theorem above) and its effects are exactly the model's state change and
   outputs.  The hypotheses on the table hold for every generated version (c08_source_tables); [waiting_has_no_reply] is
   the invariant of reachable states (c08_waiting_inv_reachable). *)
Require Import BV.gen.GenProtoFn BV.proofs.EzspCodec_proofs BV.proofs.ProtoSrc_proofs.

Theorem c08_source_receive : forall schemas kind cs ic st aw data,
  NoDup (map c_id cs) -> NoDup (map c_name cs) -> find_by_name "invalidCommand"%string cs = Some ic ->
  waiting_has_no_reply st -> aw_abs aw = p_awaiting st -> ids_known cs aw ->
  let '(aw', effs, r) := py_EZSP_frame_received schemas (py_header_rx kind) cs (fut_done st) true aw data in
  r = PyNone
  /\ frame_received schemas kind cs (c_id ic) st data = run_effs cs (with_awaiting st (aw_abs aw')) effs
  /\ ids_known cs aw'.
Proof. exact src_receive. Qed.

Theorem c08_source_tables : forall v, version_ok v ->
  NoDup (map c_id (commands_of v)) /\ NoDup (map c_name (commands_of v)) /\
  exists ic, find_by_name "invalidCommand"%string (commands_of v) = Some ic /\ invalid_fid_of v = c_id ic.
Proof. exact src_tables. Qed.

(* before a protocol handler is configured every frame is dropped *)
Theorem c08_source_unconfigured : forall schemas frx cs done aw data,
  py_EZSP_frame_received schemas frx cs done false aw data = (aw, [], PyNone).
Proof. exact src_receive_unconfigured. Qed.

(* non-vacuity: the frames of c08_example through the emitted receive path, version command pending under number 0 *)
Example c08_source_example :
  let cs := commands_of 8 in
  let aw : ph_awaiting := [(0, (0, 0%nat, 1))] in
  let recv := py_EZSP_frame_received SCHEMAS (py_header_rx 8) cs (fun _ => false) true aw in
  recv [0; 0x80; 1; 0; 0; 8] = (aw, [], PyNone)                                       (* truncated reply: contained *)
  /\ recv [0; 0x80; 1; 0xEE; 0xEE] = (aw, [], PyNone)                                 (* unknown frame id *)
  /\ recv [9; 0x80; 1; 0; 0; 8; 2; 0x10; 0x70]
     = (aw, [PCallback "version" [XP (VI 8); XP (VI 2); XP (VI 0x7010)]], PyNone)      (* foreign sequence number *)
  /\ recv [0; 0x80; 1; 0; 0; 8; 2; 0x10; 0x70]
     = ([], [PSetResult 1 [XP (VI 8); XP (VI 2); XP (VI 0x7010)]], PyNone)            (* the reply *)
  /\ recv [0; 0x80; 1; 0x58; 0; 0x36]
     = ([], [PSetException 1 XInvalidCommand], PyNone)                                 (* invalidCommand *)
  /\ recv [0; 0x80; 1; 0x05; 0; 0]
     = ([], [], PyNone).                         (* another command's response under that number: entry dropped *)
Proof. vm_compute. repeat split. Qed.
