(* C08 -- malformed or unexpected EZSP frames are contained.
   Statements only; proofs in proofs/EzspBytes_proofs.v.  [frame_received] = EZSP.frame_received
   on raw bytes: guard (empty frame), header reader, COMMANDS_BY_ID, schema decode, the pending-call
   check of ProtocolHandler.__call__, with every exception the code catches modelled as "ignored".
   "Never raises" itself is a statement about Python and is decided by the C08 correspondence. *)
From Coq Require Import String ZArith NArith List Bool.
Import ListNotations.
Require Import BV.lib.EzspTypes BV.gen.GenCmd BV.model.EzspCodec BV.model.EzspProto BV.model.EzspCases BV.proofs.EzspBytes_proofs.
Open Scope N_scope.

Section AnyTable.
  (* any schema table, header layout, command table and invalidCommand id *)
  Variables (schemas : list schema) (kind : N) (cs : list command) (invalid_fid : N).
  Let recv := frame_received schemas kind cs invalid_fid.
  Let classify := classify schemas kind cs invalid_fid.

  (* whatever the bytes, a pending command is completed only by a frame that reads as: its own
     sequence number, its own frame id, a payload that decodes fully under that command's schema *)
  Theorem c08_no_cross : forall st data id vs,
    In (OReturn id vs) (snd (recv st data)) ->
    exists s f payload c rest,
      header_rx kind data = Some (s, f, payload) /\ find_by_id f cs = Some c /\
      decode_schema (schema_at schemas (c_rx c)) payload = Some (vs, rest) /\
      aw_get s (p_awaiting st) = Some (f, id) /\ f <> invalid_fid.
  Proof. exact (bytes_no_cross schemas kind cs invalid_fid). Qed.

  (* no callback unless the frame decodes fully as a known frame of the active version *)
  Theorem c08_callback_only_if_decodes : forall st data f vs,
    In (OCallback f vs) (snd (recv st data)) ->
    exists s payload c rest,
      header_rx kind data = Some (s, f, payload) /\ find_by_id f cs = Some c /\
      decode_schema (schema_at schemas (c_rx c)) payload = Some (vs, rest) /\
      aw_get s (p_awaiting st) = None.
  Proof. exact (bytes_callback_only_if_decodes schemas kind cs invalid_fid). Qed.

  (* empty, truncated, unknown-id and undecodable frames change nothing at all *)
  Theorem c08_malformed_no_effect : forall st data,
    match classify data with
    | None | Some DShort | Some (DUnknown _ _) | Some (DUndecodable _ _) => True
    | Some (DOk _ _ _ _) => False
    end -> recv st data = (st, []).
  Proof. exact (bytes_malformed_no_effect schemas kind cs invalid_fid). Qed.

  (* a known frame whose id does not match the pending command with the same sequence number
     completes nobody (the pending entry is dropped and that call ends by its timeout) *)
  Theorem c08_mismatch_completes_nobody : forall st data s f vs exp id,
    classify data = Some (DOk s f false vs) -> aw_get s (p_awaiting st) = Some (exp, id) -> exp <> f ->
    snd (recv st data) = [].
  Proof. exact (bytes_mismatch_completes_nobody schemas kind cs invalid_fid). Qed.

  (* commands issued afterwards still complete normally: after ANY sequence of received byte
     strings, a fresh call that gets the slot is sent, and its matching reply returns it *)
  Theorem c08_later_ok : forall st junk id prio f vs,
    let st0 := fold_left (fun s d => fst (recv s d)) junk st in
    p_holder st0 = None -> p_queue st0 = [] -> call_get id (p_calls st0) = None ->
    let '(st1, o1) := proto_step st0 (ECall id prio f) in
    let '(st2, o2) := proto_step st1 (ESendDone id true) in
    let '(st3, o3) := proto_step st2 (EFrame (DOk (p_seq st0) f false vs)) in
    o1 = [OSend id (p_seq st0) f] /\ o2 = [] /\ o3 = [OReturn id vs] /\ p_holder st3 = None.
  Proof. exact (bytes_later_ok schemas kind cs invalid_fid). Qed.

  (* received bytes never start, cancel or time out a command, and never touch the send slot's queue *)
  Theorem c08_receive_only_completes : forall st data,
    p_queue (fst (recv st data)) = p_queue st \/ exists id vs, In (OReturn id vs) (snd (recv st data))
                                              \/ In (ORaise id KInvalidCommand) (snd (recv st data)).
  Proof. exact (bytes_receive_only_completes schemas kind cs invalid_fid). Qed.
End AnyTable.

(* non-vacuity on the generated v8 table: a truncated version response, an unknown id, and a
   full frame under a foreign sequence number *)
Example c08_example :
  let cs := commands_of 8 in
  let st := fst (proto_step p_init (ECall 1 0 0)) in                    (* version command pending, seq 0 *)
  snd (frame_received SCHEMAS 8 cs 0x58 st [0; 0x80; 1; 0; 0; 8]) = []               (* truncated reply *)
  /\ snd (frame_received SCHEMAS 8 cs 0x58 st [0; 0x80; 1; 0xEE; 0xEE]) = []        (* unknown frame id *)
  /\ snd (frame_received SCHEMAS 8 cs 0x58 st [9; 0x80; 1; 0; 0; 8; 2; 0x10; 0x70])
     = [OCallback 0 [XP (VI 8); XP (VI 2); XP (VI 0x7010)]].
Proof. vm_compute. repeat split. Qed.
