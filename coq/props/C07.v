Require Import BV.model.EzspCases.
