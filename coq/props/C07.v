(* C07 -- EZSP frame headers and command schemas form a consistent codec in every version.
   Statements only; proofs in proofs/EzspCodec_proofs.v.  SCHEMAS / COMMANDS / HEADER_KIND are
   regenerated from the live command tables of all supported versions on every run (gen/GenCmd.v);
   the codec functions transliterate bellows/zigpy and are tied to them by the C07 correspondence. *)
From Coq Require Import String ZArith NArith List Bool.
Import ListNotations.
Require Import BV.lib.EzspTypes BV.gen.GenCmd BV.model.EzspCodec BV.model.EzspCases BV.proofs.EzspCodec_proofs.
Open Scope N_scope.

(* ---- generic codec theorems (any schema, any values) ---------------------------------------- *)

(* feeding the encoding of ANY value tuple of a decodable schema back through the decoder yields
   exactly those values with no bytes left over.  "Any value tuple" = any on which the encoder is
   defined: integers in range for their width incl. undefined enum values, byte strings from empty to
   the maximal length, lists of any admissible count. *)
Theorem c07_roundtrip : forall s vs bs,
  wf_schema s = true -> encode_schema s vs = Some bs -> decode_schema s bs = Some (vs, []).
Proof. exact roundtrip. Qed.

(* header layouts: the reader inverts the writer, for every sequence number and every frame id the
   layout can carry, whatever payload follows *)
Theorem c07_header : forall kind seq id h payload,
  seq < 256 -> header_tx kind seq id = Some h ->
  header_rx kind (h ++ payload) = Some (seq, id, payload).
Proof. exact header_roundtrip. Qed.

(* the frame-control bytes and the layout of each of the three header kinds *)
Theorem c07_header_layout : forall seq id, seq < 256 ->
  (id < 256 -> header_tx 4 seq id = Some [seq; 0x00; id]) /\
  (id < 256 -> header_tx 5 seq id = Some [seq; 0x00; 0xFF; 0x00; id]) /\
  (id < 65536 -> header_tx 8 seq id = Some [seq; 0x00; 0x01; id mod 256; id / 256]).
Proof. exact header_layout. Qed.

(* positional and keyword argument forms are equivalent: any split of the arguments into a
   positional prefix and keywords given in any order binds every parameter to its value *)
Theorem c07_positional_keyword : forall (A : Type) (keys : list string) (vs : list A) (k : nat) (kw : list (string * A)),
  NoDup keys -> List.length vs = List.length keys ->
  Permutation.Permutation kw (skipn k (combine keys vs)) ->
  bind_args A keys (firstn k vs) kw = Some vs.
Proof. exact positional_keyword. Qed.

(* ---- the generated tables ---------------------------------------------------------------------- *)
(* vocabulary (proofs file):
   version_ok v := In v (map fst COMMANDS)                          one of the 11 supported versions
   table_ok v   := let cs := commands_of v in
                   NoDup (map c_id cs) /\ NoDup (map c_name cs)
                   /\ (forall c, In c cs -> c_id c < id_limit (kind_of v)
                                            /\ wf_schema (schema_at SCHEMAS (c_rx c)) = true)
                   /\ kind_of v = (if v =? 4 then 4 else if v <? 8 then 5 else 8)                 *)

Theorem c07_versions : map fst COMMANDS = [4; 5; 6; 7; 8; 9; 10; 11; 12; 13; 14].
Proof. vm_compute. reflexivity. Qed.

(* in every version each frame id belongs to exactly one command, every id fits the version's
   header layout, and every response / callback schema is decodable *)
Theorem c07_tables : forall v, version_ok v -> table_ok v.
Proof. exact tables_ok. Qed.

(* the whole receive path: for every version, every command of it and every value tuple, the frame
   the NCP sends for it decodes to that very command, those values, its sequence number, nothing left *)
Theorem c07_frame_roundtrip : forall v c seq vs frame,
  version_ok v -> In c (commands_of v) -> seq < 256 ->
  frame_rx_encode SCHEMAS (kind_of v) seq c vs = Some frame ->
  frame_rx_decode SCHEMAS (kind_of v) (commands_of v) frame = Some (seq, c, vs, []).
Proof. exact frame_roundtrip. Qed.

(* a request is the sequence number, the frame-control bytes and the frame id in the version's
   layout, followed by the arguments serialised in declared order *)
Theorem c07_request_layout : forall v c seq vs frame,
  version_ok v -> In c (commands_of v) -> seq < 256 ->
  frame_tx SCHEMAS (kind_of v) seq c vs = Some frame ->
  exists h args, header_tx (kind_of v) seq (c_id c) = Some h /\
                 encode_schema (schema_at SCHEMAS (c_tx c)) vs = Some args /\ frame = h ++ args.
Proof. exact request_layout. Qed.

(* non-vacuity: a response with a length-prefixed list and 16-byte key, v8 layout *)
Example c07_example :
  let s := [IP (PU 1); ILV 1 [PU 2; PS 1]; IP (PLV 1); IOpt [PU 1]] in
  let vs := [XP (VI 200); XL [[VI 65535; VI (-128)]; [VI 0; VI 127]]; XP (VB [1; 2; 3]); XNone] in
  wf_schema s = true /\
  encode_schema s vs = Some [200; 2; 255; 255; 128; 0; 0; 127; 3; 1; 2; 3] /\
  decode_schema s [200; 2; 255; 255; 128; 0; 0; 127; 3; 1; 2; 3] = Some (vs, []).
Proof. vm_compute. repeat split. Qed.

(* ---- the tie to the source text: the three header layouts ---------------------------------------
   gen/GenEzspFn.v is emitted on every run from the Python AST of EZSPv4/v5/v8._ezsp_frame_tx/_rx
   (harness/pysrc.py); which class's codec each version inherits is in gen/GenCmd.v. *)
Require Import BV.gen.GenEzspFn BV.proofs.EzspSrc_proofs.

Theorem c07_source_header_tx : forall seq id bs,
  (header_tx 4 seq id = Some bs -> bs = py_v4_header_tx seq id) /\
  (header_tx 5 seq id = Some bs -> bs = py_v5_header_tx seq id) /\
  (header_tx 8 seq id = Some bs -> bs = py_v8_header_tx seq id).
Proof. exact src_header_tx_all. Qed.

Theorem c07_source_header_rx : forall d,
  header_rx 4 d = py_v4_header_rx d /\ header_rx 5 d = py_v5_header_rx d /\ header_rx 8 d = py_v8_header_rx d.
Proof. exact src_header_rx_all. Qed.
