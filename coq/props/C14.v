(* C14 -- network settings survive a write / read round trip through the NCP.
   Statements only; proofs in proofs/NetInfo_proofs.v.  [write_plan]/[read_back]/[zha_security]
   transliterate write_network_info / load_network_info / util.zha_security and the per-version
   accessors; the NCP store ([ncp], [apply_wop]) is an assumption about firmware.  Tied to the real
   code by the C14 correspondence (real application against a simulated NCP, versions 4..14).
   PARTIAL for the firmware side: the theorem is about the model of the NCP, not about EmberZNet. *)
From Coq Require Import String ZArith NArith List Bool.
Import ListNotations.
Require Import BV.gen.GenSecurity BV.model.NetInfo BV.proofs.NetInfo_proofs.
Open Scope N_scope.

(* the security state sent to the NCP carries exactly the keys supplied, with presence flags that
   match the fields supplied -- every input, hashed or not *)
Theorem c14_security_state : forall ni use_hashed hashed,
  let s := zha_security ni use_hashed hashed in
  s_network_key s = nwk_key ni /\ s_seq s = nwk_key_seq ni /\
  s_preconfigured s = (if use_hashed then hashed else tclk ni) /\
  (has_bits (s_bitmask s) (ibit "HAVE_TRUST_CENTER_EUI64") = true <-> tc_address ni <> None) /\
  (forall a, tc_address ni = Some a -> s_tc_eui64 s = a) /\
  (has_bits (s_bitmask s) (ibit "TRUST_CENTER_USES_HASHED_LINK_KEY") = use_hashed) /\
  has_bits (s_bitmask s) (ibit "HAVE_PRECONFIGURED_KEY") = true /\
  has_bits (s_bitmask s) (ibit "HAVE_NETWORK_KEY") = true /\
  has_bits (s_bitmask s) (ibit "TRUST_CENTER_GLOBAL_LINK_KEY") = true.
Proof. exact security_state. Qed.

(* the admissible inputs ([admissible], defined in proofs/NetInfo_proofs.v): link-key partners
   distinct and no more keys than the table holds; at most 256 children; from v5 on the trust-centre
   link key is the well-known one (see c14_tclk_refuted):
     admissible v key_size ni :=
       NoDup (map fst (link_keys ni)) /\ (List.length (link_keys ni) <= N.to_nat key_size)%nat /\
       (List.length (known_children ni) <= 256)%nat /\ (4 < v -> tclk ni = WELL_KNOWN_TCLK). *)

(* every version 4..14, every admissible input: what is read back is what was written *)
Theorem c14_roundtrip : forall v key_size ni rh, 4 <= v -> v <= 14 -> admissible v key_size ni ->
  exists r, read_back v (written v key_size ni rh) = Some r /\
    pan_id r = pan_id ni /\ ext_pan_id r = ext_pan_id ni /\ channel r = channel ni /\
    channel_mask r = channel_mask ni /\ update_id r = update_id ni /\
    nwk_key r = nwk_key ni /\ nwk_key_seq r = nwk_key_seq ni /\
    tclk r = tclk ni /\
    link_keys r = link_keys ni /\
    (4 < v -> nwk_key_fc r = nwk_key_fc ni /\
              hashed_tclk r = Some (match hashed_tclk ni with Some h => h | None => rh end)) /\
    (v = 4 -> hashed_tclk r = None) /\
    (9 <= v -> children r = map (fun c => (fst c, Some (snd c))) (known_children ni)).
Proof. exact roundtrip. Qed.

(* ... and the same on an adapter that held another network before (its counters survive the reset
   for v < 13): what is read back is still exactly what was written *)
Theorem c14_roundtrip_after_previous_network : forall v key_size pn pa ni rh,
  4 <= v -> v <= 14 -> admissible v key_size ni ->
  exists r, read_back v (written_after v key_size pn pa ni rh) = Some r /\
    pan_id r = pan_id ni /\ ext_pan_id r = ext_pan_id ni /\ channel r = channel ni /\
    channel_mask r = channel_mask ni /\ update_id r = update_id ni /\
    nwk_key r = nwk_key ni /\ nwk_key_seq r = nwk_key_seq ni /\
    tclk r = tclk ni /\
    link_keys r = link_keys ni /\
    (4 < v -> nwk_key_fc r = nwk_key_fc ni /\
              hashed_tclk r = Some (match hashed_tclk ni with Some h => h | None => rh end)) /\
    (v = 4 -> hashed_tclk r = None) /\
    (9 <= v -> children r = map (fun c => (fst c, Some (snd c))) (known_children ni)).
Proof. exact roundtrip_after. Qed.

(* on v4 the network frame counter cannot be stored: whatever the adapter held before stays, so the
   counter is only claimed "where the protocol version can store it" (4 < v above) *)
Theorem c14_v4_counter_not_stored : forall key_size pn pa ni rh r,
  read_back 4 (written_after 4 key_size pn pa ni rh) = Some r -> nwk_key_fc r = pn.
Proof. exact stale_counter_v4. Qed.

(* a zero counter written over a non-zero one left by the previous network (v8): zero is read back *)
Example c14_example_zero_counter_after_previous_network :
  let ni := {| pan_id := 0x1A2B; ext_pan_id := [1;2;3;4;5;6;7;8]; channel := 15; channel_mask := 0x8000; update_id := 3;
               manager_id := 0; nwk_key := [9;9;9]; nwk_key_seq := 7; nwk_key_fc := 0; tclk := WELL_KNOWN_TCLK; tclk_fc := 0;
               tc_address := Some [8;7;6;5;4;3;2;1]; hashed_tclk := None;
               link_keys := [([1], [11])]; children := [] |} in
  option_map nwk_key_fc (read_back 8 (written_after 8 4 0x12345 0x77 ni [0xEE])) = Some 0
  /\ n_aps_fc (written_after 8 4 0x12345 0x77 ni [0xEE]) = 0
  /\ option_map nwk_key_fc (read_back 4 (written_after 4 4 0x12345 0x77 ni [0xEE])) = Some 0x12345.
Proof. vm_compute. repeat split. Qed.

(* KNOWN FINDING: from v5 on a trust-centre link key other than the well-known one is NOT preserved *)
Theorem c14_tclk_refuted : exists v ni rh r, 4 < v /\ v <= 14 /\ tclk ni <> WELL_KNOWN_TCLK /\
  NoDup (map fst (link_keys ni)) /\
  read_back v (written v 4 ni rh) = Some r /\ tclk r <> tclk ni.
Proof. exact tclk_refuted. Qed.

(* ... but its hashed form is kept, and on v4 any key is preserved *)
Theorem c14_v4_any_tclk : forall key_size ni rh,
  NoDup (map fst (link_keys ni)) -> (List.length (link_keys ni) <= N.to_nat key_size)%nat ->
  exists r, read_back 4 (written 4 key_size ni rh) = Some r /\ tclk r = tclk ni.
Proof. exact v4_any_tclk. Qed.

Example c14_example :
  let ni := {| pan_id := 0x1A2B; ext_pan_id := [1;2;3;4;5;6;7;8]; channel := 15; channel_mask := 0x8000; update_id := 3;
               manager_id := 0; nwk_key := [9;9;9]; nwk_key_seq := 7; nwk_key_fc := 1000; tclk := WELL_KNOWN_TCLK; tclk_fc := 5;
               tc_address := Some [8;7;6;5;4;3;2;1]; hashed_tclk := None;
               link_keys := [([1], [11]); ([2], [22]); ([3], [33])]; children := [([7], Some 0x3000); ([8], None)] |} in
  option_map link_keys (read_back 13 (written 13 4 ni [0xEE])) = Some [([1], [11]); ([2], [22]); ([3], [33])]
  /\ option_map children (read_back 13 (written 13 4 ni [0xEE])) = Some [([7], Some 0x3000)]
  /\ option_map hashed_tclk (read_back 6 (written 6 4 ni [0xEE])) = Some (Some [0xEE]).
Proof. vm_compute. repeat split. Qed.
