(* C14 -- network settings survive a write / read round trip through the NCP.
   Statements only; proofs in proofs/NetInfo_proofs.v.  [write_plan]/[read_back]/[zha_security]
   transliterate write_network_info / load_network_info / util.zha_security and the per-version
   accessors; the NCP store ([ncp], [apply_wop]) is an assumption about firmware.  Tied to the real
   code by the C14 correspondence (real application against a simulated NCP, versions 4..14).
   PARTIAL for the firmware side: the theorem is about the model of the NCP, not about EmberZNet. *)
From Coq Require Import String ZArith NArith List Bool.
Import ListNotations.
Require Import BV.gen.GenSecurity BV.model.NetInfo BV.proofs.NetInfo_proofs.
Require Import BV.gen.GenNetInfoFn BV.proofs.NetInfoSrc_proofs.
Open Scope N_scope.

(* the security state sent to the NCP carries exactly the keys supplied, with presence flags that
   match the fields supplied -- every input, hashed or not *)
Theorem c14_security_state : forall ni use_hashed hashed,
  let s := zha_security ni use_hashed hashed in
  s_network_key s = nwk_key ni /\ s_seq s = nwk_key_seq ni /\
  s_preconfigured s = (if use_hashed then hashed else tclk ni) /\
  (has_bits (s_bitmask s) (ibit "HAVE_TRUST_CENTER_EUI64") = true <-> tc_address ni <> None) /\
  (forall a, tc_address ni = Some a -> s_tc_eui64 s = a) /\
  (has_bits (s_bitmask s) (ibit "TRUST_CENTER_USES_HASHED_LINK_KEY") = use_hashed) /\
  has_bits (s_bitmask s) (ibit "HAVE_PRECONFIGURED_KEY") = true /\
  has_bits (s_bitmask s) (ibit "HAVE_NETWORK_KEY") = true /\
  has_bits (s_bitmask s) (ibit "TRUST_CENTER_GLOBAL_LINK_KEY") = true.
Proof. exact security_state. Qed.

(* the admissible inputs ([admissible], defined in proofs/NetInfo_proofs.v): link-key partners
   distinct and no more keys than the table holds; at most 256 children; from v5 on the trust-centre
   link key is the well-known one (see c14_tclk_refuted):
     admissible v key_size ni :=
       NoDup (map fst (link_keys ni)) /\ (List.length (link_keys ni) <= N.to_nat key_size)%nat /\
       (List.length (known_children ni) <= 256)%nat /\ (4 < v -> tclk ni = WELL_KNOWN_TCLK). *)

(* every version 4..14, every admissible input: what is read back is what was written *)
Theorem c14_roundtrip : forall v key_size ni rh, 4 <= v -> v <= 14 -> admissible v key_size ni ->
  exists r, read_back v (written v key_size ni rh) = Some r /\
    pan_id r = pan_id ni /\ ext_pan_id r = ext_pan_id ni /\ channel r = channel ni /\
    channel_mask r = channel_mask ni /\ update_id r = update_id ni /\
    nwk_key r = nwk_key ni /\ nwk_key_seq r = nwk_key_seq ni /\
    tclk r = tclk ni /\
    link_keys r = link_keys ni /\
    (4 < v -> nwk_key_fc r = nwk_key_fc ni /\
              hashed_tclk r = Some (match hashed_tclk ni with Some h => h | None => rh end)) /\
    (v = 4 -> hashed_tclk r = None) /\
    (9 <= v -> children r = map (fun c => (fst c, Some (snd c))) (known_children ni)).
Proof. exact roundtrip. Qed.

(* ... and the same on an adapter that held another network before (its counters survive the reset
   for v < 13): what is read back is still exactly what was written *)
Theorem c14_roundtrip_after_previous_network : forall v key_size pn pa ni rh,
  4 <= v -> v <= 14 -> admissible v key_size ni ->
  exists r, read_back v (written_after v key_size pn pa ni rh) = Some r /\
    pan_id r = pan_id ni /\ ext_pan_id r = ext_pan_id ni /\ channel r = channel ni /\
    channel_mask r = channel_mask ni /\ update_id r = update_id ni /\
    nwk_key r = nwk_key ni /\ nwk_key_seq r = nwk_key_seq ni /\
    tclk r = tclk ni /\
    link_keys r = link_keys ni /\
    (4 < v -> nwk_key_fc r = nwk_key_fc ni /\
              hashed_tclk r = Some (match hashed_tclk ni with Some h => h | None => rh end)) /\
    (v = 4 -> hashed_tclk r = None) /\
    (9 <= v -> children r = map (fun c => (fst c, Some (snd c))) (known_children ni)).
Proof. exact roundtrip_after. Qed.

(* on v4 the network frame counter cannot be stored: whatever the adapter held before stays, so the
   counter is only claimed "where the protocol version can store it" (4 < v above) *)
Theorem c14_v4_counter_not_stored : forall key_size pn pa ni rh r,
  read_back 4 (written_after 4 key_size pn pa ni rh) = Some r -> nwk_key_fc r = pn.
Proof. exact stale_counter_v4. Qed.

(* a zero counter written over a non-zero one left by the previous network (v8): zero is read back *)
Example c14_example_zero_counter_after_previous_network :
  let ni := {| pan_id := 0x1A2B; ext_pan_id := [1;2;3;4;5;6;7;8]; channel := 15; channel_mask := 0x8000; update_id := 3;
               manager_id := 0; nwk_key := [9;9;9]; nwk_key_seq := 7; nwk_key_fc := 0; tclk := WELL_KNOWN_TCLK; tclk_fc := 0;
               tc_address := Some [8;7;6;5;4;3;2;1]; hashed_tclk := None;
               link_keys := [([1], [11])]; children := [] |} in
  option_map nwk_key_fc (read_back 8 (written_after 8 4 0x12345 0x77 ni [0xEE])) = Some 0
  /\ n_aps_fc (written_after 8 4 0x12345 0x77 ni [0xEE]) = 0
  /\ option_map nwk_key_fc (read_back 4 (written_after 4 4 0x12345 0x77 ni [0xEE])) = Some 0x12345.
Proof. vm_compute. repeat split. Qed.

(* KNOWN FINDING: from v5 on a trust-centre link key other than the well-known one is NOT preserved *)
Theorem c14_tclk_refuted : exists v ni rh r, 4 < v /\ v <= 14 /\ tclk ni <> WELL_KNOWN_TCLK /\
  NoDup (map fst (link_keys ni)) /\
  read_back v (written v 4 ni rh) = Some r /\ tclk r <> tclk ni.
Proof. exact tclk_refuted. Qed.

(* ... but its hashed form is kept, and on v4 any key is preserved *)
Theorem c14_v4_any_tclk : forall key_size ni rh,
  NoDup (map fst (link_keys ni)) -> (List.length (link_keys ni) <= N.to_nat key_size)%nat ->
  exists r, read_back 4 (written 4 key_size ni rh) = Some r /\ tclk r = tclk ni.
Proof. exact v4_any_tclk. Qed.

Example c14_example :
  let ni := {| pan_id := 0x1A2B; ext_pan_id := [1;2;3;4;5;6;7;8]; channel := 15; channel_mask := 0x8000; update_id := 3;
               manager_id := 0; nwk_key := [9;9;9]; nwk_key_seq := 7; nwk_key_fc := 1000; tclk := WELL_KNOWN_TCLK; tclk_fc := 5;
               tc_address := Some [8;7;6;5;4;3;2;1]; hashed_tclk := None;
               link_keys := [([1], [11]); ([2], [22]); ([3], [33])]; children := [([7], Some 0x3000); ([8], None)] |} in
  option_map link_keys (read_back 13 (written 13 4 ni [0xEE])) = Some [([1], [11]); ([2], [22]); ([3], [33])]
  /\ option_map children (read_back 13 (written 13 4 ni [0xEE])) = Some [([7], Some 0x3000)]
  /\ option_map hashed_tclk (read_back 6 (written 6 4 ni [0xEE])) = Some (Some [0xEE]).
Proof. vm_compute. repeat split. Qed.

(* ---- source tie (gen/GenNetInfoFn.v is emitted from the source text on every run; proofs/NetInfoSrc_proofs.v) ---------- *)

(* util.zha_security as written IS the model's zha_security, for every input: [py_zha_security] reads the hashed key out of
   network_info.stack_specific itself (None = KeyError when it is absent), the model takes it as an argument *)
Theorem c14_source_security_state : forall ni use_hashed hashed,
  (use_hashed = true -> hashed_tclk ni = Some hashed) ->
  py_zha_security ni use_hashed = Some (zha_security ni use_hashed hashed).
Proof. exact src_security_state. Qed.

Theorem c14_source_security_state_no_hash : forall ni, hashed_tclk ni = None -> py_zha_security ni true = None.
Proof. exact src_security_state_no_hash. Qed.

(* util.ezsp_key_to_zigpy_key: which bit of the key struct's bitmask guards which field (a field whose bit is clear keeps
   the default of zigpy's Key); the model's read-back takes key, sequence number and counter from the store directly and
   has no counterpart, so the statements are about the emitted functions *)
Theorem c14_source_key_conversion : forall e,
  let z := py_ezsp_key_to_zigpy_key e in
  zk_key z = ek_key e /\
  zk_seq z = (if has_bits (ek_bitmask e) (kbit "KEY_HAS_SEQUENCE_NUMBER") then ek_sequenceNumber e else Some 0) /\
  zk_tx_counter z = (if has_bits (ek_bitmask e) (kbit "KEY_HAS_OUTGOING_FRAME_COUNTER") then ek_outgoingFrameCounter e else Some 0) /\
  zk_rx_counter z = (if has_bits (ek_bitmask e) (kbit "KEY_HAS_INCOMING_FRAME_COUNTER") then ek_incomingFrameCounter e else Some 0) /\
  zk_partner_ieee z = (if has_bits (ek_bitmask e) (kbit "KEY_HAS_PARTNER_EUI64") then ek_partnerEUI64 e else Some unknown_eui).
Proof. exact src_key_from_ezsp. Qed.

(* util.zigpy_key_to_ezsp_key: every field is copied and exactly the bits of the fields that are present are set *)
Theorem c14_source_key_conversion_back : forall z,
  let e := py_zigpy_key_to_ezsp_key z in
  ek_key e = zk_key z /\ ek_sequenceNumber e = zk_seq z /\ ek_outgoingFrameCounter e = zk_tx_counter z /\
  ek_incomingFrameCounter e = zk_rx_counter z /\ ek_partnerEUI64 e = zk_partner_ieee z /\
  ek_bitmask e = N.lor (N.lor (N.lor (if zk_seq z then kbit "KEY_HAS_SEQUENCE_NUMBER" else 0)
                                     (if zk_tx_counter z then kbit "KEY_HAS_OUTGOING_FRAME_COUNTER" else 0))
                              (if zk_rx_counter z then kbit "KEY_HAS_INCOMING_FRAME_COUNTER" else 0))
                       (if zk_partner_ieee z then kbit "KEY_HAS_PARTNER_EUI64" else 0).
Proof. exact src_key_to_ezsp. Qed.

(* round trips, both ways, when all four optional fields are present *)
Theorem c14_source_key_roundtrip : forall k tx rx seq p,
  let z := {| zk_key := k; zk_tx_counter := Some tx; zk_rx_counter := Some rx; zk_seq := Some seq; zk_partner_ieee := Some p |} in
  py_ezsp_key_to_zigpy_key (py_zigpy_key_to_ezsp_key z) = z.
Proof. exact src_key_roundtrip_zigpy. Qed.

Theorem c14_source_key_roundtrip_ezsp : forall k tx rx seq p,
  let e := {| ek_bitmask := N.lor (N.lor (N.lor (kbit "KEY_HAS_SEQUENCE_NUMBER") (kbit "KEY_HAS_OUTGOING_FRAME_COUNTER"))
                                         (kbit "KEY_HAS_INCOMING_FRAME_COUNTER")) (kbit "KEY_HAS_PARTNER_EUI64");
              ek_key := k; ek_outgoingFrameCounter := Some tx; ek_incomingFrameCounter := Some rx;
              ek_sequenceNumber := Some seq; ek_partnerEUI64 := Some p |} in
  py_zigpy_key_to_ezsp_key (py_ezsp_key_to_zigpy_key e) = e.
Proof. exact src_key_roundtrip_ezsp. Qed.

(* ControllerApplication.write_network_info as written, with the write accessors of the protocol handler registered for
   the version: for every version 4..14, every input and every answer of the NCP to the EUI64 questions the coroutine
   runs to its end and the steps it awaits, read as steps of the model ([steps_of]: commands as stores of the abstract NCP,
   queries and guards dropped), are [write_steps]: reset_network_info; the node address written and the NCP restarted iff
   [eui64_written]; then exactly [write_plan] on the network information as the coroutine has updated it
   ([effective_netinfo]); then the wait for the network.  Hypothesis: the stack-specific hashed key, if present, is not
   the empty string (c14_source_empty_hash_replaced) *)
Theorem c14_source_write_order : forall v ni node_ieee ncp_eui64 can_rewrite can_burn flags rh,
  4 <= v -> v <= 14 -> hashed_tclk ni <> Some [] ->
  let wrote := eui64_written node_ieee ncp_eui64 can_rewrite can_burn (flags OPT_IN) in
  let r := py_write_network_info v ni node_ieee ncp_eui64 can_rewrite can_burn flags rh in
  wn_outcome r = WnDone /\
  steps_of v (wn_steps r) = write_steps v wrote (effective_netinfo wrote ncp_eui64 ni) rh.
Proof. exact src_write_order. Qed.

(* ... in particular: wherever a frame counter or the security state is stored, no restart of the NCP (reset_network_info,
   _reset) follows, the network is formed later, and it has not been formed before *)
Theorem c14_source_staged_after_restart_before_form :
  forall v ni node_ieee ncp_eui64 can_rewrite can_burn flags rh pre s post,
  4 <= v -> v <= 14 -> hashed_tclk ni <> Some [] ->
  steps_of v (wn_steps (py_write_network_info v ni node_ieee ncp_eui64 can_rewrite can_burn flags rh)) = pre ++ s :: post ->
  staged_store s = true ->
  forallb (fun x => negb (restarts_ncp x)) post = true /\ existsb forms_network post = true /\
  forallb (fun x => negb (forms_network x)) pre = true.
Proof. exact src_staged_after_restart_before_form. Qed.

(* the same of the model's own step list, and the security state is among its stores (non-vacuity) *)
Theorem c14_write_steps_order : forall v wrote ni rh pre s post,
  write_steps v wrote ni rh = pre ++ s :: post -> staged_store s = true ->
  forallb (fun x => negb (restarts_ncp x)) post = true /\ existsb forms_network post = true /\
  forallb (fun x => negb (forms_network x)) pre = true.
Proof. intros v wrote ni rh pre s post. exact (order_ok_split _ pre s post (write_steps_order_ok v wrote ni rh)). Qed.

Theorem c14_write_steps_has_security : forall v wrote ni rh,
  In (StStore (WSecurity (zha_security ni (4 <? v) (match hashed_tclk ni with Some h => h | None => rh end))))
     (write_steps v wrote ni rh).
Proof. exact write_steps_has_security. Qed.

(* what the two restarting steps are: _reset restarts the NCP (startup_reset) and reset_network_info goes through _reset *)
Theorem c14_source_reset_calls :
  py_calls_reset = [RCall "self._ezsp" "stop_ezsp"; RCall "self._ezsp" "startup_reset"; RCall "self._ezsp" "write_config"] /\
  py_calls_reset_network_info =
    [RCall "self._ezsp" "factory_reset"; RCall "self._ezsp" "reset_custom_eui64"; RCall "self" "_reset";
     RTryElse [RCall "self" "_ensure_network_running"] "NetworkNotFormed" [RCall "self._ezsp" "leaveNetwork"]].
Proof. exact src_reset_calls. Qed.

(* where model and source part: an EMPTY hex string under "hashed_tclk" counts as absent for the source (from v5 on the
   random default is stored and sent), where [write_plan] would send the empty key *)
Theorem c14_source_empty_hash_replaced : forall v ni ncp rh, (4 < v) -> (hashed_tclk ni = Some []) ->
  let r := py_write_network_info v ni None ncp false false (fun _ => false) rh in
  hashed_tclk (wn_netinfo r) = Some rh /\
  In (ASetInitialSecurityState (zha_security (effective_netinfo false ncp ni) true rh)) (wn_steps r).
Proof. exact src_empty_hash_replaced. Qed.

Example c14_source_example_v8 :
  let ni := {| pan_id := 0x1A2B; ext_pan_id := [1;2;3;4;5;6;7;8]; channel := 15; channel_mask := 0x8000; update_id := 3;
               manager_id := 0; nwk_key := [9;9;9]; nwk_key_seq := 7; nwk_key_fc := 1000; tclk := WELL_KNOWN_TCLK; tclk_fc := 5;
               tc_address := Some [8;7;6;5;4;3;2;1]; hashed_tclk := None;
               link_keys := [([1], [11])]; children := [([7], Some 0x3000); ([8], None)] |} in
  map (fun s => match s with StStore (WNwkFc _) => 1 | StStore (WApsFc _) => 2 | StStore (WSecurity _) => 3
                           | StStore (WForm _) => 9 | StRestore => 100 | StReboot => 101 | StWriteEui64 => 102
                           | StNetworkUp => 200 | StStore _ => 5 end)
      (steps_of 8 (wn_steps (py_write_network_info 8 ni (Some [1;1;1;1;1;1;1;1]) [2;2;2;2;2;2;2;2] true false (fun _ => false) [0xEE])))
  = [100; 102; 101; 1; 2; 3; 5; 9; 200].
Proof. vm_compute. reflexivity. Qed.
