(* C15 -- host view of the multicast table matches the NCP and never leaks slots.
   Statements only; proofs in proofs/Multicast_proofs.v. *)
From Coq Require Import NArith List Bool.
Import ListNotations.
Require Import BV.model.Status BV.model.Multicast BV.proofs.Multicast_proofs.
Open Scope N_scope.

(* -- vocabulary (definitions live in the proofs file so that lemmas can mention them) ---------
   used st            := map snd (subs st)
   wf st              := NoDup (map fst (subs st)) /\ NoDup (avail st ++ used st)
                         /\ forall i, In i (avail st ++ used st) -> N.to_nat i < length (ncp st)
   full_partition st  := length (avail st) + length (subs st) = length (ncp st)
   mirror st          := forall g i, In (g, i) (subs st) <->
                           exists ep, nth_error (ncp st) (N.to_nat i) = Some (g, ep) /\ ep <> 0
   distinct_groups t  := NoDup (map fst (filter (fun e => negb (snd e =? 0)) t))
   answered o         := the NCP answered the table write (no timeout)
   is_call o          := o is a Subscribe or an Unsubscribe
   failed r           := r = RRaised \/ exists s, r = RStatus s /\ status_ok s = false          *)

(* start-up scan of any table in which each group appears at most once, all entries readable *)
Theorem c15_startup : forall s0 a0 t ss rs,
  distinct_groups t -> status_ok ss = true -> Forall (fun r => status_ok r = true) rs ->
  let st := st_of (step {| subs := s0; avail := a0; ncp := t |} (Init ss rs)) in
  wf st /\ full_partition st /\ mirror st.
Proof. exact startup_establishes. Qed.

(* every index is free or used by exactly one group: invariant under every call, whatever the
   answer (success, rejection, either kind of timeout) *)
Theorem c15_partition : forall st o, is_call o ->
  wf st -> full_partition st ->
  wf (st_of (step st o)) /\ full_partition (st_of (step st o)).
Proof. exact partition_step. Qed.

Theorem c15_partition_means : forall st, wf st -> full_partition st ->
  forall i, (N.to_nat i < length (ncp st))%nat ->
    (In i (avail st) /\ ~ In i (used st)) \/ (~ In i (avail st) /\ exists g, In (g, i) (subs st) /\
       forall g', In (g', i) (subs st) -> g' = g).
Proof. exact partition_means. Qed.

(* the host's subscribed groups are exactly the entries programmed with a non-zero endpoint,
   as long as the NCP answers every write *)
Theorem c15_mirror : forall st o, is_call o -> answered o ->
  wf st -> mirror st -> mirror (st_of (step st o)).
Proof. exact mirror_step. Qed.

(* all reachable states: start-up on any admissible table, then any number of calls *)
Theorem c15_reachable : forall t ss rs ops,
  distinct_groups t -> status_ok ss = true -> Forall (fun r => status_ok r = true) rs ->
  Forall is_call ops ->
  let st := run {| subs := []; avail := []; ncp := t |} (Init ss rs :: ops) in
  wf st /\ full_partition st /\ (Forall answered ops -> mirror st).
Proof. exact reachable. Qed.

Theorem c15_idempotent : forall st g c a i,
  lookup g (subs st) = Some i -> step st (Subscribe g c a) = (st, RStatus sl_OK, None).
Proof. exact subscribe_idempotent. Qed.

Theorem c15_full : forall st g c a,
  lookup g (subs st) = None -> avail st = [] ->
  step st (Subscribe g c a) = (st, RStatus INVALID_INDEX, None) /\ failed (RStatus INVALID_INDEX).
Proof. exact subscribe_full. Qed.

(* a call that fails -- rejection or command timeout -- leaves the number of free indices unchanged *)
Theorem c15_fail_keeps_free : forall st o, is_call o ->
  failed (snd (fst (step st o))) ->
  length (avail (st_of (step st o))) = length (avail st).
Proof. exact fail_keeps_free. Qed.

(* non-vacuity: a reachable state with a subscribed group, a free slot and a failed call *)
Example c15_example :
  let st := run {| subs := []; avail := []; ncp := [(0x22, 1); (0, 0); (0, 0)] |}
               [Init 0 []; Subscribe 0x11 2 (Ans 0); Subscribe 0x33 1 TimeoutLost; Unsubscribe 0x22 (Ans 1)] in
  map fst (subs st) = [0x22; 0x11] /\ avail st = [1] /\ ncp st = [(0x22, 1); (0, 0); (0x11, 1)].
Proof. vm_compute. repeat split. Qed.

(* ---- the tie to the source text --------------------------------------------------------------------
   gen/GenMulticastFn.v is emitted on every run from the Python AST of Multicast.subscribe and
   Multicast.unsubscribe (coroutines with a single await: the outcome of the awaited table write is a
   parameter).  The host side of [step] -- the dict of subscriptions, the set of free indices, the
   reported result, the table write issued -- is what the source does; the free indices are compared
   as a set (the source pops an index and adds it back where the model leaves the list alone). *)
Require Import BV.gen.GenMulticastFn BV.proofs.MulticastSrc_proofs.
Theorem c15_source_subscribe : forall st g choice a,
  let '(s', av', r, w) := py_subscribe (subs st) (avail st) g choice a in
  let '(st', r', w') := step st (Subscribe g choice a) in
  subs st' = s' /\ seteq (avail st') av' /\ r' = r /\ w' = w.
Proof. exact src_subscribe. Qed.
Theorem c15_source_unsubscribe : forall st g a,
  let '(s', av', r, w) := py_unsubscribe (subs st) (avail st) g a in
  let '(st', r', w') := step st (Unsubscribe g a) in
  subs st' = s' /\ avail st' = av' /\ r' = r /\ w' = w.
Proof. exact src_unsubscribe. Qed.
