(* C15 -- host view of the multicast table matches the NCP and never leaks slots.
   Statements only; proofs in proofs/Multicast_proofs.v. *)
From Coq Require Import NArith List Bool.
Import ListNotations.
Require Import BV.model.Status BV.model.Multicast BV.proofs.Multicast_proofs.
Open Scope N_scope.

(* -- vocabulary (definitions live in the proofs file so that lemmas can mention them) ---------
   used st            := map snd (subs st)
   wf st              := NoDup (map fst (subs st)) /\ NoDup (avail st ++ used st)
                         /\ forall i, In i (avail st ++ used st) -> N.to_nat i < length (ncp st)
   full_partition st  := length (avail st) + length (subs st) = length (ncp st)
   mirror st          := forall g i, In (g, i) (subs st) <->
                           exists ep, nth_error (ncp st) (N.to_nat i) = Some (g, ep) /\ ep <> 0
   distinct_groups t  := NoDup (map fst (filter (fun e => negb (snd e =? 0)) t))
   answered o         := the NCP answered the table write (no timeout)
   is_call o          := o is a Subscribe or an Unsubscribe
   failed r           := r = RRaised \/ exists s, r = RStatus s /\ status_ok s = false          *)

(* start-up scan of any table in which each group appears at most once, all entries readable *)
Theorem c15_startup : forall s0 a0 t ss rs,
  distinct_groups t -> status_ok ss = true -> Forall (fun r => status_ok r = true) rs ->
  let st := st_of (step {| subs := s0; avail := a0; ncp := t |} (Init ss rs)) in
  wf st /\ full_partition st /\ mirror st.
Proof. exact startup_establishes. Qed.

(* every index is free or used by exactly one group: invariant under every call, whatever the
   answer (success, rejection, either kind of timeout) *)
Theorem c15_partition : forall st o, is_call o ->
  wf st -> full_partition st ->
  wf (st_of (step st o)) /\ full_partition (st_of (step st o)).
Proof. exact partition_step. Qed.

Theorem c15_partition_means : forall st, wf st -> full_partition st ->
  forall i, (N.to_nat i < length (ncp st))%nat ->
    (In i (avail st) /\ ~ In i (used st)) \/ (~ In i (avail st) /\ exists g, In (g, i) (subs st) /\
       forall g', In (g', i) (subs st) -> g' = g).
Proof. exact partition_means. Qed.

(* the host's subscribed groups are exactly the entries programmed with a non-zero endpoint,
   as long as the NCP answers every write *)
Theorem c15_mirror : forall st o, is_call o -> answered o ->
  wf st -> mirror st -> mirror (st_of (step st o)).
Proof. exact mirror_step. Qed.

(* all reachable states: start-up on any admissible table, then any number of calls *)
Theorem c15_reachable : forall t ss rs ops,
  distinct_groups t -> status_ok ss = true -> Forall (fun r => status_ok r = true) rs ->
  Forall is_call ops ->
  let st := run {| subs := []; avail := []; ncp := t |} (Init ss rs :: ops) in
  wf st /\ full_partition st /\ (Forall answered ops -> mirror st).
Proof. exact reachable. Qed.

Theorem c15_idempotent : forall st g c a i,
  lookup g (subs st) = Some i -> step st (Subscribe g c a) = (st, RStatus sl_OK, None).
Proof. exact subscribe_idempotent. Qed.

Theorem c15_full : forall st g c a,
  lookup g (subs st) = None -> avail st = [] ->
  step st (Subscribe g c a) = (st, RStatus INVALID_INDEX, None) /\ failed (RStatus INVALID_INDEX).
Proof. exact subscribe_full. Qed.

(* a call that fails -- rejection or command timeout -- leaves the number of free indices unchanged *)
Theorem c15_fail_keeps_free : forall st o, is_call o ->
  failed (snd (fst (step st o))) ->
  length (avail (st_of (step st o))) = length (avail st).
Proof. exact fail_keeps_free. Qed.

(* non-vacuity: a reachable state with a subscribed group, a free slot and a failed call *)
Example c15_example :
  let st := run {| subs := []; avail := []; ncp := [(0x22, 1); (0, 0); (0, 0)] |}
               [Init 0 []; Subscribe 0x11 2 (Ans 0); Subscribe 0x33 1 TimeoutLost; Unsubscribe 0x22 (Ans 1)] in
  map fst (subs st) = [0x22; 0x11] /\ avail st = [1] /\ ncp st = [(0x22, 1); (0, 0); (0x11, 1)].
Proof. vm_compute. repeat split. Qed.

(* ---- the tie to the source text --------------------------------------------------------------------
   gen/GenMulticastFn.v is emitted on every run from the Python AST of Multicast.subscribe and
   Multicast.unsubscribe (coroutines with a single await: the outcome of the awaited table write is a
   parameter).  The host side of [step] -- the dict of subscriptions, the set of free indices, the
   reported result, the table write issued -- is what the source does; the free indices are compared
   as a set (the source pops an index and adds it back where the model leaves the list alone). *)
Require Import BV.gen.GenMulticastFn BV.proofs.MulticastSrc_proofs.
Theorem c15_source_subscribe : forall st g choice a,
  let '(s', av', r, w) := py_subscribe (subs st) (avail st) g choice a in
  let '(st', r', w') := step st (Subscribe g choice a) in
  subs st' = s' /\ seteq (avail st') av' /\ r' = r /\ w' = w.
Proof. exact src_subscribe. Qed.
Theorem c15_source_unsubscribe : forall st g a,
  let '(s', av', r, w) := py_unsubscribe (subs st) (avail st) g a in
  let '(st', r', w') := step st (Unsubscribe g a) in
  subs st' = s' /\ avail st' = av' /\ r' = r /\ w' = w.
Proof. exact src_unsubscribe. Qed.

(* ---- the rest of the class from its source text ----------------------------------------------------------------------
   gen/GenMulticastInitFn.v is emitted on every run from the Python AST of Multicast.__init__, _initialize and startup:
   every `for` loop is a fold of one emitted step function, the NCP's answers are oracle arguments (cfg: the table-size read,
   rd: the entry reads, o: per subscribe call the element set.pop() returns and the outcome of the table write; None = the
   awaited command raised).  Vocabulary (proofs/MulticastInitSrc_proofs.v):
   startup_groups co   := the groups of every endpoint other than 0, in order (co = items of coordinator.endpoints, an
                          endpoint being the iteration order of its member_of)
   sub_step o          := one Subscribe of the model with the oracle's choice and answer, unless an earlier one raised
   after_init st ss rs := (st_of (step st (Init ss rs)), 0, [], RStatus 0)
   model_startup       := fold_left (sub_step o) (startup_groups co) (after_init st ss rs)
   choices_ok          := along that run, whenever the free set is consulted the oracle names one of its elements
                          (what set.pop() returns), or the set is empty                                                  *)
Require Import BV.gen.GenMulticastInitFn BV.proofs.MulticastInitSrc_proofs.

Theorem c15_source_init : py_init = ([], []).
Proof. exact src_init. Qed.

(* one step of the scan: ANY non-zero endpoint byte means "in use" (the group is recorded with the index), endpoint 0
   means free, an unreadable entry is neither *)
Theorem c15_source_scan_entry : forall rd s a i status g ep,
  rd i = Some (status, (g, ep)) ->
  py_initialize_loop1 rd (s, a, Running) i =
    if status_ok status then
      if ep =? 0 then (s, set_add i a, Running) else (dict_set g i s, a, Running)
    else (s, a, Running).
Proof. exact src_scan_entry. Qed.
Theorem c15_source_entry_in_use : forall rd s a i status g ep,
  rd i = Some (status, (g, ep)) -> status_ok status = true -> ep <> 0 ->
  py_initialize_loop1 rd (s, a, Running) i = (dict_set g i s, a, Running).
Proof. exact src_scan_entry_in_use. Qed.
Theorem c15_source_entry_free : forall rd s a i status g,
  rd i = Some (status, (g, 0)) -> status_ok status = true ->
  py_initialize_loop1 rd (s, a, Running) i = (s, set_add i a, Running).
Proof. exact src_scan_entry_free. Qed.
Theorem c15_source_entry_unreadable : forall rd s a i status e,
  rd i = Some (status, e) -> status_ok status = false ->
  py_initialize_loop1 rd (s, a, Running) i = (s, a, Running).
Proof. exact src_scan_entry_unreadable. Qed.

(* _initialize is the model's Init on every table and every sequence of read statuses: the size read (configuration id 6,
   CONFIG_MULTICAST_TABLE_SIZE) answered with status ss and the table's length, the read of index j with the j-th status
   and the j-th entry *)
Theorem c15_source_initialize : forall st ss rs cfg rd,
  cfg 6 = Some (ss, N.of_nat (length (ncp st))) ->
  (forall j, (j < length (ncp st))%nat -> rd (N.of_nat j) = Some (nth j rs 0, nth j (ncp st) (0, 0))) ->
  let '(s', av', r) := py_initialize (subs st) (avail st) cfg rd in
  let '(st', r', w') := step st (Init ss rs) in
  subs st' = s' /\ avail st' = av' /\ r' = r /\ w' = None /\ ncp st' = ncp st.
Proof. exact src_initialize. Qed.

(* startup(coordinator) is Init followed by one Subscribe per group of every endpoint other than 0, in order, stopping at
   the first that raises: same dict, same set of free indices, same number of calls, same table writes in order, same
   outcome *)
Theorem c15_source_startup : forall st ss rs coordinator cfg rd o,
  cfg 6 = Some (ss, N.of_nat (length (ncp st))) ->
  (forall j, (j < length (ncp st))%nat -> rd (N.of_nat j) = Some (nth j rs 0, nth j (ncp st) (0, 0))) ->
  choices_ok o (after_init st ss rs) (startup_groups coordinator) ->
  let '(s', av', k, ws, r) := py_startup (subs st) (avail st) coordinator cfg rd o in
  let '(st', k', ws', r') := model_startup st ss rs coordinator o in
  subs st' = s' /\ seteq (avail st') av' /\ k' = k /\ ws' = ws /\ r' = r.
Proof. exact src_startup. Qed.

(* that composite is a run of the model's operations, so the theorems above apply to it *)
Theorem c15_source_startup_is_run : forall st ss rs coordinator o,
  exists ops, Forall is_call ops /\
    fst (fst (fst (model_startup st ss rs coordinator o))) = run st (Init ss rs :: ops).
Proof. exact startup_is_run. Qed.
Theorem c15_source_startup_partition : forall t ss rs coordinator o,
  distinct_groups t -> status_ok ss = true -> Forall (fun r => status_ok r = true) rs ->
  let st := fst (fst (fst (model_startup {| subs := []; avail := []; ncp := t |} ss rs coordinator o))) in
  wf st /\ full_partition st.
Proof. exact startup_partition. Qed.

(* non-vacuity: endpoint byte 242 is in use; endpoint 0 of the coordinator is skipped; the group listed by two endpoints is
   written once; the third call times out and ends start-up before 0x44 is tried *)
Example c15_source_startup_example :
  let t := [(0x22, 242); (0, 0); (0x55, 0)] in
  let cfg := fun id => if id =? 6 then Some (0, 3) else None in
  let rd := fun i => Some (0, nth (N.to_nat i) t (0, 0)) in
  let o := fun k => if k =? 2 then (1, TimeoutLost) else (2, Ans 0) in
  startup_groups [(0, [0x33]); (1, [0x11]); (2, [0x11; 0x66; 0x44])] = [0x11; 0x11; 0x66; 0x44] /\
  py_startup [(0x99, 7)] [5] [(0, [0x33]); (1, [0x11]); (2, [0x11; 0x66; 0x44])] cfg rd o
    = ([(0x22, 0); (0x11, 2)], [1], 3, [(2, 0x11, 1); (1, 0x66, 1)], RRaised).
Proof. vm_compute. split; reflexivity. Qed.

(* ---- start-up as one operation ----------------------------------------------------------------------------------------
   model/Multicast.v: [Startup ss rs calls a] is Multicast.startup(coordinator) -- the table scan, then one subscribe per
   group of the coordinator's endpoints other than 0, in order, duplicates kept; calls = those groups, each with the index
   set.pop() returns should the call reach the pop; every table write of the call is answered by [a]; a subscribe that
   raises (command timeout) ends the call.  [xop] = a single-write operation ([Plain o]) or a start-up, [xstep] / [xrun] run
   them; an [xstep] reports all the table writes of the call, in order.  Vocabulary (proofs/MulticastStartup_proofs.v):
   readable ss rs        := status_ok ss = true /\ Forall (fun r => status_ok r = true) rs
   replied a             := a is a response (accepting or refusing), not a timeout
   write_fails a         := a is a refusing response, or a timeout (write lost or applied)
   scan_of c             := the (ss, rs) of the table scan operation c starts with: [Plain (Init ..)] and [Startup ..]
   xanswered c           := every read of c is answered with success and every write is answered (accept / reject)
   scan_admissible st c  := if c scans, the NCP table of st holds each group at most once and the reads succeed
   scans_admissible st cs:= that, for every operation of cs at the state it is applied to
   wgroup w              := the group of a table write (index, group, endpoint)                                          *)
Require Import BV.proofs.MulticastStartup_proofs.

(* on sequences without a start-up the extended run is the old one *)
Theorem c15_xrun_plain : forall ops st, xrun st (map Plain ops) = run st ops.
Proof. exact xrun_plain. Qed.

(* a start-up is the scan followed by subscribe calls of the model, at most one per listed group *)
Theorem c15_startup_is_run : forall st ss rs calls a,
  exists ops, Forall is_call ops /\ (replied a -> Forall answered ops) /\ (length ops <= length calls)%nat /\
    xst_of (xstep st (Startup ss rs calls a)) = run st (Init ss rs :: ops).
Proof. exact startup_is_plain_run. Qed.

(* every index free or used by exactly one group: one operation, start-up included, whatever the writes are answered *)
Theorem c15_xpartition : forall st c, scan_admissible st c ->
  (scan_of c = None -> wf st /\ full_partition st) ->
  wf (xst_of (xstep st c)) /\ full_partition (xst_of (xstep st c)).
Proof. exact xstep_partition. Qed.

(* ... and every operation sequence, of any length, with start-ups and scans anywhere (timeouts included) *)
Theorem c15_xrun_partition : forall cs st, wf st -> full_partition st -> scans_admissible st cs ->
  wf (xrun st cs) /\ full_partition (xrun st cs).
Proof. exact xrun_partition. Qed.

Theorem c15_xreachable : forall s0 a0 t c cs, scan_of c <> None ->
  scans_admissible {| subs := s0; avail := a0; ncp := t |} (c :: cs) ->
  let st := xrun {| subs := s0; avail := a0; ncp := t |} (c :: cs) in
  wf st /\ full_partition st.
Proof. exact xreachable. Qed.

(* a table the host mirrors holds each group at most once, so in accept / reject sequences every later scan is admissible *)
Theorem c15_mirror_distinct : forall st, wf st -> mirror st -> distinct_groups (ncp st).
Proof. exact mirror_distinct. Qed.

(* host view = NCP table along every accept / reject sequence with start-ups and scans anywhere *)
Theorem c15_xmirror : forall st c, wf st /\ full_partition st /\ mirror st -> xanswered c ->
  let st' := xst_of (xstep st c) in wf st' /\ full_partition st' /\ mirror st'.
Proof. exact xstep_good. Qed.

Theorem c15_xrun_answered : forall cs st, wf st -> full_partition st -> mirror st -> Forall xanswered cs ->
  wf (xrun st cs) /\ full_partition (xrun st cs) /\ mirror (xrun st cs).
Proof. exact xrun_answered. Qed.

(* from any table in which each group appears at most once, the first operation being a start-up or a scan *)
Theorem c15_xreachable_answered : forall s0 a0 t c cs, distinct_groups t -> scan_of c <> None ->
  Forall xanswered (c :: cs) ->
  let st := xrun {| subs := s0; avail := a0; ncp := t |} (c :: cs) in
  wf st /\ full_partition st /\ mirror st.
Proof. exact xreachable_answered. Qed.

(* inside a start-up a subscribed group is passed over without a table write *)
Theorem c15_startup_skips_subscribed : forall st g c calls a i,
  lookup g (subs st) = Some i -> startup_subs st ((g, c) :: calls) a = startup_subs st calls a.
Proof. exact startup_skips_subscribed. Qed.

(* a start-up whose writes fail -- refused, or timed out -- leaves the host's view as the scan found it: the number of
   free indices is unchanged *)
Theorem c15_startup_fail_keeps_free : forall st ss rs calls a, write_fails a ->
  let st0 := st_of (step st (Init ss rs)) in
  let st' := xst_of (xstep st (Startup ss rs calls a)) in
  subs st' = subs st0 /\ avail st' = avail st0 /\ length (avail st') = length (avail st0).
Proof. exact startup_fail_keeps_free. Qed.

(* an accepted start-up returns, writes no group twice however many endpoints list it, writes no group the scan found
   programmed, and takes one free index per write *)
Theorem c15_startup_writes_once : forall st ss rs calls s,
  distinct_groups (ncp st) -> readable ss rs -> status_ok s = true ->
  let st0 := st_of (step st (Init ss rs)) in
  let '(st', r, ws) := xstep st (Startup ss rs calls (Ans s)) in
  r = RStatus 0 /\ NoDup (map wgroup ws) /\
  (forall w, In w ws -> lookup (wgroup w) (subs st0) = None) /\
  (length (avail st') + length ws = length (avail st0))%nat.
Proof. exact startup_writes_once. Qed.

(* non-vacuity: a group listed by two endpoints is written once; a timed-out start-up stops at its first write and keeps
   the free indices; a later start-up re-reads the table *)
Example c15_startup_example :
  let t := [(0x22, 242); (0, 0); (0, 0); (0x55, 0)] in
  xstep {| subs := [(0x99, 7)]; avail := [5]; ncp := t |} (Startup 0 [] [(0x11, 2); (0x22, 0); (0x11, 0); (0x66, 3)] (Ans 0))
    = ({| subs := [(0x22, 0); (0x11, 2); (0x66, 3)]; avail := [1];
          ncp := [(0x22, 242); (0, 0); (0x11, 1); (0x66, 1)] |}, RStatus 0, [(2, 0x11, 1); (3, 0x66, 1)]) /\
  xstep {| subs := []; avail := []; ncp := t |} (Startup 0 [] [(0x22, 0); (0x11, 3); (0x66, 1)] TimeoutApplied)
    = ({| subs := [(0x22, 0)]; avail := [1; 2; 3]; ncp := [(0x22, 242); (0, 0); (0, 0); (0x11, 1)] |}, RRaised, [(3, 0x11, 1)]) /\
  avail (xrun {| subs := []; avail := []; ncp := t |}
           [Startup 0 [] [(0x11, 1)] (Ans 0); Plain (Unsubscribe 0x22 (Ans 0)); Startup 0 [] [(0x11, 0); (0x33, 0)] (Ans 1)])
    = [0; 2; 3].
Proof. vm_compute. repeat split. Qed.

(* ---- the source of Multicast.startup against the operation ------------------------------------------------------------
   proofs/MulticastStartupSrc_proofs.v:  oracle_calls o k gs := the groups gs, the j-th with the choice of o (k + j);
   same_answer o a := every table write is answered by a.  With the oracles as in c15_source_startup, the emitted coroutine
   is ONE [Startup] operation: same dict, same set of free indices, same table writes in order, same outcome. *)
Require Import BV.proofs.MulticastStartupSrc_proofs.
Theorem c15_source_startup_op : forall st ss rs coordinator cfg rd o a,
  cfg 6 = Some (ss, N.of_nat (length (ncp st))) ->
  (forall j, (j < length (ncp st))%nat -> rd (N.of_nat j) = Some (nth j rs 0, nth j (ncp st) (0, 0))) ->
  same_answer o a ->
  choices_ok o (after_init st ss rs) (startup_groups coordinator) ->
  let '(s', av', k, ws, r) := py_startup (subs st) (avail st) coordinator cfg rd o in
  let '(st', r', ws') := xstep st (Startup ss rs (oracle_calls o 0 (startup_groups coordinator)) a) in
  subs st' = s' /\ seteq (avail st') av' /\ ws' = ws /\ r' = r.
Proof. exact src_startup_op. Qed.
