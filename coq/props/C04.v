(* C04 -- the host receiver never hands a frame up twice or out of order, whatever arrives.
   Statements only; proofs in proofs/AshRx_proofs.v.  [rx_frame] transliterates
   AshProtocol.frame_received / data_frame_received / rstack_frame_received (tied by the C04
   correspondence); [accepted] is the specification's in-sequence receiver. *)
From Coq Require Import NArith List Bool.
Import ListNotations.
Require Import BV.model.AshCodec BV.model.AshRx BV.proofs.AshRx_proofs.
Open Scope N_scope.

(* a DATA frame's payload goes up iff its number is the expected one -- every state, every frame *)
Theorem c04_accept_iff : forall rx frm re ack p,
  In (Up p) (snd (rx_frame rx (Data frm re ack p))) <-> frm = rx.
Proof. exact accept_iff. Qed.

(* every DATA frame is answered by exactly one ACK or NAK carrying the next expected number;
   an ACK when accepted (or when it is a retransmission), a NAK otherwise *)
Theorem c04_one_reply : forall rx frm re ack p,
  let '(rx', o) := rx_frame rx (Data frm re ack p) in
  writes o = [if (frm =? rx) || negb (re =? 0) then WAck rx' else WNak rx']
  /\ rx' = (if frm =? rx then (rx + 1) mod 8 else rx)
  /\ ups o = (if frm =? rx then [p] else []).
Proof. exact data_one_reply. Qed.

Theorem c04_one_reply_per_data : forall rx fs,
  length (writes (snd (rx_frames rx fs))) = length (filter is_data fs).
Proof. intros rx fs. apply one_write_per_data. Qed.

(* whole histories: what goes up is exactly what an in-sequence receiver accepts, each frame at
   most once and in arrival order, and with consecutive numbers modulo 8 between RSTACKs *)
Theorem c04_in_sequence : forall rx fs,
  ups (snd (rx_frames rx fs)) = map payload_of (accepted rx fs) /\ sublist (accepted rx fs) fs.
Proof. intros rx fs. split; [apply ups_accepted | apply accepted_sublist]. Qed.

Theorem c04_consecutive : forall rx fs, rx < 8 -> existsb is_rstack fs = false ->
  map frmnum_of (accepted rx fs) =
    map (fun k => (rx + N.of_nat k) mod 8) (seq 0 (length (accepted rx fs))).
Proof. intros rx fs Hrx Hno. apply accepted_consecutive; assumption. Qed.

Theorem c04_rstack : forall rx v code, rx_frame rx (Rstack v code) = (0, [RstInfo; ResetUp code]).
Proof. exact rstack_restarts. Qed.

Theorem c04_error : forall rx v code,
  fst (rx_frame rx (Error v code)) = rx /\ resets (snd (rx_frame rx (Error v code))) = [code]
  /\ ups (snd (rx_frame rx (Error v code))) = [] /\ writes (snd (rx_frame rx (Error v code))) = [].
Proof. exact error_reports. Qed.

Theorem c04_quiet : forall rx f,
  match f with Ack _ _ _ | Nak _ _ _ | Rst => True | _ => False end ->
  fst (rx_frame rx f) = rx /\ ups (snd (rx_frame rx f)) = [] /\ resets (snd (rx_frame rx f)) = []
  /\ writes (snd (rx_frame rx f)) = [].
Proof. exact quiet. Qed.

(* non-vacuity: 17 in-sequence frames cross the wrap twice and are all accepted *)
Example c04_wrap :
  let fs := map (fun k => Data (N.of_nat k mod 8) 0 0 [N.of_nat k]) (seq 0 17) in
  ups (snd (rx_frames 0 fs)) = map (fun k => [N.of_nat k]) (seq 0 17) /\ fst (rx_frames 0 fs) = 1.
Proof. vm_compute. split; reflexivity. Qed.

(* ---- the tie to the source text ------------------------------------------------------------------
   gen/GenAshRxFn.v is emitted on every run from the Python AST of AshProtocol.frame_received,
   data_frame_received, ack_/nak_/rst_/rstack_/error_frame_received and _enter_failed_state
   (harness/pysrc.py: self attributes are state variables, recognised calls are effects in order).
   The receiver model every theorem above speaks of changes the expected number exactly as the
   source does and makes the same writes and upward calls in the same order. *)
Require Import BV.gen.GenAshRxFn BV.proofs.AshRxSrc_proofs.
Theorem c04_source_receiver : forall rx tx fl code f,
  let '(rx', _, _, _, eff) := py_frame_received (rx, tx, fl, code) f in
  rx' = fst (rx_frame rx f) /\ flat_map eff_obs eff = filter is_obs (snd (rx_frame rx f)).
Proof. exact src_rx_frame. Qed.
