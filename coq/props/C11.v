(* C11 -- the reset handshake completes only on the NCP's software-reset acknowledgement.
   Statements only; proofs in proofs/Gateway_proofs.v.  [gstep] transliterates Gateway.reset /
   reset_received / wait_for_startup_reset / connection_lost / eof_received (bellows/uart.py, as
   repaired) and EZSP.enter_failed_state/close; tied to the real classes by the C11 correspondence. *)
From Coq Require Import ZArith NArith List Bool.
Import ListNotations.
Require Import BV.gen.GenAsh BV.gen.GenProto BV.model.AshCodec BV.model.AshRx BV.model.AshHost
               BV.model.Gateway BV.proofs.Gateway_proofs.
Open Scope N_scope.

(* vocabulary (proofs file):
   gfinal es          := fst (grun g_init es)        gouts es := concat (snd (grun g_init es))
   request_pending st := r_waiting st = true /\ r_fut st = FPend /\ r_attr st = true
   startup_pending st := s_waiting st = true /\ s_fut st = FPend /\ s_attr st = true
   quiet st           := the state between two events: no resolved-but-unconsumed future (r_fut st and
                         s_fut st are FNone or FPend), and for each of the two waits "a caller is
                         suspended", "the future is pending" and "the attribute is set" coincide:
                         r_waiting st = true <-> r_fut st = FPend,  r_attr st = true <-> r_fut st = FPend,
                         s_waiting st = true <-> s_fut st = FPend,  s_attr st = true <-> s_fut st = FPend.
                         It holds in every reachable state (c11_quiet_reachable).                      *)

(* the reset request writes CANCEL followed by the RST frame C0 38 BC and the flag *)
Theorem c11_rst_bytes : write_frame [CANCEL] Rst = [0x1A; 0xC0; 0x38; 0xBC; 0x7E].
Proof. vm_compute. reflexivity. Qed.

Theorem c11_request_writes_rst : forall st, r_attr st = false -> t_open st = true ->
  snd (gstep st GReq) = [GWriteRst] /\ request_pending (fst (gstep st GReq)).
Proof. exact request_writes_rst. Qed.

(* completion: a reset() call returns normally only in a step that delivered RSTACK with the
   software-reset code while the request was pending -- all 256 codes, any batch *)
Theorem c11_completes_only_on_software_rstack : forall es e, quiet (gfinal es) ->
  In (GResetDone ROk) (snd (gstep (gfinal es) e)) ->
  exists l, e = GBatch l /\ In (UReset RESET_SOFTWARE) l /\ r_fut (gfinal es) = FPend /\ r_attr (gfinal es) = true.
Proof. exact completes_only_on_software_rstack. Qed.

Theorem c11_quiet_reachable : forall es, quiet (gfinal es).
Proof. exact quiet_reachable. Qed.

(* and it does complete: RSTACK(software) alone, while pending, ends the request normally *)
(* (the side conditions first written here -- no joined callers, start-up future unresolved -- are
   not needed) *)
Theorem c11_completes : forall st, request_pending st ->
  In (GResetDone ROk) (snd (gstep st (GBatch [UReset RESET_SOFTWARE]))) /\
  r_attr (fst (gstep st (GBatch [UReset RESET_SOFTWARE]))) = false.
Proof. exact completes_on_software_rstack. Qed.

(* otherwise the reset timeout ends it *)
Theorem c11_timeout : forall st, request_pending st ->
  In (GResetDone RTimeout) (snd (gstep st GTimer)) /\ r_attr (fst (gstep st GTimer)) = false
  /\ r_waiting (fst (gstep st GTimer)) = false.
Proof. exact reset_timeout. Qed.

(* an RSTACK with any other code (and ERROR / retry exhaustion, which reach the gateway the same
   way) is an NCP failure: the application is told, no waiter is completed by it *)
Theorem c11_other_code_is_failure : forall st code, code <> RESET_SOFTWARE ->
  In GAppFailed (snd (handle_up st (UReset code))) /\
  r_fut (fst (handle_up st (UReset code))) = r_fut st /\ s_fut (fst (handle_up st (UReset code))) = s_fut st.
Proof. exact other_code_is_failure. Qed.

(* an RSTACK(software) that nobody waits for changes nothing: one that arrives before the request,
   after the timeout, or a second one never completes a later request *)
Theorem c11_unsolicited_ignored : forall st,
  ~ (r_attr st = true /\ r_fut st = FPend) -> ~ (s_attr st = true /\ s_fut st = FPend) ->
  handle_up st (UReset RESET_SOFTWARE) = (st, []).
Proof. exact unsolicited_ignored. Qed.

(* connection loss (or EOF) releases every pending reset / start-up waiter with the error -- whatever
   its position in the batch, also after a failure code that already closed the gateway, also when it
   is the connection_lost(None) of a deliberate close -- and leaves both attributes cleared.
   Correction: as first written the last conjunct was  s_attr (...) = false  for every st.  That is
   false of the (unreachable) state whose start-up attribute is set although there is no future:
     st = g_init with s_attr := true (s_fut = FNone), l = [ULost true]:
     connection_lost only touches a pending start-up future and the attribute is cleared by the
     waiter's finally block, so s_attr stays true (checked below).
   The conjunct now carries exactly the condition it needs; every quiet -- hence every reachable --
   state satisfies it (s_attr st = true -> s_fut st = FPend). *)
Theorem c11_loss_releases : forall st l u, (u = UEof \/ exists b, u = ULost b) -> In u l ->
  ~ In (UReset RESET_SOFTWARE) l ->
  (request_pending st -> In (GResetDone RExn) (snd (gstep st (GBatch l)))) /\
  (startup_pending st -> In (GStartupDone false) (snd (gstep st (GBatch l)))) /\
  r_attr (fst (gstep st (GBatch l))) = false /\
  ((s_attr st = true -> s_fut st <> FNone) -> s_attr (fst (gstep st (GBatch l))) = false).
Proof. exact loss_releases. Qed.

Example c11_loss_releases_counterexample :
  s_attr (fst (gstep (upd_s g_init true FNone false) (GBatch [ULost true]))) = true.
Proof. reflexivity. Qed.

Corollary c11_loss_clears_attributes : forall es l u, (u = UEof \/ exists b, u = ULost b) -> In u l ->
  ~ In (UReset RESET_SOFTWARE) l ->
  r_attr (fst (gstep (gfinal es) (GBatch l))) = false /\ s_attr (fst (gstep (gfinal es) (GBatch l))) = false.
Proof.
  intros es l u Hu Hin Hn. destruct (c11_loss_releases (gfinal es) l u Hu Hin Hn) as (_ & _ & Hr & Hs).
  split; [exact Hr|]. apply Hs. intros Ha E.
  destruct (c11_quiet_reachable es) as (_ & _ & _ & _ & _ & Hq). apply Hq in Ha. rewrite E in Ha. discriminate Ha.
Qed.

(* nothing stays pending after a loss, even when the RSTACK came first in the same iteration *)
Theorem c11_loss_leaves_nothing_pending : forall st l u, (u = UEof \/ exists b, u = ULost b) -> In u l ->
  quiet st -> let st' := fst (gstep st (GBatch l)) in
  r_waiting st' = false /\ s_waiting st' = false /\ r_fut st' = FNone /\ s_fut st' = FNone.
Proof. exact loss_leaves_nothing_pending. Qed.

(* after a completed handshake both directions restart at frame number zero, whatever they were *)
Theorem c11_numbers_zero : forall st v code,
  tx_seq (fst (apply_frame st (Rstack v code))) = 0 /\ rx_seq (fst (apply_frame st (Rstack v code))) = 0.
Proof. exact numbers_zero. Qed.

Theorem c11_constants : RESET_SOFTWARE = 0x0B /\ RESET_TIMEOUT = 5.
Proof. split; reflexivity. Qed.

(* (the expected value first written for the last step was [2; 3], "transport closed"; without a
   registered application callback nothing closes the transport, so the next request writes RST again;
   with the callback registered the failure closes it and the next request is refused) *)
Example c11_example :
  map (flat_map enc_gout) (snd (grun g_init [GReq; GBatch [UReset 2]; GBatch [UReset 11; ULost true]; GReq]))
  = [[1]; [4]; [4; 2; 0]; [1]]%Z.
Proof. vm_compute. reflexivity. Qed.

Example c11_example_with_callback :
  map (flat_map enc_gout) (snd (grun g_init [GAddCallback; GReq; GBatch [UReset 11; ULost true]; GReq]))
  = [[]; [1]; [4; 6; 5; 2; 0]; [2; 3]]%Z.
Proof. vm_compute. reflexivity. Qed.

(* ---- the tie to the source text: Gateway.reset_received / connection_lost / eof_received as emitted
   from their Python AST on every run (gen/GenGatewayFn.v) are the model's [handle_up] *)
Require Import BV.gen.GenGatewayFn BV.proofs.GatewaySrc_proofs.
Theorem c11_source_upcalls : forall st u,
  same_as (fst (handle_up st u)) (snd (handle_up st u)) st (py_up (gabs st) u).
Proof. exact src_handle_up. Qed.

(* the start-up wait completes on the NCP's software-reset acknowledgement (when no reset request is pending, which
   would take it) *)
Require Import BV.proofs.GatewayPos_proofs.
Theorem c11_startup_wait_completes : forall st,
  s_attr st = true -> s_fut st = FPend -> s_waiting st = true ->
  (r_attr st = false \/ r_fut st <> FPend) ->
  In (GStartupDone true) (snd (gstep st (GBatch [UReset RESET_SOFTWARE]))) /\
  s_attr (fst (gstep st (GBatch [UReset RESET_SOFTWARE]))) = false /\
  s_waiting (fst (gstep st (GBatch [UReset RESET_SOFTWARE]))) = false /\
  s_fut (fst (gstep st (GBatch [UReset RESET_SOFTWARE]))) = FNone.
Proof. exact startup_wait_completes. Qed.

(* ---- the tie to the source text, the ASYNCHRONOUS half: Gateway.reset and Gateway.wait_for_startup_reset as
   emitted from their Python AST on every run (gen/GenGatewayAsyncFn.v: one function per segment between two awaits,
   over the control state of GenGatewayFn.v; try/finally and `async with asyncio_timeout(RESET_TIMEOUT)` resolved
   structurally; the done-callback _reset_cleanup read off add_done_callback) and AshProtocol.send_reset /
   _write_frame (bellows/ash.py).  [req_of_src], [startup_of_src], [settle_of_src], [timer_of_src]
   (proofs/GatewayAsyncSrc_proofs.v) run those segments the way the event loop does and read the model's waiter
   bookkeeping and outputs off the status each segment ends with. *)
Require Import BV.gen.GenGatewayAsyncFn BV.proofs.GatewayAsyncSrc_proofs.

(* the model's GReq is the first segment of reset(): joins the request in progress, or writes the RST, creates the
   future (with its clean-up callback) and waits under the reset timeout, or raises because the transport is closed.
   The hypothesis holds in every state between two events (quiet: c11_quiet_reachable) *)
Theorem c11_source_reset_request : forall st, (r_attr st = true -> r_fut st = FPend) ->
  gstep st GReq = req_of_src st.
Proof. exact src_gstep_req. Qed.

(* on the source state alone: a request that finds none in progress writes exactly CANCEL + RST + FLAG, creates the
   pending future, sets the attribute and suspends at the await under RESET_TIMEOUT ... *)
Theorem c11_source_reset_begin : forall ra rf sa sf run gw cb eff, ra = false ->
  py_Gateway_reset_begin (ra, rf, sa, sf, true, run, gw, cb, eff)
  = ((true, FPend, sa, sf, true, run, gw, cb, eff ++ [PSendReset [0x1A; 0xC0; 0x38; 0xBC; 0x7E]]),
     ASuspend 2 FutReset (Some RESET_TIMEOUT)).
Proof. exact src_reset_begin_new. Qed.
(* ... and a reset request always writes the RST unless one is already in progress (or the transport is closed:
   NcpFailure before any future exists); the bytes are the model's [write_frame [CANCEL] Rst] *)
Theorem c11_source_reset_writes_rst : forall s, let '(s', r) := py_Gateway_reset_begin s in
  effs s' = effs s ++
    (if a_rattr s then []
     else let '(_, _, _, _, op, _, _, _, _) := s in
          if op then [PSendReset (write_frame [CANCEL] Rst)] else []).
Proof. exact src_reset_writes_rst. Qed.
Theorem c11_source_send_reset : py_AshProtocol_send_reset true = WfWritten (write_frame [CANCEL] Rst) /\
  py_AshProtocol_send_reset false = WfNcpFailure.
Proof. exact src_send_reset_both. Qed.

(* the ways out of reset(), as the source has them: result, exception set by connection_lost, the reset timeout
   (TimeoutError; the future is cancelled, which releases the callers that joined), cancellation; a result that
   arrives in the iteration in which the timeout fires is still a timeout *)
Theorem c11_source_reset_exits : forall ra sa sf op run gw cb eff,
  let s f := (ra, f, sa, sf, op, run, gw, cb, eff) in
  let s' f := (false, f, sa, sf, op, run, gw, cb, eff) in
  reset_leave (s FOk) WkFuture = (s' FOk, AReturn) /\
  reset_leave (s FExn) WkFuture = (s' FExn, ARaise EXFuture) /\
  reset_leave (s FPend) WkTimeout = (s' FCancelled, ARaise EXTimeout) /\
  reset_leave (s FPend) WkCancel = (s' FCancelled, ARaise EXCancelled) /\
  reset_leave (s FOk) WkTimeout = (s' FOk, ARaise EXTimeout).
Proof. exact src_reset_exits. Qed.
(* after any way out the reset attribute is cleared (both awaits of reset()) *)
Theorem c11_source_reset_exit_clears : forall s w, a_rfut s <> FNone -> (w = WkFuture -> is_res (a_rfut s) = true) ->
  a_rattr (fst (reset_leave s w)) = false /\ ended (snd (reset_leave s w)) /\
  a_rattr (fst (reset_join_leave s w)) = false /\ ended (snd (reset_join_leave s w)).
Proof. exact src_reset_exit_clears. Qed.
(* a timeout leaves nothing pending *)
Theorem c11_source_timeout_nothing_pending : forall s, a_rfut s = FPend ->
  let '(s', r) := reset_leave s WkTimeout in
  r = ARaise EXTimeout /\ a_rattr s' = false /\ a_rfut s' = FCancelled /\
  snd (reset_join_leave s' WkFuture) = ARaise EXCancelled.
Proof. exact src_timeout_nothing_pending. Qed.

(* the model's GStartup is the first segment of wait_for_startup_reset() (the assert, the new future, the await
   inside try/finally); every way out runs the finally clause *)
Theorem c11_source_startup_wait : forall st, gstep st GStartup = startup_of_src st.
Proof. exact src_gstep_startup. Qed.
Theorem c11_source_startup_exit_clears : forall s w, a_sfut s <> FNone -> (w = WkFuture -> is_res (a_sfut s) = true) ->
  a_sattr (fst (startup_leave s w)) = false /\ ended (snd (startup_leave s w)).
Proof. exact src_startup_exit_clears. Qed.

(* the second half of every model step that resolves a future: [settle] is the clean-up callback of the finished
   reset future, then the resumed segments of its waiters, then the resumed segment of the start-up waiter with its
   finally clause; GTimer is the cancellation of the awaited future by the expired timeout followed by the same.
   startup_held st := s_fut st <> FNone -> s_waiting st = true  (the start-up future exists only while its creator
   is suspended on it; holds in every quiet state and is kept by the upward calls) *)
Theorem c11_source_settle : forall st, startup_held st -> settle st = settle_of_src st.
Proof. exact src_settle. Qed.
Theorem c11_source_timer : forall st, startup_held st -> gstep st GTimer = timer_of_src st.
Proof. exact src_gstep_timer. Qed.
Theorem c11_source_batch : forall st l, startup_held st ->
  gstep st (GBatch l) = (let '(st1, o1) := handle_ups st l in let '(st2, o2) := settle_of_src st1 in (st2, o1 ++ o2)).
Proof. exact src_gstep_batch. Qed.
Theorem c11_source_startup_held : forall es, startup_held (gfinal es).
Proof. exact startup_held_reachable. Qed.
