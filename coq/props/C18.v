(* C18 -- status normalisation is total and reports success only for success.
   Only statements here; proofs live in proofs/Status_proofs.v.  The table [status_map] and the
   enum member lists are regenerated from /repo on every run (gen/GenStatus.v). *)
From Coq Require Import NArith List Bool String.
Import ListNotations.
Require Import BV.gen.GenStatus BV.model.Status BV.proofs.Status_proofs.
Open Scope N_scope.

(* pinned by the property text: the success code of both legacy families is 0, OK is 0 *)
Theorem c18_success_codes :
  success_code FEzsp = 0 /\ success_code FEmber = 0 /\ sl_OK = 0 /\ sl_FAIL <> sl_OK.
Proof. vm_compute. repeat split; discriminate. Qed.

(* every one of the 2 x 256 legacy codes, defined or not *)
Theorem c18_ok_iff : forall (f : family) (c : N),
  f <> FUnified -> c < 256 -> (normalise f c = sl_OK <-> c = success_code f).
Proof. exact ok_iff_legacy. Qed.

(* every unified status, defined or not, any width *)
Theorem c18_unified_unchanged : forall c : N, normalise FUnified c = c.
Proof. exact unified_unchanged. Qed.

Theorem c18_unified_ok_iff : forall c : N, normalise FUnified c = sl_OK <-> c = success_code FUnified.
Proof. intros c. rewrite unified_unchanged. reflexivity. Qed.

Theorem c18_no_invented_codes : forall (f : family) (c : N),
  f <> FUnified -> normalise f c = sl_FAIL \/ In (fam_tag f, c, normalise f c) status_map.
Proof. exact legacy_output. Qed.

(* the codes that steer retries and start-up decisions, pinned by name *)
Definition maps_to (f : family) (legacy unified : string) : Prop :=
  match member legacy (match f with FEzsp => ezsp_members | _ => ember_members end),
        member unified sl_members with
  | Some c, Some u => normalise f c = u
  | _, _ => False
  end.

Theorem c18_pinned :
  maps_to FEmber "MAX_MESSAGE_LIMIT_REACHED" "ZIGBEE_MAX_MESSAGE_LIMIT_REACHED" /\
  maps_to FEmber "NETWORK_BUSY" "ZIGBEE_MAX_MESSAGE_LIMIT_REACHED" /\
  maps_to FEmber "NO_BUFFERS" "ALLOCATION_FAILED" /\
  maps_to FEmber "NOT_JOINED" "NOT_JOINED" /\
  maps_to FEmber "NOT_FOUND" "NOT_FOUND" /\
  maps_to FEmber "TABLE_ENTRY_ERASED" "NOT_FOUND" /\
  maps_to FEmber "INDEX_OUT_OF_RANGE" "INVALID_INDEX" /\
  maps_to FEmber "NETWORK_UP" "NETWORK_UP" /\
  maps_to FEmber "NETWORK_DOWN" "NETWORK_DOWN" /\
  maps_to FEmber "SUCCESS" "OK" /\
  maps_to FEzsp "SUCCESS" "OK".
Proof. vm_compute. repeat split. Qed.

(* non-vacuity: a mapped non-success code, an unmapped one, an undefined one *)
Example c18_examples :
  normalise FEmber 0x72 <> sl_OK /\ normalise FEmber 0x77 = sl_FAIL /\ normalise FEzsp 0xEE = sl_FAIL
  /\ normalise FUnified 0x12345 = 0x12345.
Proof. vm_compute. repeat split; discriminate. Qed.
