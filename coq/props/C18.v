(* C18 -- status normalisation is total and reports success only for success.
   Only statements here; proofs live in proofs/Status_proofs.v.  The table [status_map] and the
   enum member lists are regenerated from /repo on every run (gen/GenStatus.v). *)
From Coq Require Import NArith List Bool String.
Import ListNotations.
Require Import BV.gen.GenStatus BV.model.Status BV.proofs.Status_proofs.
Require Import BV.gen.GenStatusFn BV.proofs.StatusSrc_proofs.
Open Scope N_scope.

(* pinned by the property text: the success code of both legacy families is 0, OK is 0 *)
Theorem c18_success_codes :
  success_code FEzsp = 0 /\ success_code FEmber = 0 /\ sl_OK = 0 /\ sl_FAIL <> sl_OK.
Proof. vm_compute. repeat split; discriminate. Qed.

(* every one of the 2 x 256 legacy codes, defined or not *)
Theorem c18_ok_iff : forall (f : family) (c : N),
  f <> FUnified -> c < 256 -> (normalise f c = sl_OK <-> c = success_code f).
Proof. exact ok_iff_legacy. Qed.

(* every unified status, defined or not, any width *)
Theorem c18_unified_unchanged : forall c : N, normalise FUnified c = c.
Proof. exact unified_unchanged. Qed.

Theorem c18_unified_ok_iff : forall c : N, normalise FUnified c = sl_OK <-> c = success_code FUnified.
Proof. intros c. rewrite unified_unchanged. reflexivity. Qed.

Theorem c18_no_invented_codes : forall (f : family) (c : N),
  f <> FUnified -> normalise f c = sl_FAIL \/ In (fam_tag f, c, normalise f c) status_map.
Proof. exact legacy_output. Qed.

(* the codes that steer retries and start-up decisions, pinned by name *)
Definition maps_to (f : family) (legacy unified : string) : Prop :=
  match member legacy (match f with FEzsp => ezsp_members | _ => ember_members end),
        member unified sl_members with
  | Some c, Some u => normalise f c = u
  | _, _ => False
  end.

Theorem c18_pinned :
  maps_to FEmber "MAX_MESSAGE_LIMIT_REACHED" "ZIGBEE_MAX_MESSAGE_LIMIT_REACHED" /\
  maps_to FEmber "NETWORK_BUSY" "ZIGBEE_MAX_MESSAGE_LIMIT_REACHED" /\
  maps_to FEmber "NO_BUFFERS" "ALLOCATION_FAILED" /\
  maps_to FEmber "NOT_JOINED" "NOT_JOINED" /\
  maps_to FEmber "NOT_FOUND" "NOT_FOUND" /\
  maps_to FEmber "TABLE_ENTRY_ERASED" "NOT_FOUND" /\
  maps_to FEmber "INDEX_OUT_OF_RANGE" "INVALID_INDEX" /\
  maps_to FEmber "NETWORK_UP" "NETWORK_UP" /\
  maps_to FEmber "NETWORK_DOWN" "NETWORK_DOWN" /\
  maps_to FEmber "SUCCESS" "OK" /\
  maps_to FEzsp "SUCCESS" "OK".
Proof. vm_compute. repeat split. Qed.

(* non-vacuity: a mapped non-success code, an unmapped one, an undefined one *)
Example c18_examples :
  normalise FEmber 0x72 <> sl_OK /\ normalise FEmber 0x77 = sl_FAIL /\ normalise FEzsp 0xEE = sl_FAIL
  /\ normalise FUnified 0x12345 = 0x12345.
Proof. vm_compute. repeat split; discriminate. Qed.

(* ---- tie to the source text (gen/GenStatusFn.v, proofs/StatusSrc_proofs.v) --------------------------------------
   [py_from_ember_status] is emitted from the AST of sl_Status.from_ember_status, [py_SL_STATUS_MAP] from the AST of the
   expression that defines SL_STATUS_MAP; a status value is (class tag, integer), [sl_class] the class the classmethod is
   called on. *)

(* the dict the defining expression denotes is the table read from the live dict *)
Theorem c18_source_map :
  map flat_entry py_SL_STATUS_MAP = status_map /\ forallb entry_wf py_SL_STATUS_MAP = true.
Proof. exact (conj src_map_is_table src_map_wf). Qed.

(* every class, every integer (all 256 codes of the legacy classes, every 32-bit unified value and beyond): the emitted
   function returns -- it does not raise -- a unified status, the model's *)
Theorem c18_source_conversion : forall (f : family) (c : N),
  py_from_ember_status sl_class (fam_tag f, c) = PRet (sl_class, normalise f c).
Proof. exact source_conversion. Qed.

(* the KeyError of SL_STATUS_MAP[key] and the AttributeError of cls.FAIL are unreachable *)
Theorem c18_source_never_raises : forall (f : family) (c : N) (e : pyexn),
  py_from_ember_status sl_class (fam_tag f, c) <> PExn e.
Proof. exact source_never_raises. Qed.

Theorem c18_source_unified_unchanged : forall c : N,
  py_from_ember_status sl_class (fam_tag FUnified, c) = PRet (fam_tag FUnified, c).
Proof. exact source_unified_unchanged. Qed.

Theorem c18_source_ok_iff : forall (f : family) (c : N),
  f <> FUnified -> c < 256 ->
  (py_from_ember_status sl_class (fam_tag f, c) = PRet (sl_class, sl_OK) <-> c = success_code f).
Proof. exact source_ok_iff. Qed.

(* the per-version wrappers ([py_wrappers]: one row per version x wrapper x return statement x status position, from
   the AST of the function that version's class resolves the name to).  Below version 14 every status a wrapper
   returns went through the conversion (or is a unified member written in the source), and what is handed on is the
   conversion of the integer the NCP answered; a cast `t.sl_Status(x)` or a legacy field handed on as it is breaks
   the sweep behind this theorem *)
Theorem c18_source_wrappers_convert : forall r : wrapper_row,
  In r py_wrappers -> w_version r < 14 ->
  (w_kind r = KConv \/ exists m, w_kind r = KConst (sl_class, m)) /\
  ((forall c, wrapper_returns r c = PRet (sl_class, normalise (fam_of_tag (w_ans_class r)) c))
   \/ exists m, w_kind r = KConst (sl_class, m)).
Proof. exact wrappers_convert. Qed.

(* every version, 14 included (there the answers already are of the unified class) *)
Theorem c18_source_wrappers_return_conversion : forall r : wrapper_row,
  In r py_wrappers ->
  (forall c, wrapper_returns r c = PRet (sl_class, normalise (fam_of_tag (w_ans_class r)) c))
  \/ exists m, w_kind r = KConst (sl_class, m).
Proof. exact wrappers_return_conversion. Qed.

(* the table has a row for each of the wrappers the application steers by, in each of the 11 versions *)
Theorem c18_source_wrappers_cover : forall (v : N) (n : string),
  In v [4; 5; 6; 7; 8; 9; 10; 11; 12; 13; 14] -> In n steering_wrappers ->
  exists r, In r py_wrappers /\ w_version r = v /\ w_name r = n.
Proof. exact wrappers_cover. Qed.

(* every comparison of a value with status members in the controller modules: with success members only, or with
   unified members and an operand that was converted on every path that reaches the comparison *)
Theorem c18_source_compare_sites : forall s : compare_site, In s py_compare_sites -> site_ok s = true.
Proof. exact compare_sites_ok. Qed.

Theorem c18_source_success_compare : forall (f : family) (c : N) (m : pystatus),
  (f <> FUnified -> c < 256) -> member_is_success m = true ->
  (c =? snd m) = (normalise f c =? sl_OK).
Proof. exact success_compare. Qed.

(* non-vacuity of the source tie: a mapped, an unmapped and an undefined legacy code, a unified value; the cast is told
   apart from the conversion; the sites behind the start-up decision and the retry loop are in the table *)
Example c18_source_examples :
  py_from_ember_status sl_class (fam_tag FEmber, 0x93) = PRet (sl_class, 0x17)
  /\ py_from_ember_status sl_class (fam_tag FEmber, 0x77) = PRet (sl_class, sl_FAIL)
  /\ py_from_ember_status sl_class (fam_tag FEzsp, 0xEE) = PRet (sl_class, sl_FAIL)
  /\ py_from_ember_status sl_class (fam_tag FUnified, 0x12345) = PRet (sl_class, 0x12345)
  /\ row_unified (mkW 6 "initialize_network" 6 0 None "networkInit" 0 1 (KCast 2)) = false
  /\ row_unified (mkW 6 "initialize_network" 6 0 None "networkInit" 0 1 KAsIs) = false
  /\ wrapper_returns (mkW 6 "initialize_network" 6 0 None "networkInit" 0 1 (KCast 2)) 0x93 = PRet (sl_class, 0x93)
  /\ wrapper_returns (mkW 6 "initialize_network" 6 0 None "networkInit" 0 1 KConv) 0x93 = PRet (sl_class, 0x17).
Proof. vm_compute. repeat split. Qed.

Example c18_source_sites_present :
  existsb (site_named "ControllerApplication._ensure_network_running" (member_or "NOT_JOINED" sl_members 0)) py_compare_sites
  && existsb (site_named "ControllerApplication.send_packet" (member_or "ZIGBEE_MAX_MESSAGE_LIMIT_REACHED" sl_members 0)) py_compare_sites
  && existsb (site_named "ControllerApplication.send_packet" (member_or "ALLOCATION_FAILED" sl_members 0)) py_compare_sites
  && existsb (site_named "EZSPv4.read_link_keys" (member_or "INVALID_INDEX" sl_members 0)) py_compare_sites
  && existsb (site_named "EZSPv4.read_link_keys" (member_or "NOT_FOUND" sl_members 0)) py_compare_sites = true.
Proof. exact compare_sites_present. Qed.
