(* C12 -- a unicast is reported delivered only on its own delivery confirmation.
   Statements only; proofs in proofs/SendPacket_proofs.v.  [sstep] transliterates
   ControllerApplication.send_packet / _handle_frame_sent; it is tied to the real application and the
   real per-version send wrappers (and their status normalisation) by the C12 correspondence. *)
From Coq Require Import String.    (* string literals; imported first so that List.concat is not shadowed *)
From Coq Require Import ZArith NArith List Bool.
Import ListNotations.
Require Import BV.gen.GenApp BV.gen.GenStatus BV.model.Status BV.model.SendPacket BV.proofs.SendPacket_proofs.
Open Scope N_scope.

(* vocabulary (proofs file):
   sfinal es := fst (srun s_init es)         souts es := concat (snd (srun s_init es))
   sends_unique es := the ids of the SSend events are pairwise distinct
   reachable st := exists es, sends_unique es /\ st = sfinal es
   The proofs file establishes a global invariant of reachable states ([Inv], [reachable_inv]): request
   ids unique, (destination, tag) keys unique, the lock holder is the one request in stage
   RSetup/RSend, the waiters are distinct requests in stage RLock, nobody waits for a free lock, and a
   request in stage RConfirm is a unicast without a remembered confirmation.                             *)

(* a unicast returns normally only if the NCP accepted the message AND a confirmation for the same
   destination and message tag reported success, both while the request was in progress *)
Theorem c12_ok_needs_own_confirmation : forall es e id, sends_unique es ->
  In (XDone id ResOk) (snd (sstep (sfinal es) e)) ->
  forall r, rget id (s_reqs (sfinal es)) = Some r -> q_kind r = Unicast ->
  (e = SReply id EnqOk /\ q_confirmed r = Some true /\ q_stage r = RSend)
  \/ (e = SConfirm (q_dst r) (q_tag r) true /\ q_stage r = RConfirm).
Proof. exact ok_needs_own_confirmation. Qed.

(* the same over the whole history: every request reported delivered was in progress, and for a unicast
   the events since its send_packet call contain the accepted enqueue reply AND a successful
   confirmation for its own destination and message tag *)
Theorem c12_ok_has_history : forall es e id, sends_unique (es ++ [e]) ->
  In (XDone id ResOk) (snd (sstep (sfinal es) e)) ->
  exists r, rget id (s_reqs (sfinal es)) = Some r /\
    (q_kind r = Unicast ->
     exists es1 n es2, es ++ [e] = es1 ++ SSend id Unicast (q_dst r) n :: es2 /\
       In (SReply id EnqOk) es2 /\ In (SConfirm (q_dst r) (q_tag r) true) es2).
Proof. exact ok_has_history. Qed.

(* the stage RConfirm is only entered by an accepted enqueue, and a remembered confirmation was a
   confirmation for this very (destination, tag) *)
Theorem c12_confirm_stage_means_accepted : forall st id, reachable st ->
  forall r, rget id (s_reqs st) = Some r -> q_stage r = RConfirm -> q_kind r = Unicast /\ q_confirmed r = None.
Proof. exact confirm_stage_means_accepted. Qed.

(* one more event: a new request starts without a confirmation and not in RConfirm; an existing request
   keeps its kind, destination and tag, its confirmation is only ever set by a confirmation event for
   its own (destination, tag), and it enters RConfirm only from RSend by an accepted enqueue reply *)
Theorem c12_request_evolution : forall es e id r', sends_unique (es ++ [e]) ->
  rget id (s_reqs (fst (sstep (sfinal es) e))) = Some r' ->
  (rget id (s_reqs (sfinal es)) = None /\ (exists n, e = SSend id (q_kind r') (q_dst r') n) /\ q_confirmed r' = None /\
   q_stage r' <> RConfirm)
  \/ exists r, rget id (s_reqs (sfinal es)) = Some r /\
       q_kind r' = q_kind r /\ (q_dst r', q_tag r') = (q_dst r, q_tag r) /\
       (q_confirmed r' = q_confirmed r \/
        (q_confirmed r = None /\ exists ok, q_confirmed r' = Some ok /\ e = SConfirm (q_dst r) (q_tag r) ok)) /\
       (q_stage r' = RConfirm -> q_stage r = RConfirm \/ (q_stage r = RSend /\ e = SReply id EnqOk)).
Proof. exact request_evolution. Qed.

(* refusal: delivery error at once; confirmed failure: delivery error; no confirmation: timeout *)
Theorem c12_refused : forall st id r, rget id (s_reqs st) = Some r -> q_stage r = RSend ->
  In (XDone id ResDeliveryError) (snd (sstep st (SReply id EnqRefused))).
Proof. exact refused_raises. Qed.

Theorem c12_confirmed_failure : forall st r, rfind_tag (q_dst r) (q_tag r) (s_reqs st) = Some r ->
  q_stage r = RConfirm -> q_confirmed r = None ->
  In (XDone (q_id r) ResDeliveryError) (snd (sstep st (SConfirm (q_dst r) (q_tag r) false))).
Proof. exact confirmed_failure_raises. Qed.

(* in reachable states the hypothesis of c12_confirmed_failure holds for every request in progress: the
   pending table finds a request by its id and by its (destination, tag) *)
Theorem c12_pending_keys_unique : forall es r, sends_unique es -> In r (s_reqs (sfinal es)) ->
  rget (q_id r) (s_reqs (sfinal es)) = Some r /\ rfind_tag (q_dst r) (q_tag r) (s_reqs (sfinal es)) = Some r.
Proof. exact pending_keys_unique. Qed.

Theorem c12_no_confirmation_times_out : forall st id r, rget id (s_reqs st) = Some r -> q_stage r = RConfirm ->
  In (XDone id ResTimeout) (snd (sstep st (STimer id))).
Proof. exact no_confirmation_times_out. Qed.

(* busy: retried after each of the fixed delays, a delivery error when still busy after the last one *)
Theorem c12_busy_retries : forall st id r, rget id (s_reqs st) = Some r -> q_stage r = RBackoff ->
  (q_attempt r <? nretries = true -> ~ In (XDone id ResDeliveryError) (snd (sstep st (STimer id)))
                                     /\ exists r', rget id (s_reqs (fst (sstep st (STimer id)))) = Some r'
                                                   /\ q_attempt r' = q_attempt r) /\
  (q_attempt r <? nretries = false -> In (XDone id ResDeliveryError) (snd (sstep st (STimer id)))).
Proof. exact busy_retries. Qed.

(* the two halves of a retry: a busy reply ends nothing, the request sleeps with one more attempt on its
   count (a confirmation that already arrived stays remembered); when the delay is over it asks for the
   lock again *)
Theorem c12_busy_backs_off : forall es id r, sends_unique es ->
  rget id (s_reqs (sfinal es)) = Some r -> q_stage r = RSend ->
  (forall id' o, ~ In (XDone id' o) (snd (sstep (sfinal es) (SReply id EnqBusy)))) /\
  exists r', rget id (s_reqs (fst (sstep (sfinal es) (SReply id EnqBusy)))) = Some r' /\
             q_stage r' = RBackoff /\ q_attempt r' = q_attempt r + 1 /\ q_confirmed r' = q_confirmed r.
Proof. exact busy_backs_off. Qed.

Theorem c12_busy_retry_reenters : forall st id r, rget id (s_reqs st) = Some r -> q_stage r = RBackoff ->
  q_attempt r <? nretries = true ->
  exists r', rget id (s_reqs (fst (sstep st (STimer id)))) = Some r' /\
    (q_stage r' = RLock \/ (exists n, q_stage r' = RSetup n) \/ q_stage r' = RSend).
Proof. exact busy_retry_reenters. Qed.

Theorem c12_retry_budget_pinned : nretries = 3 /\ RETRY_DELAYS = [(1, 2); (1, 1); (3, 2)] /\ APS_ACK_TIMEOUT = 120.
Proof. vm_compute. repeat split. Qed.

(* the three busy statuses named by the property are what status normalisation maps busy legacy
   codes to (C18 tables) *)
Theorem c12_busy_statuses :
  maps_to_unified "MAX_MESSAGE_LIMIT_REACHED" "ZIGBEE_MAX_MESSAGE_LIMIT_REACHED" /\
  maps_to_unified "NETWORK_BUSY" "ZIGBEE_MAX_MESSAGE_LIMIT_REACHED" /\
  maps_to_unified "NO_BUFFERS" "ALLOCATION_FAILED".
Proof. exact busy_statuses. Qed.

(* confirmations for other tags or destinations, duplicates and unsolicited ones complete nothing *)
Theorem c12_foreign_confirm : forall st dst tag ok,
  rfind_tag dst tag (s_reqs st) = None -> sstep st (SConfirm dst tag ok) = (st, [XUnexpected]).
Proof. exact foreign_confirm. Qed.

Theorem c12_confirm_touches_only_its_request : forall st dst tag ok id o,
  In (XDone id o) (snd (sstep st (SConfirm dst tag ok))) ->
  exists r, rfind_tag dst tag (s_reqs st) = Some r /\ q_id r = id.
Proof. exact confirm_touches_only_its_request. Qed.

(* whatever the outcome, no bookkeeping for the request remains *)
(* CORRECTED.  As first written the hypothesis was
     forall r, In r (s_reqs st) -> q_id r = id -> exists! r0, In r0 (s_reqs st) /\ q_id r0 = id
   which is uniqueness of the record VALUE, not of the table entry, and the statement was false:
     a  = {| q_id := 0; q_kind := Unicast; q_dst := 7; q_tag := 1; q_setup := 0; q_attempt := 0;
             q_stage := RConfirm; q_confirmed := None |}
     st = {| s_seq := 1; s_reqs := [a; a]; s_lock := None; s_lockq := [] |},  e = SCancel 0
   satisfies it, snd (sstep st e) = [XDone 0 ResCancelled], yet rget 0 (s_reqs (fst (sstep st e))) = Some a
   (rdel removes one entry).  The hypothesis is now "request ids are pairwise distinct", which holds in
   every reachable state (c12_no_residue_reachable).  ResDuplicateTag is excluded because that call
   never got any bookkeeping. *)
Theorem c12_no_residue : forall st e id o, In (XDone id o) (snd (sstep st e)) -> o <> ResDuplicateTag ->
  NoDup (map q_id (s_reqs st)) ->
  rget id (s_reqs (fst (sstep st e))) = None /\ ~ In id (s_lockq (fst (sstep st e))).
Proof. exact no_residue. Qed.

Theorem c12_no_residue_reachable : forall es e id o, sends_unique es ->
  In (XDone id o) (snd (sstep (sfinal es) e)) -> o <> ResDuplicateTag ->
  rget id (s_reqs (fst (sstep (sfinal es) e))) = None /\ ~ In id (s_lockq (fst (sstep (sfinal es) e))).
Proof. exact no_residue_reachable. Qed.

(* and only requests in progress complete *)
Theorem c12_done_only_in_progress : forall st e id o, In (XDone id o) (snd (sstep st e)) -> o <> ResDuplicateTag ->
  exists r, rget id (s_reqs st) = Some r.
Proof. exact done_only_in_progress. Qed.

Theorem c12_all_done_all_clean : forall es, sends_unique es ->
  s_reqs (sfinal es) = [] -> s_lock (sfinal es) = None /\ s_lockq (sfinal es) = [].
Proof. exact all_done_all_clean. Qed.

(* set-up and send of one request are never interleaved with another request's: commands are only
   ever issued by the holder of the request lock, and the holder is unique *)
Theorem c12_setup_atomic : forall es e id, sends_unique es ->
  (In (XSetup id) (snd (sstep (sfinal es) e)) \/ exists k d t, In (XSendCmd id k d t) (snd (sstep (sfinal es) e))) ->
  s_lock (fst (sstep (sfinal es) e)) = Some id
  \/ (exists o, In (XDone id o) (snd (sstep (sfinal es) e))).
Proof. exact setup_atomic. Qed.

(* stronger, and what is actually true: the request that issued a command holds the lock after the step
   (the second alternative of c12_setup_atomic never occurs) *)
Theorem c12_commands_by_holder : forall es e id, sends_unique es ->
  (In (XSetup id) (snd (sstep (sfinal es) e)) \/ exists k d t, In (XSendCmd id k d t) (snd (sstep (sfinal es) e))) ->
  s_lock (fst (sstep (sfinal es) e)) = Some id.
Proof. exact commands_by_holder. Qed.

(* restated: as first written the conclusion parsed as [exists r, (rget .. /\ exists n, ..) \/ q_stage r = RSend],
   whose second alternative does not say that h is in progress *)
Theorem c12_lock_holder_in_progress : forall es h, sends_unique es -> s_lock (sfinal es) = Some h ->
  exists r, rget h (s_reqs (sfinal es)) = Some r /\ ((exists n, q_stage r = RSetup n) \/ q_stage r = RSend).
Proof. exact lock_holder_in_progress. Qed.

(* conversely the holder is the only request in those stages; nobody waits for a free lock; the waiters
   are distinct requests in progress, in stage RLock *)
Theorem c12_holder_unique : forall es id r, sends_unique es -> rget id (s_reqs (sfinal es)) = Some r ->
  ((exists n, q_stage r = RSetup n) \/ q_stage r = RSend) -> s_lock (sfinal es) = Some id.
Proof. exact holder_unique. Qed.

Theorem c12_free_lock_no_waiters : forall es, sends_unique es -> s_lock (sfinal es) = None -> s_lockq (sfinal es) = [].
Proof. exact free_lock_no_waiters. Qed.

Theorem c12_waiters_in_progress : forall es, sends_unique es ->
  NoDup (s_lockq (sfinal es)) /\
  forall id, In id (s_lockq (sfinal es)) -> exists r, rget id (s_reqs (sfinal es)) = Some r /\ q_stage r = RLock.
Proof. exact waiters_in_progress. Qed.

Example c12_example :
  concat (snd (srun s_init [SSend 0 Unicast 0x1000 1; SSend 1 Unicast 0x1001 0; SReply 0 EnqOk; SConfirm 0x1001 2 true;
                            SReply 0 EnqBusy; SReply 1 EnqOk; STimer 0; SReply 0 EnqOk; SReply 0 EnqOk; SConfirm 0x1000 1 true]))
  = [XSetup 0; XSendCmd 0 Unicast 0x1000 1; XSendCmd 1 Unicast 0x1001 2; XDone 1 ResOk; XSetup 0;
     XSendCmd 0 Unicast 0x1000 1; XDone 0 ResOk].
Proof. vm_compute. reflexivity. Qed.

(* ---- the positive halves (proofs/SendPacketPos_proofs.v) ------------------------------------------- *)
Require Import BV.proofs.SendPacketPos_proofs.

Theorem c12_confirmed_success_returns : forall es r, sends_unique es -> In r (s_reqs (sfinal es)) ->
  q_stage r = RConfirm ->
  In (XDone (q_id r) ResOk) (snd (sstep (sfinal es) (SConfirm (q_dst r) (q_tag r) true))).
Proof. exact confirmed_success_returns_run. Qed.

(* a confirmation that arrives before its request waits for it (still queued for the lock, in set-up, sending or
   backing off) completes nothing but is remembered ... *)
Theorem c12_early_confirmation_remembered : forall st r ok,
  rfind_tag (q_dst r) (q_tag r) (s_reqs st) = Some r -> q_confirmed r = None -> q_stage r <> RConfirm ->
  snd (sstep st (SConfirm (q_dst r) (q_tag r) ok)) = []
  /\ exists r', rget (q_id r) (s_reqs (fst (sstep st (SConfirm (q_dst r) (q_tag r) ok)))) = Some r'
                /\ q_confirmed r' = Some ok /\ q_stage r' = q_stage r.
Proof. exact early_confirmation_remembered. Qed.

(* ... and decides the outcome the moment the NCP accepts the message *)
Theorem c12_accepted_with_early_confirmation : forall st r ok,
  rget (q_id r) (s_reqs st) = Some r -> q_stage r = RSend -> q_kind r = Unicast -> q_confirmed r = Some ok ->
  In (XDone (q_id r) (if ok then ResOk else ResDeliveryError)) (snd (sstep st (SReply (q_id r) EnqOk))).
Proof. exact accepted_with_early_confirmation. Qed.

Theorem c12_multicast_broadcast_need_no_confirmation : forall st r,
  rget (q_id r) (s_reqs st) = Some r -> q_stage r = RSend -> q_kind r <> Unicast ->
  In (XDone (q_id r) ResOk) (snd (sstep st (SReply (q_id r) EnqOk))).
Proof. exact multicast_broadcast_need_no_confirmation. Qed.

Example c12_confirmation_before_reply :
  snd (srun s_init [SSend 1 Unicast 7 0; SConfirm 7 1 true; SReply 1 EnqOk])
  = [[XSendCmd 1 Unicast 7 1]; []; [XDone 1 ResOk]]
  /\ s_reqs (fst (srun s_init [SSend 1 Unicast 7 0; SConfirm 7 1 true; SReply 1 EnqOk])) = [].
Proof. exact confirmation_before_reply. Qed.

(* ---- the tie to the source text ------------------------------------------------------------------
   gen/GenAppFn.v is emitted on every run from the Python AST of ControllerApplication._handle_frame_sent
   and of the messageSentHandler branch of ezsp_callback_handler (harness/pysrc.py): the two tuple
   unpackings selected by `self._ezsp.ezsp_version >= 14`, the conversion of the pre-v14 status, the key
   (destination, message_tag) under which the pending request is looked up, set_result on its future, the
   handlers of KeyError and asyncio.InvalidStateError.  With self._pending read off the model's state
   ([pending_of]: the request in progress under that key, and whether its confirmation is already there), a
   call is the model's [SConfirm destination tag (status is sl_Status.OK)]: it resolves the future of that
   request and of no other; without a request under the key, or with its future resolved, it completes
   nothing.  In every version the elements passed as destination, tag and status are the fields so named. *)
Require Import BV.lib.EzspTypes BV.gen.GenCallbacks BV.model.Status BV.model.Translate BV.gen.GenAppFn BV.proofs.AppSentSrc_proofs.

Theorem c12_source_confirmation : forall st dst tag status,
  let ok := status =? sl_OK in
  match py_handle_frame_sent (pending_of st) dst tag status with
  | PSetResult key s text =>
      key = (dst, tag) /\ s = status /\
      text = (if ok then "message send success" else "message send failure")%string /\
      exists r, rfind_tag dst tag (s_reqs st) = Some r /\ q_confirmed r = None /\
        sstep st (SConfirm dst tag ok) =
          match q_stage r with
          | RConfirm => end_req (set_reqs st (rset (confirmed r ok) (s_reqs st))) (confirmed r ok)
                                (if ok then ResOk else ResDeliveryError)
          | _ => (set_reqs st (rset (confirmed r ok) (s_reqs st)), [])
          end
  | PUnexpected =>
      rfind_tag dst tag (s_reqs st) = None /\ sstep st (SConfirm dst tag ok) = (st, [XUnexpected])
  | PDuplicate =>
      (exists r b, rfind_tag dst tag (s_reqs st) = Some r /\ q_confirmed r = Some b) /\
      sstep st (SConfirm dst tag ok) = (st, [XUnexpected])
  end.
Proof. exact src_confirmation. Qed.

Theorem c12_source_confirmation_fields : forall v, In v (map fst CB_FIELDS) -> sent_ok v = true.
Proof. exact sent_positions_ok. Qed.

Theorem c12_source_dispatch : forall v own vs pending, In v (map fst CB_FIELDS) ->
  exists f, py_ezsp_callback_handler v own "messageSentHandler" vs = PSent f /\
    f pending =
      let '(pd, pt, ps) := sent_positions v in
      match geti pd vs, geti pt vs, geti ps vs with
      | Some d, Some t, Some s =>
          Some (py_handle_frame_sent pending (Z.to_N d) (Z.to_N t) (sent_status v (Z.to_N s)))
      | _, _, _ => None
      end.
Proof. exact src_sent_dispatch. Qed.

(* non-vacuity: a v14 confirmation whose 16-bit tag shares only the low byte with the pending request's finds nothing;
   the request's own confirmation resolves it *)
Example c12_source_example :
  let st := fst (srun s_init [SSend 1 Unicast 7 0; SReply 1 EnqOk]) in
  py_handle_frame_sent (pending_of st) 7 0x0101 0 = PUnexpected /\
  py_handle_frame_sent (pending_of st) 7 1 0 = PSetResult (7, 1) 0 "message send success".
Proof. vm_compute. split; reflexivity. Qed.

(* ---- send_packet itself, from its source text ------------------------------------------------------
   gen/GenSendPacketFn.v is emitted on every run from the Python AST of ControllerApplication.send_packet, from
   `async with self._limit_concurrency(..)` on (harness/pysrc.py, SpTr): the coroutine in continuation style, every
   suspension point resumed as an outcome argument says (ol: the limiter; o i: the lock, the commands awaited by name, the
   send command with its status, the sleep of loop iteration i; oc: the confirmation, its absence, something thrown in),
   `with` / `async with` as scopes whose exit effect is appended on every way out, the retry loop as the emitted body
   py_send_attempt folded over enumerate(RETRY_DELAYS) with Python's for / else.  Vocabulary (proofs/SendPacketSrc_proofs.v):
     mtrace id st es        [sstep] along es: per event its outputs and the request afterwards ([view_of]: None = no
                            bookkeeping, else the key of its entry, what it waits for, whether it holds the request lock)
     script_trace id dst r  the scan of the effect list: lock held between ELockAcquire / ELockRelease, entry present
                            between EPendingNew / EPendingRemove, one step per command awaited / sleep / wait for the
                            confirmation, then the completion [XDone id (res_of result)]
     model_events ..        the call (SSend), then per suspension point the event its outcome stands for: SReply (set-up
                            answered: EnqOk; the send status read by [classify]), STimer (sleep over / no confirmation),
                            SConfirm key (status normalises to OK), SCancel (something thrown in at the await)
   Every execution in which the request lock is free when asked for is that path of the model: same commands in the same
   order, the lock held at exactly the same suspension points, the entry present from registration to the end under the
   key (destination, tag), every sleep the model's delay for that attempt, the timeout the generated constant, the same
   outcome, and the state afterwards the state before with the tag counter advanced. *)
Require Import BV.gen.GenSendPacketFn BV.proofs.SendPacketSrc_proofs.

Theorem c12_source_send_packet : forall id knd fam p otop o oc st0,
  kind_of_mode (p_addr_mode p) = Some knd ->
  s_lock st0 = None -> s_lockq st0 = [] -> rget id (s_reqs st0) = None ->
  (forall a, o_lock (o a) = AwOk) ->
  let dst := p_dst_address p in
  let tag := (s_seq st0 + 1) mod 256 in
  let run := py_send_packet fam p tag (pending_has_of st0) AwOk otop o oc in
  mtrace id st0 (model_events id knd fam p tag o oc (pending_has_of st0 (dst, tag)))
  = (script_trace id dst run, {| s_seq := tag; s_reqs := s_reqs st0; s_lock := None; s_lockq := [] |}).
Proof. exact src_send_packet. Qed.

(* the path consists of the call and of events of this request only *)
Theorem c12_source_path_events : forall id knd fam p tag o oc dup,
  exists rest, model_events id knd fam p tag o oc dup = SSend id knd (p_dst_address p) (nsetup_of p) :: rest /\
               forallb (own_event id (p_dst_address p) tag) rest = true.
Proof. exact path_events_own. Qed.

(* on the effect list alone, for EVERY execution (any outcome of any suspension point): the request lock is taken anew
   in each attempt, every command lies inside a lock section, a section holds the set-up commands followed by at most
   one send command and nothing after it, and the sleep, the wait for the confirmation and the registration / removal of
   the entry lie outside *)
Theorem c12_source_lock_scope : forall fam p knd tag has ol otop o oc, kind_of_mode (p_addr_mode p) = Some knd ->
  lock_scoped LOut (fst (py_send_packet fam p tag has ol otop o oc)) = true.
Proof. exact src_lock_scope. Qed.

(* the entry is registered once, before the loop, and removed on every way out, last before the limiter is released *)
Theorem c12_source_pending_scope : forall fam p knd tag has otop o oc, kind_of_mode (p_addr_mode p) = Some knd ->
  let key := (p_dst_address p, tag) in
  let run := py_send_packet fam p tag has AwOk otop o oc in
  if has key then run = ([ELimiterAcquire; EGetSequence; ELimiterRelease], SpRaise XDuplicate)
  else exists mid, fst run = ELimiterAcquire :: EGetSequence :: EPendingNew key :: mid ++ [EPendingRemove key; ELimiterRelease] /\
                   forallb (inner_eff key) mid = true /\ snd run <> SpRaise XDuplicate /\ snd run <> SpRaise XUnboundLocal.
Proof. exact src_pending_scope. Qed.

Theorem c12_source_limiter_thrown : forall fam p tag has otop o oc,
  py_send_packet fam p tag has AwThrow otop o oc = ([], SpRaise XThrown).
Proof. exact limiter_thrown. Qed.

(* the lock is held by another request and the wait for it is thrown out of: nothing was sent, nothing remains *)
Theorem c12_source_lock_wait_thrown : forall id knd fam p otop o oc st0 h,
  kind_of_mode (p_addr_mode p) = Some knd ->
  s_lock st0 = Some h -> h <> id -> ~ In id (s_lockq st0) -> rget id (s_reqs st0) = None ->
  o_lock (o 0) = AwThrow ->
  let dst := p_dst_address p in
  let tag := (s_seq st0 + 1) mod 256 in
  pending_has_of st0 (dst, tag) = false ->
  let run := py_send_packet fam p tag (pending_has_of st0) AwOk otop o oc in
  run = ([ELimiterAcquire; EGetSequence; EPendingNew (dst, tag); EPendingRemove (dst, tag); ELimiterRelease], SpRaise XThrown) /\
  mtrace id st0 [SSend id knd dst (nsetup_of p); SCancel id]
  = ([([], Some ((dst, tag), WLock, false)); ([XDone id (res_of (snd run))], None)],
     {| s_seq := tag; s_reqs := s_reqs st0; s_lock := Some h; s_lockq := s_lockq st0 |}).
Proof. exact src_lock_wait_thrown. Qed.

(* the statuses answered by a retry are the three the property names (members named by the source, values of the generated
   sl_Status table); OK is accepted, everything else refused *)
Theorem c12_source_busy_statuses :
  map fst py_busy_statuses = ["ZIGBEE_MAX_MESSAGE_LIMIT_REACHED"; "TRANSMIT_BUSY"; "ALLOCATION_FAILED"]%string /\
  forallb (fun nv => match member (fst nv) sl_members with Some v => v =? snd nv | None => false end) py_busy_statuses = true /\
  classify sl_OK = EnqOk /\
  (forall s, classify s = EnqBusy <-> s <> sl_OK /\ In s (map snd py_busy_statuses)).
Proof. exact src_busy_statuses. Qed.

(* non-vacuity: busy on every attempt -- a lock section with the route set-up and the send command per attempt, the
   attempt's delay slept after each of them (also after the last one), then the delivery error *)
Example c12_source_all_busy :
  py_send_packet FUnified ex_packet 7 (fun _ => false) AwOk ex_busy (fun _ => ex_busy) ConfTimeout =
    (let setup := ECmd "set_source_route" [("nwk"%string, 0x1234)] in
     let send := ECmd "send_unicast" [("nwk"%string, 0x1234); ("message_tag"%string, 7)] in
     [ELimiterAcquire; EGetSequence; EPendingNew (0x1234, 7);
      ELockAcquire; setup; send; ELockRelease; ESleep (1, 2);
      ELockAcquire; setup; send; ELockRelease; ESleep (1, 1);
      ELockAcquire; setup; send; ELockRelease; ESleep (3, 2);
      EPendingRemove (0x1234, 7); ELimiterRelease], SpRaise XDeliveryError)
  /\ model_events 1 Unicast FUnified ex_packet 7 (fun _ => ex_busy) ConfTimeout false =
     [SSend 1 Unicast 0x1234 1; SReply 1 EnqOk; SReply 1 EnqBusy; STimer 1; SReply 1 EnqOk; SReply 1 EnqBusy; STimer 1;
      SReply 1 EnqOk; SReply 1 EnqBusy; STimer 1].
Proof. exact src_all_busy. Qed.
