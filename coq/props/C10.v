(* C10 -- NCP failure or connection loss at any moment is reported and never hangs.
   Statements only; proofs in proofs/Gateway_proofs.v (gateway / facade), with the time bounds taken
   from the C05 and C06 models.  The gateway-level model is tied to the real Gateway and EZSP classes
   by correspondence; the full stack (real ASH, virtual time) is explored by the C10 harness. *)
From Coq Require Import ZArith NArith List Bool.
Import ListNotations.
Require Import BV.gen.GenAsh BV.gen.GenProto BV.model.Gateway BV.model.EzspProto BV.proofs.Gateway_proofs.
Open Scope N_scope.

(* vocabulary: is_failure u := u is UReset code with code <> RESET_SOFTWARE, ULost true, or UEof
               gw_owns_transport st := e_has_gw st = false -> t_open st = false   (the facade gives up
               its gateway only by closing it; holds in every reachable state, c10_gw_owns_transport) *)

(* once an application callback is registered, every failure kind -- ERROR frame or retry exhaustion
   or unsolicited RSTACK (all reach the gateway as reset_received(code <> software)), connection
   loss with an error, EOF -- at any position of any batch, from any state, yields a controller-reset
   request *)
Theorem c10_reported : forall st l u, e_app_cb st = true -> In u l -> is_failure u ->
  In GResetRequest (snd (gstep st (GBatch l))).
Proof. exact failure_reported. Qed.

(* and the EZSP layer is stopped: new commands raise immediately, the gateway is released and the
   transport closed (so nothing more is written) *)
(* Correction: as first written this was claimed from ANY state.  That is false of the
   (unreachable) state that has already dropped its gateway while the transport is still open:
     st = g_init with e_has_gw := false, e_app_cb := true (t_open = true), l = [UReset 2]:
     EZSP.close() finds _gw is None and closes nothing, so t_open stays true (checked below).
   The theorem now assumes gw_owns_transport st, which every reachable state satisfies
   (c10_gw_owns_transport); e_running = false, e_has_gw = false and the refusal of commands do not
   depend on it.  Nothing later in the same batch can undo the stop: batches hold upward calls only. *)
Theorem c10_stopped : forall st l u, e_app_cb st = true -> gw_owns_transport st -> In u l -> is_failure u ->
  let st' := fst (gstep st (GBatch l)) in
  e_running st' = false /\ e_has_gw st' = false /\ t_open st' = false /\ snd (gstep st' GCommand) = [GCmdRaise].
Proof. exact failure_stops. Qed.

Theorem c10_gw_owns_transport : forall es, gw_owns_transport (gfinal es).
Proof. exact gw_owns_transport_reachable. Qed.

Example c10_stopped_counterexample :
  t_open (fst (gstep (upd_e g_init true false false true) (GBatch [UReset 2]))) = true.
Proof. reflexivity. Qed.

Theorem c10_stays_stopped : forall st es, e_running st = false ->
  ~ In GStartEzsp es -> e_running (fst (grun st es)) = false.
Proof. exact stays_stopped. Qed.

(* a deliberate close produces no such request: neither the close nor the connection_lost(None)
   that follows it *)
Theorem c10_close_silent : forall st,
  ~ In GResetRequest (snd (gstep st GClose)) /\
  ~ In GResetRequest (snd (gstep (fst (gstep st GClose)) (GBatch [ULost false]))).
Proof. exact close_silent. Qed.

(* without a registered application callback nothing is torn down *)
Theorem c10_no_callback_no_teardown : forall st u, e_app_cb st = false ->
  e_running (fst (handle_up st u)) = e_running st /\ e_has_gw (fst (handle_up st u)) = e_has_gw st.
Proof. exact no_callback_no_teardown. Qed.

(* commands in progress end: a waiting command is ended by its command timeout (C06 model), whatever
   else happened; the link-level part is bounded by the retry budget (C05: at most ACK_TIMEOUTS
   attempts, each at most T_RX_ACK_MAX) *)
Theorem c10_waiting_command_ends : forall st id c, call_get id (p_calls st) = Some c ->
  k_stage c = PWaiting -> k_reply c = RNone ->
  In (ORaise id KTimeout) (snd (proto_step st (ETimeout id))).
Proof. exact waiting_command_ends. Qed.

Example c10_example :
  map (flat_map enc_gout) (snd (grun g_init [GAddCallback; GStartEzsp; GCommand; GBatch [UReset 0x51]; GCommand;
                                             GBatch [ULost false]]))
  = [[]; []; [8]; [4; 6; 5]; [7]; []]%Z.
Proof. vm_compute. reflexivity. Qed.

(* ---- the tie to the source text --------------------------------------------------------------------
   gen/GenGatewayFn.v is emitted on every run from the Python AST of Gateway.reset_received /
   error_received / connection_lost / eof_received / close / _reset_cleanup (bellows/uart.py) and of
   EZSP.enter_failed_state / connection_lost / close / stop_ezsp (bellows/ezsp/__init__.py).  The
   synchronous handlers of the gateway model used by every theorem above ([handle_up], [ezsp_close],
   [enter_failed]) change the same fields and make the same calls in the same order. *)
Require Import BV.gen.GenGatewayFn BV.proofs.GatewaySrc_proofs.
Theorem c10_source_upcalls : forall st u,
  same_as (fst (handle_up st u)) (snd (handle_up st u)) st (py_up (gabs st) u).
Proof. exact src_handle_up. Qed.
Theorem c10_source_close : forall st,
  same_as (fst (ezsp_close st)) (snd (ezsp_close st)) st (py_EZSP_close_k (gabs st)).
Proof. exact src_ezsp_close. Qed.

(* after a reported failure a new command is refused at once, whatever else the batch carried *)
Require Import BV.proofs.GatewayPos_proofs.
Theorem c10_command_after_failure_refused : forall st l u, e_app_cb st = true -> In u l -> is_failure u ->
  gstep (fst (gstep st (GBatch l))) GCommand = (fst (gstep st (GBatch l)), [GCmdRaise]).
Proof. exact command_after_failure_refused. Qed.

(* Gateway.send_data as emitted from its source (gen/GenGatewayAsyncFn.v): one call of the ASH layer's send_data with
   the same bytes and nothing else; however that call ends -- in particular with the NcpFailure of a failed link --
   is how send_data ends: the failure reaches the command being sent, nothing is swallowed *)
Require Import BV.gen.GenGatewayAsyncFn BV.proofs.GatewayAsyncSrc_proofs.
Theorem c10_source_send_data : forall ra rf sa sf op run gw cb eff data sent,
  py_Gateway_send_data (ra, rf, sa, sf, op, run, gw, cb, eff) data sent
  = ((ra, rf, sa, sf, op, run, gw, cb, eff ++ [PAshSendData data]),
     match sent with DReturn => AReturn | DRaise e => ARaise e end).
Proof. exact src_send_data. Qed.
(* a reset request on a closed transport raises at once (NcpFailure out of _write_frame), before any future exists *)
Theorem c10_source_reset_closed : forall ra rf sa sf run gw cb eff, ra = false ->
  py_Gateway_reset_begin (ra, rf, sa, sf, false, run, gw, cb, eff)
  = ((false, rf, sa, sf, false, run, gw, cb, eff), ARaise EXNcpFailure).
Proof. exact src_reset_begin_closed. Qed.
