(* C16 -- config write never shrinks a table, honours overrides, sets the buffer count last.
   Statements only; proofs in proofs/Config_proofs.v.  The default tables, schema defaults and
   ids are regenerated from /repo on every run (gen/GenConfig.v); [merged_gen]/[config_writes]
   transliterate EZSP.write_config and are tied to it by the C16 correspondence and, at the end of
   this file, to the function emitted from its source text (the c16_source theorems). *)
From Coq Require Import NArith List Bool String.
Import ListNotations.
Require Import BV.gen.GenConfig BV.model.Config BV.proofs.Config_proofs.
Open Scope N_scope.

(* vocabulary (proofs file):
   ids d            := map e_id d
   admissible d0 sd user := NoDup (ids d0) /\ NoDup (map fst sd) /\ NoDup (map fst user)
   grow_only d0 id  := exists e, In e d0 /\ e_id e = id /\ e_min e = true
   cfg_id name      := the EzspConfigId value of that name in the generated enum (0 if absent)  *)

Section Generic.
  Variables (d0 : list entry) (sd : list (N * N)) (user cur : list (N * option N)).
  Hypothesis Hadm : admissible d0 sd user.
  Let writes := config_writes (merged_gen d0 sd user) cur.

  (* each setting at most once *)
  Theorem c16_once : NoDup (map fst writes).
  Proof. exact (writes_once d0 sd user cur Hadm). Qed.

  (* a user-supplied value is written exactly as given, whatever the NCP currently reports *)
  Theorem c16_user_exact : forall id val, In (id, Some val) user ->
    In (id, val) writes /\ forall val', In (id, val') writes -> val' = val.
  Proof. exact (user_exact d0 sd user cur Hadm). Qed.

  (* nothing is written for a setting the user disabled *)
  Theorem c16_disabled_silent : forall id, In (id, None) user -> ~ In id (map fst writes).
  Proof. exact (disabled_silent d0 sd user cur Hadm). Qed.

  (* applying bellows' own defaults (table or schema default) never lowers a grow-only setting:
     it is written only with a value above what the NCP reports *)
  Theorem c16_never_shrink : forall id val c,
    In (id, val) writes -> user_has id user = false -> grow_only d0 id ->
    assoc id cur = Some (Some c) -> c < val.
  Proof. exact (never_shrink d0 sd user cur Hadm). Qed.

  (* the packet-buffer count, when written, is written after every other setting *)
  Theorem c16_buffer_last : forall val, In (CONFIG_PACKET_BUFFER_COUNT, val) writes ->
    exists l, writes = l ++ [(CONFIG_PACKET_BUFFER_COUNT, val)].
  Proof. exact (buffer_last d0 sd user cur Hadm). Qed.

  (* the plan does not depend on the NCP's answers to earlier writes: every default the user left
     alone is written unless it is grow-only and already large enough.
     The hypothesis [assoc (e_id e) sd = None] is necessary (and, with the others, sufficient): a
     schema default replaces the table value, e.g.
       Eval vm_compute in config_writes
         (merged_gen [{| e_id := 30; e_val := 4; e_min := true |}] [(30, 12)] []) [].   = [(30, 12)]
     so (30, 4) is not written (EZSP v7: CONFIG_KEY_TABLE_SIZE table value 4, schema default 12). *)
  Theorem c16_defaults_written : forall e, In e d0 -> user_has (e_id e) user = false ->
    assoc (e_id e) sd = None ->
    (e_min e = false \/ assoc (e_id e) cur = None \/ assoc (e_id e) cur = Some None
     \/ exists c, assoc (e_id e) cur = Some (Some c) /\ c < e_val e) ->
    In (e_id e, e_val e) writes.
  Proof. exact (defaults_written d0 sd user cur Hadm). Qed.
End Generic.

(* instantiation on the generated tables: every supported version has a default table, its ids and
   the schema-default ids are duplicate free *)
Theorem c16_versions_admissible : forall v, In v SUPPORTED_VERSIONS ->
  In v DEFAULT_CONFIG_VERSIONS /\ NoDup (ids (config_defaults v)) /\ NoDup (map fst (schema_defaults_of v))
  /\ config_defaults v <> [].
Proof. exact versions_admissible. Qed.

(* the capacity settings named by the property are grow-only in every version's table *)
Definition capacity_names : list string :=
  ["CONFIG_SOURCE_ROUTE_TABLE_SIZE"; "CONFIG_SUPPORTED_NETWORKS"; "CONFIG_MULTICAST_TABLE_SIZE";
   "CONFIG_TRUST_CENTER_ADDRESS_CACHE_SIZE"; "CONFIG_ADDRESS_TABLE_SIZE"; "CONFIG_KEY_TABLE_SIZE";
   "CONFIG_MAX_END_DEVICE_CHILDREN"]%string.

Theorem c16_capacity_grow_only : forall v name, In v SUPPORTED_VERSIONS -> In name capacity_names ->
  grow_only (config_defaults v) (cfg_id name) /\ cfg_id name <> 0.
Proof. exact capacity_grow_only. Qed.

(* the packet buffer count is part of every version's defaults *)
Theorem c16_buffer_in_defaults : forall v, In v SUPPORTED_VERSIONS ->
  In CONFIG_PACKET_BUFFER_COUNT (ids (config_defaults v)).
Proof. exact buffer_in_defaults. Qed.

(* non-vacuity: EZSP v7, no overrides, NCP reports a key table of 250: the schema default 12 is not
   written; a user override of a non-default setting lands before the buffer count *)
(* CORRECTED: the expected list first had 54 (CONFIG_TRANSIENT_KEY_TIMEOUT_S) in third position; the
   v8 table has CONFIG_TC_REJOINS_USING_WELL_KNOWN_KEY_TIMEOUT_S = 56 there:
     Eval vm_compute in map fst (config_writes (merged 8 [(3, Some 100)]) []).
       = [26; 19; 56; 18; 12; 45; 6; 25; 13; 5; 34; 30; 17; 42; 3; 1]
   (a typo in the expected value of the example, not a defect of the model or of /repo). *)
Example c16_example :
  ~ In 30 (map fst (config_writes (merged 7 []) [(30, Some 250)]))
  /\ map fst (config_writes (merged 8 [(3, Some 100)]) []) =
       [26; 19; 56; 18; 12; 45; 6; 25; 13; 5; 34; 30; 17; 42; 3; 1].
Proof. vm_compute. split; [intros H; repeat (destruct H as [H|H]; [discriminate|]); exact H | reflexivity]. Qed.

(* ---- the tie to the source text --------------------------------------------------------------------
   gen/GenConfigFn.v is emitted on every run from the Python AST of EZSP.write_config
   (bellows/ezsp/__init__.py) by harness/pysrc.py: the insertion-ordered dicts are association lists with
   dict semantics (lib/PyDict.v: assignment to an existing key keeps its position, pop removes, pop and
   re-assignment moves the key to the end), the loops over DEFAULT_CONFIG[version], config.items(),
   ezsp_values.values() and ezsp_config.values() are folds, dataclasses.replace is a record update,
   isinstance a match on the table entry, and every awaited getValue / setValue / getConfigurationValue /
   setConfigurationValue takes the NCP's answer from an oracle [o : ncp] (an argument; the answer may
   depend on all commands issued before) and is appended to the trace.  [py_write_config v o config]
   returns the commands issued and how the coroutine ended (Returned | Raised), or None when the version
   has no table (KeyError).

   vocabulary (proofs/ConfigSrc_proofs.v):
   config_reads o cur     := the NCP answers a configuration read of id with the value [assoc id cur]
                             gives, with an error status when that is None / Some None, whatever was sent before
   values_readable o vals := a successful value read returns at least as many bytes as the value's type has
   same_reads o1 o2       := o1 and o2 answer getValue and getConfigurationValue alike
   is_write c             := c is a setValue or a setConfigurationValue
   plan_cmds (vw, cw)     := the setValue commands of vw followed by the setConfigurationValue commands of cw
   model_trace vals d cur := for each value its read then its write; then for each entry of d its read and,
                             unless it is grow-only and the NCP reports at least as much, its write
   rows_config / rows_values := the RuntimeConfig / ValueConfig rows of a table (config_defaults v and
                             value_defaults v are these projections of the version's table)            *)
Require Import BV.lib.PyDict BV.gen.GenConfigFn BV.proofs.ConfigSrc_proofs.

(* every supported version, every override dict (distinct keys, as a Python dict has), every NCP: the
   coroutine runs to its end and the writes it issues are exactly the model's plan -- the values, then
   the configuration settings, same ids, same values, same order.  The statuses the NCP returns for the
   writes are not constrained: rejected settings do not change the sequence. *)
Theorem c16_source_write_config : forall v user cur o,
  In v SUPPORTED_VERSIONS -> NoDup (map fst user) ->
  config_reads o cur -> values_readable o (value_defaults v) ->
  exists tr, py_write_config v o user = Some (tr, Returned)
             /\ filter is_write tr = plan_cmds (write_plan v user cur).
Proof. exact src_write_config. Qed.
Print Assumptions c16_source_write_config.

(* the same for any table, with the whole command sequence (reads included); the well-formedness the model
   presupposes is explicit: distinct configuration ids, schema-default ids and override keys
   ([admissible], as in the Generic section above) and distinct value ids; c16_versions_admissible and
   src_versions_check show the generated tables satisfy it *)
Theorem c16_source_trace : forall rows sd user cur o,
  admissible (rows_config rows) sd user -> NoDup (map vid (rows_values rows)) ->
  config_reads o cur -> values_readable o (rows_values rows) ->
  py_write_config_body (map cfg_of_row rows) sd o user
  = (model_trace (rows_values rows) (merged_gen (rows_config rows) sd user) cur, Returned).
Proof. exact src_body_trace. Qed.
Print Assumptions c16_source_trace.

(* a rejected setting does not stop, or alter, the remaining ones: two NCPs that answer the reads alike
   are sent the same commands and the coroutine ends the same way, whatever statuses they return for the
   writes -- for every version, every argument, no well-formedness needed *)
Theorem c16_source_rejection_independent : forall v o1 o2 config, same_reads o1 o2 ->
  py_write_config v o1 config = py_write_config v o2 config.
Proof. exact src_rejection_independent. Qed.
Print Assumptions c16_source_rejection_independent.

(* the hypotheses are satisfiable for every version, every [cur] and every choice of rejected writes *)
Theorem c16_source_hypotheses_satisfiable : forall v cur reject, In v SUPPORTED_VERSIONS ->
  config_reads (ncp_of cur reject) cur /\ values_readable (ncp_of cur reject) (value_defaults v).
Proof. exact (fun v cur reject Hv => conj (ncp_of_reads cur reject) (ncp_of_readable v cur reject Hv)). Qed.
Print Assumptions c16_source_hypotheses_satisfiable.

(* what [values_readable] is needed for: a getValue answer shorter than the value's type (EZSP v8, an empty
   value with a success status) ends write_config with the exception of the deserialisation -- after the
   read, before any write; outside C16's statement (a malformed answer is not a rejected setting) *)
Theorem c16_source_short_value_read : exists id,
  py_write_config 8 ncp_short [] = Some ([CGetValue id], Raised).
Proof. exact src_short_value_read_raises. Qed.

(* non-vacuity: EZSP v8, one override of a non-default setting, every write rejected -- the emitted
   function issues the configuration writes of c16_example, the buffer count last *)
Example c16_source_example :
  match py_write_config 8 (ncp_of [] (fun _ => true)) [(3, Some 100)] with
  | Some (tr, Returned) =>
      flat_map (fun c => match c with CSetConfigurationValue id _ => [id] | _ => [] end) tr
      = [26; 19; 56; 18; 12; 45; 6; 25; 13; 5; 34; 30; 17; 42; 3; 1]
  | _ => False
  end.
Proof. exact src_example. Qed.
