(* C16 -- config write never shrinks a table, honours overrides, sets the buffer count last.
   Statements only; proofs in proofs/Config_proofs.v.  The default tables, schema defaults and
   ids are regenerated from /repo on every run (gen/GenConfig.v); [merged_gen]/[config_writes]
   transliterate EZSP.write_config and are tied to it by the C16 correspondence. *)
From Coq Require Import NArith List Bool String.
Import ListNotations.
Require Import BV.gen.GenConfig BV.model.Config BV.proofs.Config_proofs.
Open Scope N_scope.

(* vocabulary (proofs file):
   ids d            := map e_id d
   admissible d0 sd user := NoDup (ids d0) /\ NoDup (map fst sd) /\ NoDup (map fst user)
   grow_only d0 id  := exists e, In e d0 /\ e_id e = id /\ e_min e = true
   cfg_id name      := the EzspConfigId value of that name in the generated enum (0 if absent)  *)

Section Generic.
  Variables (d0 : list entry) (sd : list (N * N)) (user cur : list (N * option N)).
  Hypothesis Hadm : admissible d0 sd user.
  Let writes := config_writes (merged_gen d0 sd user) cur.

  (* each setting at most once *)
  Theorem c16_once : NoDup (map fst writes).
  Proof. exact (writes_once d0 sd user cur Hadm). Qed.

  (* a user-supplied value is written exactly as given, whatever the NCP currently reports *)
  Theorem c16_user_exact : forall id val, In (id, Some val) user ->
    In (id, val) writes /\ forall val', In (id, val') writes -> val' = val.
  Proof. exact (user_exact d0 sd user cur Hadm). Qed.

  (* nothing is written for a setting the user disabled *)
  Theorem c16_disabled_silent : forall id, In (id, None) user -> ~ In id (map fst writes).
  Proof. exact (disabled_silent d0 sd user cur Hadm). Qed.

  (* applying bellows' own defaults (table or schema default) never lowers a grow-only setting:
     it is written only with a value above what the NCP reports *)
  Theorem c16_never_shrink : forall id val c,
    In (id, val) writes -> user_has id user = false -> grow_only d0 id ->
    assoc id cur = Some (Some c) -> c < val.
  Proof. exact (never_shrink d0 sd user cur Hadm). Qed.

  (* the packet-buffer count, when written, is written after every other setting *)
  Theorem c16_buffer_last : forall val, In (CONFIG_PACKET_BUFFER_COUNT, val) writes ->
    exists l, writes = l ++ [(CONFIG_PACKET_BUFFER_COUNT, val)].
  Proof. exact (buffer_last d0 sd user cur Hadm). Qed.

  (* the plan does not depend on the NCP's answers to earlier writes: every default the user left
     alone is written unless it is grow-only and already large enough.
     The hypothesis [assoc (e_id e) sd = None] is necessary (and, with the others, sufficient): a
     schema default replaces the table value, e.g.
       Eval vm_compute in config_writes
         (merged_gen [{| e_id := 30; e_val := 4; e_min := true |}] [(30, 12)] []) [].   = [(30, 12)]
     so (30, 4) is not written (EZSP v7: CONFIG_KEY_TABLE_SIZE table value 4, schema default 12). *)
  Theorem c16_defaults_written : forall e, In e d0 -> user_has (e_id e) user = false ->
    assoc (e_id e) sd = None ->
    (e_min e = false \/ assoc (e_id e) cur = None \/ assoc (e_id e) cur = Some None
     \/ exists c, assoc (e_id e) cur = Some (Some c) /\ c < e_val e) ->
    In (e_id e, e_val e) writes.
  Proof. exact (defaults_written d0 sd user cur Hadm). Qed.
End Generic.

(* instantiation on the generated tables: every supported version has a default table, its ids and
   the schema-default ids are duplicate free *)
Theorem c16_versions_admissible : forall v, In v SUPPORTED_VERSIONS ->
  In v DEFAULT_CONFIG_VERSIONS /\ NoDup (ids (config_defaults v)) /\ NoDup (map fst (schema_defaults_of v))
  /\ config_defaults v <> [].
Proof. exact versions_admissible. Qed.

(* the capacity settings named by the property are grow-only in every version's table *)
Definition capacity_names : list string :=
  ["CONFIG_SOURCE_ROUTE_TABLE_SIZE"; "CONFIG_SUPPORTED_NETWORKS"; "CONFIG_MULTICAST_TABLE_SIZE";
   "CONFIG_TRUST_CENTER_ADDRESS_CACHE_SIZE"; "CONFIG_ADDRESS_TABLE_SIZE"; "CONFIG_KEY_TABLE_SIZE";
   "CONFIG_MAX_END_DEVICE_CHILDREN"]%string.

Theorem c16_capacity_grow_only : forall v name, In v SUPPORTED_VERSIONS -> In name capacity_names ->
  grow_only (config_defaults v) (cfg_id name) /\ cfg_id name <> 0.
Proof. exact capacity_grow_only. Qed.

(* the packet buffer count is part of every version's defaults *)
Theorem c16_buffer_in_defaults : forall v, In v SUPPORTED_VERSIONS ->
  In CONFIG_PACKET_BUFFER_COUNT (ids (config_defaults v)).
Proof. exact buffer_in_defaults. Qed.

(* non-vacuity: EZSP v7, no overrides, NCP reports a key table of 250: the schema default 12 is not
   written; a user override of a non-default setting lands before the buffer count *)
(* CORRECTED: the expected list first had 54 (CONFIG_TRANSIENT_KEY_TIMEOUT_S) in third position; the
   v8 table has CONFIG_TC_REJOINS_USING_WELL_KNOWN_KEY_TIMEOUT_S = 56 there:
     Eval vm_compute in map fst (config_writes (merged 8 [(3, Some 100)]) []).
       = [26; 19; 56; 18; 12; 45; 6; 25; 13; 5; 34; 30; 17; 42; 3; 1]
   (a typo in the expected value of the example, not a defect of the model or of /repo). *)
Example c16_example :
  ~ In 30 (map fst (config_writes (merged 7 []) [(30, Some 250)]))
  /\ map fst (config_writes (merged 8 [(3, Some 100)]) []) =
       [26; 19; 56; 18; 12; 45; 6; 25; 13; 5; 34; 30; 17; 42; 3; 1].
Proof. vm_compute. split; [intros H; repeat (destruct H as [H|H]; [discriminate|]); exact H | reflexivity]. Qed.
