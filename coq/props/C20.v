(* C20 -- the cross-thread proxy runs calls on the owner's loop and relays results.
   Statements only; proofs in proofs/Proxy_proofs.v.  PARTIAL by nature: the decision and relay
   LOGIC of ThreadsafeProxy is proved here over a queue model of the owner's loop; which OS thread
   executes a body and the behaviour while the owner loop is stopping are properties of CPython's
   run_coroutine_threadsafe / call_soon_threadsafe and are only explored at run time by the C20
   harness (real threads, thread identity recorded inside the wrapped method). *)
From Coq Require Import ZArith NArith List Bool.
Import ListNotations.
Require Import BV.model.Proxy BV.proofs.Proxy_proofs.
Open Scope N_scope.

(* the five decision rules, all 16 input combinations *)
Theorem c20_dispatch : forall callable coroutine same closed,
  dispatch callable coroutine same closed =
    match callable, same, closed, coroutine with
    | false, _, _, _ => Refuse
    | true, true, _, _ => RunDirect
    | true, false, true, _ => Drop
    | true, false, false, true => Submit
    | true, false, false, false => Queue
    end.
Proof. exact dispatch_table. Qed.

(* in every history every executed body was executed by the owner's loop, never by a caller's; and
   a call made from another loop executes nothing in the caller's own step *)
Theorem c20_runs_on_owner : forall ops, Forall (fun x => snd x = Owner) (executed (prun ops)).
Proof. exact executed_on_owner. Qed.

Theorem c20_cross_loop_call_does_not_execute : forall st id callable coroutine closed b,
  executed (pstep st (PCall id callable coroutine false closed b)) = executed st.
Proof. exact cross_loop_call_does_not_execute. Qed.

(* coroutine methods: the caller receives the result or the exception raised *)
Theorem c20_relay : forall st id b, queue st = [] ->
  let st1 := pstep st (PCall id true true false false b) in
  results (pstep st1 POwnerRuns) = results st ++ [(id, run_body b)] /\
  executed (pstep st1 POwnerRuns) = executed st ++ [(id, Owner)].
Proof. intros st id b Hq. exact (relay st id b false eq_refl Hq). Qed.

(* plain methods are queued and must return nothing *)
Theorem c20_plain_queued : forall st id b,
  let st1 := pstep st (PCall id true false false false b) in
  results st1 = results st ++ [(id, RNothing)] /\ queue st1 = queue st ++ [(id, false, b)].
Proof. exact plain_queued. Qed.

Theorem c20_plain_must_return_nothing : forall st id v q,
  queue st = (id, false, BReturns (Some v)) :: q -> owner_errors (pstep st POwnerRuns) = owner_errors st ++ [id].
Proof. exact plain_must_return_nothing. Qed.

(* owner's loop: direct; non-callable: refused; closed loop: dropped, nothing executed, nothing waited for *)
Theorem c20_same_loop_direct : forall st id coroutine closed b,
  let st1 := pstep st (PCall id true coroutine true closed b) in
  executed st1 = executed st ++ [(id, Owner)] /\ results st1 = results st ++ [(id, run_body b)] /\ queue st1 = queue st.
Proof. exact same_loop_direct. Qed.

Theorem c20_not_callable_refused : forall st id coroutine same closed b,
  let st1 := pstep st (PCall id false coroutine same closed b) in
  executed st1 = executed st /\ queue st1 = queue st /\ results st1 = results st ++ [(id, RRefused)].
Proof. exact not_callable_refused. Qed.

Theorem c20_closed_drops : forall st id coroutine b,
  let st1 := pstep st (PCall id true coroutine false true b) in
  executed st1 = executed st /\ queue st1 = queue st /\ results st1 = results st ++ [(id, RNothing)].
Proof. exact closed_drops. Qed.

Example c20_example :
  let st := prun [PCall 1 true true false false (BReturns (Some 7)); PCall 2 true false false false (BReturns (Some 1));
                  PCall 3 true true false true (BRaises 9); POwnerRuns; POwnerRuns] in
  results st = [(2, RNothing); (3, RNothing); (1, RValue (Some 7))] /\ executed st = [(1, Owner); (2, Owner)]
  /\ owner_errors st = [2].
Proof. vm_compute. repeat split. Qed.

(* ---- the tie to the source text --------------------------------------------------------------------
   gen/GenThreadFn.v is emitted on every run from the Python AST of ThreadsafeProxy.__getattr__, of the
   wrapper it returns and of the closure the wrapper queues (bellows/thread.py).  The run-time predicates
   -- callable(attribute) at look-up; iscoroutinefunction(attribute), owner's loop == running loop,
   owner's loop.is_closed() at call time -- are boolean inputs; the emitted wrapper yields the asyncio
   calls made in the caller's step, in order, and what is returned.  [action_of] (proofs/ThreadSrc_proofs.v)
   reads that as an action of the model; the decision taken by the source is [dispatch] on all 16 inputs. *)
Require Import BV.gen.GenThreadFn BV.proofs.ThreadSrc_proofs.
Theorem c20_source_decision : forall callable coroutine same_loop closed,
  py_decision callable coroutine same_loop closed = Some (dispatch callable coroutine same_loop closed).
Proof. exact src_decision. Qed.

(* from another loop the wrapper never hands back the invocation's own result and never invokes a plain
   method in the caller's step *)
Theorem c20_source_never_on_caller : forall coroutine closed,
  snd (py_func_wrapper coroutine false closed) <> RetCallResult /\
  (coroutine = false -> ~ In PInvoke (fst (py_func_wrapper coroutine false closed))).
Proof. exact src_never_on_caller. Qed.

(* the closure queued for a plain method is the owner's step of the model: the owner's loop invokes the
   method, the caller's result is untouched, a returned value is an error raised in the owner *)
Theorem c20_source_plain_check : forall st id b q, queue st = (id, false, b) :: q ->
  py_closure b <> ONotCalled /\
  executed (pstep st POwnerRuns) = executed st ++ [(id, Owner)] /\
  results (pstep st POwnerRuns) = results st /\
  owner_errors (pstep st POwnerRuns) =
    match py_closure b with OTypeError => owner_errors st ++ [id] | _ => owner_errors st end.
Proof. exact src_plain_check. Qed.
