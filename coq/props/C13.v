(* C13 -- incoming NCP callbacks are translated faithfully for every protocol version.
   Statements only; proofs in proofs/Translate_proofs.v.  [translate] transliterates
   ezsp_callback_handler/_handle_frame/_handle_tc_join_handler on the flat decoded values; the field
   lists of the callbacks are regenerated from the command tables of every version (GenCallbacks). *)
From Coq Require Import String ZArith NArith List Bool.
Import ListNotations.
Require Import BV.lib.EzspTypes BV.gen.GenCallbacks BV.model.Translate BV.proofs.Translate_proofs.
Open Scope N_scope.

(* in EVERY supported version the positions the code unpacks carry the right meaning: message type,
   APS frame (7 fields), LQI, RSSI, sender and payload of incomingMessageHandler -- both the pre-v14
   and the v14 field orders -- and the five fields of trustCenterJoinHandler *)
Theorem c13_versions : map fst CB_FIELDS = [4; 5; 6; 7; 8; 9; 10; 11; 12; 13; 14].
Proof. vm_compute. reflexivity. Qed.

Theorem c13_positions : forall v, In v (map fst CB_FIELDS) -> incoming_ok v = true /\ join_ok v = true.
Proof. exact version_positions. Qed.

Theorem c13_aps_layout :
  APS_FRAME_FIELDS = ["profileId"; "clusterId"; "sourceEndpoint"; "destinationEndpoint"; "options"; "groupId"; "sequence"]%string.
Proof. exact aps_layout. Qed.

(* unicast / multicast / broadcast: exactly one packet carrying the callback's source, endpoints,
   profile, cluster, APS sequence, payload, LQI, RSSI, destination by type; any other type: none *)
Theorem c13_packet : forall v own vs evs, translate_incoming v own vs = Some evs ->
  let '(pt, pa, pl, pr, ps, pm) := incoming_positions v in
  exists ty profile cluster sep dep grp tsn lqi rssi sender msg,
    geti pt vs = Some ty /\ geti pa vs = Some profile /\ geti (pa + 1) vs = Some cluster /\
    geti (pa + 2) vs = Some sep /\ geti (pa + 3) vs = Some dep /\ geti (pa + 5) vs = Some grp /\
    geti (pa + 6) vs = Some tsn /\ geti pl vs = Some lqi /\ geti pr vs = Some rssi /\
    geti ps vs = Some sender /\ getb pm vs = Some msg /\
    evs = if is_packet_type ty
          then [EvPacket {| k_src := sender; k_src_ep := sep; k_dst := dest_for ty own grp; k_dst_ep := dep;
                            k_tsn := tsn; k_profile := profile; k_cluster := cluster; k_data := msg;
                            k_lqi := lqi; k_rssi := rssi |}]
          else [].
Proof. exact incoming_translation. Qed.

Theorem c13_types_pinned :
  INCOMING_UNICAST = 0 /\ INCOMING_MULTICAST = 2 /\ INCOMING_BROADCAST = 4 /\
  BROADCAST_ALL_ROUTERS_AND_COORDINATOR = 0xFFFC /\ DEVICE_LEFT = 2 /\ DENY_JOIN = 2.
Proof. repeat split; reflexivity. Qed.

(* trust-centre joins: a leave for departures, nothing for denied joins, else a join with the reported
   addresses and parent *)
Theorem c13_join : forall vs evs, translate_join vs = Some evs ->
  exists nwk ieee status decision parent,
    geti 0 vs = Some nwk /\ getl 1 vs = Some ieee /\ geti 2 vs = Some status /\ geti 3 vs = Some decision /\
    geti 4 vs = Some parent /\
    evs = if (status =? Z.of_N DEVICE_LEFT)%Z then [EvLeave nwk ieee]
          else if (decision =? Z.of_N DENY_JOIN)%Z then [] else [EvJoin nwk ieee parent].
Proof. exact join_translation. Qed.

Theorem c13_other_callbacks : forall v own name vs,
  name <> "incomingMessageHandler"%string -> name <> "trustCenterJoinHandler"%string ->
  translate v own name vs = Some [].
Proof. exact other_callbacks_yield_nothing. Qed.

Example c13_example_v14 :
  translate_incoming 14 0x1234
    [XP (VI 2); XP (VI 0x0104); XP (VI 6); XP (VI 1); XP (VI 2); XP (VI 0x40); XP (VI 0x00AB); XP (VI 9);
     XP (VI 0x5566); XL []; XP (VI 0); XP (VI 0); XP (VI 200); XP (VI (-70)); XP (VI 12345); XP (VB [1; 2; 3])]
  = Some [EvPacket {| k_src := 0x5566; k_src_ep := 1; k_dst := DGroup 0x00AB; k_dst_ep := 2; k_tsn := 9;
                      k_profile := 0x0104; k_cluster := 6; k_data := [1; 2; 3]; k_lqi := 200; k_rssi := -70 |}].
Proof. vm_compute. reflexivity. Qed.

(* ---- the tie to the source text ------------------------------------------------------------------
   gen/GenAppFn.v is emitted on every run from the Python AST of ControllerApplication.ezsp_callback_handler,
   _handle_frame and _handle_tc_join_handler (harness/pysrc.py): the chain on frame_name, the two tuple
   unpackings selected by `self._ezsp.ezsp_version >= 14` (a name bound by the unpacking is the index of the
   element of args; element k is the k-th field of the generated field list of the callback), the keyword
   call of _handle_frame, the chain on message_type with the three destination constructions and the
   `else: return`, every keyword of the ZigbeePacket, the decisions of the join handler on the device-update
   status and the join decision.  Enum members are the ones the source names, with the values of the live
   module.  In every version of the command tables the emitted dispatch hands zigpy exactly the events of
   [translate_incoming] / [translate_join], so the statements above hold of the emitted code
   (c13_source_packet, c13_source_join_events).  The messageSentHandler branch is the subject of C12
   (the c12_source theorems); the branches that end in other handlers (route record, route error, reset request,
   idConflictHandler) are emitted as the names of the methods they call and are not translated -- of
   these _handle_id_conflict can itself report a leave (for a known device whose short address is in
   conflict), which [translate] and c13_other_callbacks, being about the three callbacks of the property,
   do not describe. *)
Require Import BV.gen.GenAppFn BV.proofs.AppSrc_proofs.

Theorem c13_source_handle_frame : forall own ty sep dep tsn profile cluster grp lqi rssi sender msg,
  py_handle_frame own ty sep dep tsn profile cluster grp lqi rssi sender msg =
  if is_packet_type ty
  then [EvPacket {| k_src := sender; k_src_ep := sep; k_dst := dest_for ty own grp; k_dst_ep := dep;
                    k_tsn := tsn; k_profile := profile; k_cluster := cluster; k_data := msg;
                    k_lqi := lqi; k_rssi := rssi |}]
  else [].
Proof. exact src_handle_frame. Qed.

Theorem c13_source_incoming : forall v own vs, In v (map fst CB_FIELDS) ->
  py_ezsp_callback_handler v own "incomingMessageHandler" vs = POut (translate_incoming v own vs).
Proof. exact src_incoming. Qed.

Theorem c13_source_join : forall v own vs, In v (map fst CB_FIELDS) ->
  py_ezsp_callback_handler v own "trustCenterJoinHandler" vs = POut (translate_join vs).
Proof. exact src_join. Qed.

(* whichever callback: where the emitted dispatch runs a translated handler the events are those of [translate];
   where no branch matches, [translate] yields nothing either *)
Theorem c13_source_dispatch : forall v own name vs r, In v (map fst CB_FIELDS) ->
  py_ezsp_callback_handler v own name vs = POut r -> r = translate v own name vs.
Proof. exact src_handled. Qed.

Theorem c13_source_no_branch : forall v own name vs,
  py_ezsp_callback_handler v own name vs = PNoBranch -> translate v own name vs = Some [].
Proof. exact src_no_branch. Qed.

(* c13_packet and c13_join, stated of the emitted code *)
Theorem c13_source_packet : forall v own vs evs, In v (map fst CB_FIELDS) ->
  py_ezsp_callback_handler v own "incomingMessageHandler" vs = POut (Some evs) ->
  let '(pt, pa, pl, pr, ps, pm) := incoming_positions v in
  exists ty profile cluster sep dep grp tsn lqi rssi sender msg,
    geti pt vs = Some ty /\ geti pa vs = Some profile /\ geti (pa + 1) vs = Some cluster /\
    geti (pa + 2) vs = Some sep /\ geti (pa + 3) vs = Some dep /\ geti (pa + 5) vs = Some grp /\
    geti (pa + 6) vs = Some tsn /\ geti pl vs = Some lqi /\ geti pr vs = Some rssi /\
    geti ps vs = Some sender /\ getb pm vs = Some msg /\
    evs = if is_packet_type ty
          then [EvPacket {| k_src := sender; k_src_ep := sep; k_dst := dest_for ty own grp; k_dst_ep := dep;
                            k_tsn := tsn; k_profile := profile; k_cluster := cluster; k_data := msg;
                            k_lqi := lqi; k_rssi := rssi |}]
          else [].
Proof. exact src_incoming_packet. Qed.

Theorem c13_source_join_events : forall v own vs evs, In v (map fst CB_FIELDS) ->
  py_ezsp_callback_handler v own "trustCenterJoinHandler" vs = POut (Some evs) ->
  exists nwk ieee status decision parent,
    geti 0 vs = Some nwk /\ getl 1 vs = Some ieee /\ geti 2 vs = Some status /\ geti 3 vs = Some decision /\
    geti 4 vs = Some parent /\
    evs = if (status =? Z.of_N DEVICE_LEFT)%Z then [EvLeave nwk ieee]
          else if (decision =? Z.of_N DENY_JOIN)%Z then [] else [EvJoin nwk ieee parent].
Proof. exact src_join_events. Qed.

(* non-vacuity: the emitted dispatch on the v14 example above *)
Example c13_source_example_v14 :
  py_ezsp_callback_handler 14 0x1234 "incomingMessageHandler"
    [XP (VI 2); XP (VI 0x0104); XP (VI 6); XP (VI 1); XP (VI 2); XP (VI 0x40); XP (VI 0x00AB); XP (VI 9);
     XP (VI 0x5566); XL []; XP (VI 0); XP (VI 0); XP (VI 200); XP (VI (-70)); XP (VI 12345); XP (VB [1; 2; 3])]
  = POut (Some [EvPacket {| k_src := 0x5566; k_src_ep := 1; k_dst := DGroup 0x00AB; k_dst_ep := 2; k_tsn := 9;
                            k_profile := 0x0104; k_cluster := 6; k_data := [1; 2; 3]; k_lqi := 200; k_rssi := -70 |}]).
Proof. vm_compute. reflexivity. Qed.
