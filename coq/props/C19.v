(* C19 -- the watchdog requests a restart only after the tolerated run of consecutive failures.
   Statements only.  The two constants come from gen/GenApp.v (regenerated from /repo). *)
From Coq Require Import NArith List Bool.
Import ListNotations.
Require Import BV.gen.GenApp BV.model.Watchdog BV.proofs.Watchdog_proofs.
Open Scope N_scope.

Definition M := MAX_WATCHDOG_FAILURES.
Definition P := EZSP_COUNTERS_CLEAR_IN_WATCHDOG_PERIODS.

(* Every history [pre] of keep-alive outcomes (any length), every next outcome, every version:
   the feed raises exactly when it failed (timeout or EZSP error on a keep-alive command) and the
   number of failures in a row, this one included, exceeds the tolerated maximum. *)
Theorem c19_raise_iff : forall (v : N) (pre : list (ans * ans)) (a1 a2 : ans),
  snd (fst (feed M P v (final M P v winit pre) (a1, a2))) =
    feed_failed v a1 a2 && (M <? streak v 0 pre + 1).
Proof. exact (raise_iff M P). Qed.

Theorem c19_success_clears : forall v st a1 a2,
  feed_failed v a1 a2 = false -> failures (fst (fst (feed M P v st (a1, a2)))) = 0.
Proof. exact (success_clears M P). Qed.

(* which keep-alive the NCP sees: no-op on v4; otherwise a counter read, read-and-clear on every
   feed whose ordinal is a multiple of the period, then the free-buffer read if the first succeeded *)
Theorem c19_keepalive : forall v pre a1 a2,
  snd (feed M P v (final M P v winit pre) (a1, a2)) =
    if v =? 4 then [KNop]
    else (if 0 <? (N.of_nat (length pre) + 1) mod P then KReadCounters else KReadAndClearCounters)
           :: (if ans_ok a1 then [KGetValue] else []).
Proof. exact (keepalive_cmd M P). Qed.

(* pinned: the tolerated maximum and the clear period are positive (a zero period would make the
   modulus meaningless in the implementation: ZeroDivisionError) *)
Theorem c19_constants_sane : 0 < M /\ 0 < P.
Proof. vm_compute. split; reflexivity. Qed.

(* non-vacuity: with the generated constants, M failures do not raise and the (M+1)-th does *)
Example c19_example :
  let fails := repeat (ATimeout, AOk) (N.to_nat M) in
  map fst (run M P 8 winit (fails ++ [(AEzspError, AOk); (AOk, AOk); (ATimeout, AOk)]))
  = repeat false (N.to_nat M) ++ [true; false; false].
Proof. vm_compute. reflexivity. Qed.

(* ---- the tie to the source text --------------------------------------------------------------------
   gen/GenWatchdogFn.v is emitted on every run from the Python AST of ControllerApplication._watchdog_feed
   (awaits in sequence inside try / except (TimeoutError, EzspError) / else: the outcome of each awaited
   keep-alive command is a parameter; the counter bookkeeping carries no control flow and is skipped).
   The feed every theorem above speaks of is that function. *)
Require Import BV.gen.GenWatchdogFn BV.proofs.WatchdogSrc_proofs.
Theorem c19_source_feed : forall M P v st a1 a2,
  let '(f, n, r, c) := py_watchdog_feed M P v (failures st) (feeds st) a1 a2 in
  feed M P v st (a1, a2) = ({| failures := f; feeds := n |}, r, c).
Proof. exact src_watchdog_feed. Qed.
