(* C02 -- the ASH receiver decodes any byte stream like the reference decoder, for any chunking.
   Statements only; proofs in proofs/AshRxBytes_proofs.v.
   [data_received]/[feed] transliterate AshProtocol.data_received (tied by the C02 correspondence);
   [ref_step]/[ref_run] is the per-byte reference decoder written from the specification. *)
From Coq Require Import NArith List Bool.
Import ListNotations.
Require Import BV.gen.GenAsh BV.model.AshCodec BV.model.AshRx BV.proofs.AshRx_proofs BV.proofs.AshRxBytes_proofs.
Open Scope N_scope.

(* vocabulary (defined in the proofs file):
   ref_after bs        := fst (ref_run ref_init bs)          state of the reference after bs
   residue_ok chunks   := forall k, length (racc (ref_after (concat (firstn k chunks))))
                                      <= N.to_nat MAX_BUFFER_SIZE
                          (the unterminated residue never exceeds the receive buffer)
   agrees st r         := buf st = racc r /\ discarding st = rdisc r /\ rxseq st = rrx r            *)

(* every stream, every partition into reads whose residue stays within the buffer: the
   implementation's outputs (deliveries, reset notifications, ACK/NAK numbers, in order) are those
   of the reference decoder on the concatenated stream, and the states agree *)
Theorem c02_refines_reference : forall chunks,
  residue_ok chunks ->
  snd (feed rx_init chunks) = snd (ref_run ref_init (concat chunks))
  /\ agrees (fst (feed rx_init chunks)) (ref_after (concat chunks)).
Proof. exact refines_reference. Qed.

(* hence any two chunkings of one stream behave alike *)
Theorem c02_chunking : forall c1 c2,
  concat c1 = concat c2 -> residue_ok c1 -> residue_ok c2 ->
  snd (feed rx_init c1) = snd (feed rx_init c2).
Proof. exact chunking_independent. Qed.

(* memory: whatever arrives, from whatever state, the buffer kept between reads is bounded *)
Theorem c02_buffer_bounded : forall st chunk,
  (length (buf (fst (data_received st chunk))) <= N.to_nat MAX_BUFFER_SIZE)%nat.
Proof. exact buffer_bounded. Qed.

(* a frame with an invalid escape or an invalid CRC produces no upward delivery, only a NAK *)
Theorem c02_bad_escape : forall rx fb,
  unstuff fb = None -> handle_frame_bytes rx fb = (rx, [WCancelNak rx]).
Proof. exact bad_escape. Qed.

Theorem c02_bad_crc : forall rx fb d,
  unstuff fb = Some d -> unwrap d = None -> handle_frame_bytes rx fb = (rx, [WCancelNak rx]).
Proof. exact bad_crc. Qed.

(* every upward delivery stems from a frame that unstuffs, passes the CRC and parses *)
Theorem c02_up_only_valid : forall rx fb p,
  In (Up p) (snd (handle_frame_bytes rx fb)) ->
  exists d frm re ack, unstuff fb = Some d /\ unwrap d <> None /\ parse d = Some (Data frm re ack p) /\ frm = rx.
Proof. exact up_only_valid. Qed.

Theorem c02_reset_only_valid : forall rx fb c,
  In (ResetUp c) (snd (handle_frame_bytes rx fb)) ->
  exists d v, unstuff fb = Some d /\ unwrap d <> None /\ (parse d = Some (Rstack v c) \/ parse d = Some (Error v c)).
Proof. exact reset_only_valid. Qed.

(* non-vacuity: a stream with garbage, CANCEL, SUBSTITUTE, XON and two DATA frames, cut mid-frame *)
Example c02_example :
  let s := [0x00; CANCEL] ++ write_frame [] (Data 0 0 0 [0x7E]) ++ [0x41; SUB; 0x42; FLAG; XON]
           ++ write_frame [] (Data 1 0 0 []) in
  ups (snd (feed rx_init [firstn 5 s; skipn 5 s])) = [[0x7E]; []]
  /\ ups (snd (ref_run ref_init s)) = [[0x7E]; []].
Proof. vm_compute. split; reflexivity. Qed.

(* the unstuffing step of the receive path is the function the source text defines now
   (gen/GenAshFn.v, emitted from the Python AST of AshProtocol._unstuff_bytes on every run) *)
Require Import BV.gen.GenAshFn BV.proofs.AshSrc_proofs.
Theorem c02_source_unstuff : forall d, py_unstuff_bytes d = unstuff d.
Proof. exact src_unstuff. Qed.

(* the receive loop itself is the function the source text defines now (gen/GenAshLoopFn.v, emitted from the Python
   AST of AshProtocol.data_received on every run: the `while self._buffer:` loop on explicit fuel len(buffer) + 1, its
   try / except clauses resolved structurally, frame_received = the emitted py_frame_received of gen/GenAshRxFn.v).
   From every starting state and for every read the emitted function RETURNS -- it neither raises nor runs out of fuel --
   with the buffer, the discarding flag and the receive number of the model's data_received, and the writes and upward
   calls it makes (eff_obs reads a call as the model's output) are the model's observable outputs, in order.  tx, fl,
   code: the other attributes frame_received works on; eff0: the calls made before *)
Require Import BV.gen.GenAshRxFn BV.gen.GenAshLoopFn BV.proofs.AshRxSrc_proofs BV.proofs.AshLoopSrc_proofs.
Theorem c02_source_receive_loop : forall st tx fl code eff0 chunk,
  exists tx' fl' code' e,
    py_data_received (buf st, discarding st, rxseq st, tx, fl, code, eff0) chunk =
      Done (buf (fst (data_received st chunk)), discarding (fst (data_received st chunk)),
            rxseq (fst (data_received st chunk)), tx', fl', code', eff0 ++ e)
    /\ flat_map eff_obs e = filter observable (snd (data_received st chunk)).
Proof. exact src_receive_loop. Qed.

(* the fuel is not special: with any amount above the length of the buffer the emitted loop gives the result it gives
   with len(buffer) + 1, and that result is a normal return (every iteration that does not break consumes a byte) *)
Theorem c02_source_loop_fuel : forall fuel s,
  (length (buffer_of s) < fuel)%nat ->
  py_while py_data_received_loop_test py_data_received_loop_body fuel s =
  py_while py_data_received_loop_test py_data_received_loop_body (S (length (buffer_of s))) s
  /\ exists s', py_while py_data_received_loop_test py_data_received_loop_body fuel s = Done s'.
Proof. exact src_loop_fuel. Qed.

(* hence the emitted function, called read after read (py_feed), is the reference decoder: same final residue, flag and
   receive number, same deliveries, reset notifications and ACK / NAK numbers in the same order *)
Theorem c02_source_refines_reference : forall chunks tx fl code,
  residue_ok chunks ->
  exists tx' fl' code' e,
    py_feed ([], false, 0, tx, fl, code, []) chunks =
      Done (racc (ref_after (concat chunks)), rdisc (ref_after (concat chunks)), rrx (ref_after (concat chunks)),
            tx', fl', code', e)
    /\ flat_map eff_obs e = filter observable (snd (ref_run ref_init (concat chunks))).
Proof. exact src_feed_reference. Qed.
