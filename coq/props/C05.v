(* C05 -- ASH sends end within the retry budget; a failed link stays silent until reset.
   Statements only; proofs in proofs/AshHost_proofs.v.  [host_step] transliterates
   AshProtocol.send_data/_send_data_frame/_handle_ack/frame_received with IEEE binary64 time
   (tied to the code by the C05 correspondence, bit-exact on the timeout values). *)
From Coq Require Import PrimFloat NArith List Bool.
Import ListNotations.
Require Import BV.gen.GenAsh BV.model.AshCodec BV.model.AshRx BV.model.AshHost BV.proofs.AshHost_proofs.
Open Scope N_scope.

(* vocabulary (defined in the proofs file):
   outs es            := concat (snd (host_run h_init es))       everything the host did
   final es           := fst (host_run h_init es)
   reachable st       := exists es, submits_unique es /\ st = final es
   submits es         := ids of the Submit events ; submits_unique es := NoDup (submits es)
   datas id l         := the (frm, retx, payload) of the HData outputs of l that belong to send id
   in_bounds t        := t = T_RX_ACK_MIN_F \/ t = T_RX_ACK_MAX_F
                         \/ (PrimFloat.ltb T_RX_ACK_MIN_F t = true /\ PrimFloat.ltb T_RX_ACK_MAX_F t = false)
   has_frame P e      := e = Frames fs and some frame of fs satisfies P
   is_nak / is_rstack_or_rst : predicates on frames
   acks n f           := f is a DATA/ACK/NAK frame whose ackNum is n modulo 8
   quiescent st       := forall c, cur st = Some c -> cfut c = FPending
                         (between events the coroutine awaiting the acknowledgement is suspended on an
                         unresolved future; every state [final es] is quiescent, c05_quiescent)      *)

(* the budget: whatever the peer does, a send's DATA frame is transmitted at most ACK_TIMEOUTS
   times, always with the same frame number and payload, the retransmit flag exactly on repeats *)
Theorem c05_attempts : forall es id, submits_unique es ->
  exists frm p n, (n <= N.to_nat ACK_TIMEOUTS)%nat /\
    datas id (outs es) = map (fun k => (frm, if Nat.eqb k 0 then 0 else 1, p)) (seq 0 n).
Proof. exact attempts. Qed.

(* the adaptive timeout always lies within the protocol's bounds, and every attempt's deadline is
   its transmission time plus such a value *)
Theorem c05_timeout_bounds : forall es, in_bounds (t_ack (final es)).
Proof. exact timeout_bounds. Qed.

Theorem c05_deadline : forall es c, cur (final es) = Some c ->
  exists t, in_bounds t /\ cdeadline c = PrimFloat.add (csent c) t.
Proof. exact deadline_within_bounds. Qed.

(* a repeat is caused by a NAK or by the acknowledgement timeout, nothing else.
   CORRECTED: as first stated (for every [st]) this is false of the model.  Counterexample
   ([unquiet_state] in the proofs file): st with cur = Some {cid 7; cfrm 0; cattempt 0; cfut := FNaked},
   failed = false, and e = Frames [] (or Frames [Ack 0 0 1]): the step is
   [HData 7 0 1 0 [] 0], a repeat with neither a Tick nor a NAK in this event -- the NAK was in the
   state already.  Such a state never exists between events: host_step runs to quiescence.  The
   hypothesis [quiescent st] states exactly that, and c05_quiescent shows it of every state a run
   can reach (no uniqueness of ids needed). *)
Theorem c05_repeat_cause : forall st e id frm ack p t, quiescent st ->
  In (HData id frm 1 ack p t) (snd (host_step st e)) ->
  e = Tick \/ has_frame is_nak e.
Proof. exact repeat_cause. Qed.

Theorem c05_quiescent : forall es, quiescent (final es).
Proof. exact quiescent_reachable. Qed.

Example c05_repeat_cause_needs_quiescent :
  In (HData 7 0 1 0 [] 0%float) (snd (host_step unquiet_state (Frames [])))
  /\ ~ (Frames [] = Tick \/ has_frame is_nak (Frames [])).
Proof. exact repeat_cause_needs_quiescent. Qed.

(* a send returns normally only after an acknowledgement covering its frame arrived while it was
   awaiting one *)
Theorem c05_ok_needs_ack : forall es e id, submits_unique es ->
  In (HDone id OOk) (snd (host_step (final es) e)) ->
  exists c, cur (final es) = Some c /\ cid c = id /\ has_frame (acks ((cfrm c + 1) mod 8)) e.
Proof. exact ok_needs_ack. Qed.

(* failed link: no DATA frame is written and the state stays failed until an RSTACK (or RST)
   arrives; a send submitted meanwhile fails at once; nothing is left waiting *)
Theorem c05_failed_silent : forall st e, failed st = true -> ~ has_frame is_rstack_or_rst e ->
  failed (fst (host_step st e)) = true /\
  (forall id frm re ack p t, ~ In (HData id frm re ack p t) (snd (host_step st e))).
Proof. exact failed_silent. Qed.

Theorem c05_failed_submit : forall st id p, failed st = true -> cur st = None -> memN id (cancelled st) = false ->
  snd (host_step st (Submit id p)) = [HDone id (OFailure ERROR_EXCEEDED_MAXIMUM_ACK_TIMEOUT_COUNT)].
Proof. exact failed_submit. Qed.

Theorem c05_failed_nothing_waiting : forall es,
  failed (final es) = true -> cur (final es) = None /\ waiters (final es) = [].
Proof. exact failed_nothing_waiting. Qed.

(* the upper layer is told: once per ERROR frame with its code, once when the budget runs out *)
Theorem c05_error_reported : forall st fs v code,
  In (Error v code) fs -> In (HReset code) (snd (host_step st (Frames fs))).
Proof. exact error_reported. Qed.

(* (the count is a nat: the comparison is scoped explicitly; as first written it did not typecheck
   under N_scope) *)
Theorem c05_budget_reported_once : forall st,
  (length (filter (fun o => match o with HReset _ => true | _ => false end) (snd (host_step st Tick))) <= 1)%nat.
Proof. exact tick_reports_at_most_once. Qed.

(* at most one unacknowledged DATA frame: one step writes at most one DATA frame, the one the state
   then awaits; a frame of another send is written only once the previous send has ended *)
Theorem c05_window : forall st e id frm re ack p t,
  In (HData id frm re ack p t) (snd (host_step st e)) ->
  (exists c, cur (fst (host_step st e)) = Some c /\ cid c = id /\ cfrm c = frm /\ cpayload c = p /\ cfut c = FPending)
  /\ length (filter (fun o => match o with HData _ _ _ _ _ _ => true | _ => false end) (snd (host_step st e))) = 1%nat
  /\ (forall c0, cur st = Some c0 -> cid c0 <> id ->
        (exists o, In (HDone (cid c0) o) (snd (host_step st e))) \/ memN (cid c0) (cancelled st) = true).
Proof. exact window. Qed.

(* frame numbers of first transmissions are consecutive modulo 8 *)
Theorem c05_consecutive : forall st e id frm ack p t, ~ has_frame is_rstack_or_rst e ->
  In (HData id frm 0 ack p t) (snd (host_step st e)) ->
  frm = tx_seq st /\ tx_seq (fst (host_step st e)) = (frm + 1) mod 8.
Proof. exact consecutive. Qed.

(* non-vacuity: five silent attempts exhaust the budget with timeouts 1.6, 3.2, 3.2, 3.2, 3.2 *)
Example c05_example :
  let es := [Submit 7 [1; 2]; Tick; Tick; Tick; Tick; Tick; Submit 8 [3]] in
  datas 7 (outs es) = map (fun k => (0, if Nat.eqb k 0 then 0 else 1, [1; 2])) (seq 0 5)
  /\ failed (final es) = true
  /\ In (HDone 7 OTimeout) (outs es) /\ In (HDone 8 (OFailure 81)) (outs es).
Proof. vm_compute. repeat split; auto 20. Qed.

(* ---- frames and the acknowledgement timeout in the SAME loop iteration (model/AshRace.v) ----------
   asyncio runs the I/O callback before the due timer and both before any coroutine resumes, so the
   frames take effect and the attempt then ends as a timeout whatever they carried (an ACK that races
   the timeout does not complete the send; the frame is repeated).  The statements above hold of runs
   that contain such steps as well:
     routs es / rfinal es   := outputs / final state of [rrun h_init es] over [revent := REv e | RRace fs]
     rsubmits_unique es     := the ids of the REv (Submit ..) events are distinct                       *)
Require Import BV.model.AshRace BV.proofs.AshRace_proofs.

Theorem c05_race_attempts : forall es id, rsubmits_unique es ->
  exists frm p n, (n <= N.to_nat ACK_TIMEOUTS)%nat /\
    datas id (routs es) = map (fun k => (frm, if Nat.eqb k 0 then 0 else 1, p)) (seq 0 n).
Proof. exact race_attempts. Qed.

Theorem c05_race_timeout_bounds : forall es, in_bounds (t_ack (rfinal es)).
Proof. exact race_timeout_bounds. Qed.

Theorem c05_race_deadline : forall es c, cur (rfinal es) = Some c ->
  exists t, in_bounds t /\ cdeadline c = PrimFloat.add (csent c) t.
Proof. exact race_deadline. Qed.

Theorem c05_race_quiescent : forall es, quiescent (rfinal es).
Proof. exact race_quiescent. Qed.

(* an acknowledgement that races the timeout never completes the send; a send completes only in an
   ordinary read that carries a covering acknowledgement *)
Theorem c05_race_never_ok : forall st fs id, quiescent st -> ~ In (HDone id OOk) (snd (race_step st fs)).
Proof. exact race_never_ok. Qed.

Theorem c05_race_ok_needs_ack : forall es e id, rsubmits_unique es ->
  In (HDone id OOk) (snd (rstep (rfinal es) e)) ->
  exists c e0, e = REv e0 /\ cur (rfinal es) = Some c /\ cid c = id /\
               has_frame (acks ((cfrm c + 1) mod 8)) e0.
Proof. exact race_ok_needs_ack. Qed.

(* the repeat written in such a step is the timeout's: same send, same frame number, at the deadline *)
Theorem c05_race_repeat_is_timeout : forall st fs id frm ack p t, quiescent st ->
  In (HData id frm 1 ack p t) (snd (race_step st fs)) ->
  exists c, cur st = Some c /\ cid c = id /\ cfrm c = frm /\ t = cdeadline c.
Proof. exact race_repeat_is_timeout. Qed.

Theorem c05_race_failed_silent : forall st fs, failed st = true ->
  (forall f, In f fs -> ~ is_rstack_or_rst f) ->
  failed (fst (race_step st fs)) = true /\
  (forall id frm re ack p t, ~ In (HData id frm re ack p t) (snd (race_step st fs))).
Proof. exact race_failed_silent. Qed.

Theorem c05_race_failed_nothing_waiting : forall es,
  failed (rfinal es) = true -> cur (rfinal es) = None /\ waiters (rfinal es) = [].
Proof. exact race_failed_nothing_waiting. Qed.

Theorem c05_race_error_reported : forall st fs v code, In (Error v code) fs ->
  (exists c, cur st = Some c /\ cfut c = FPending) ->
  In (HReset code) (snd (race_step st fs)).
Proof. exact race_error_reported. Qed.

(* upward reports of such a step: one per ERROR / RSTACK frame, at most one more for the spent budget *)
Theorem c05_race_reports_bounded : forall st fs,
  (length (filter (fun o => match o with HReset _ => true | _ => false end) (snd (race_step st fs)))
   <= length (filter (fun f => match f with Error _ _ | Rstack _ _ => true | _ => false end) fs) + 1)%nat.
Proof. exact race_reports_bounded. Qed.

Theorem c05_race_window : forall st fs id frm re ack p t,
  In (HData id frm re ack p t) (snd (race_step st fs)) ->
  (exists c, cur (fst (race_step st fs)) = Some c /\ cid c = id /\ cfrm c = frm /\ cpayload c = p /\
             cfut c = FPending)
  /\ length (filter (fun o => match o with HData _ _ _ _ _ _ => true | _ => false end)
                    (snd (race_step st fs))) = 1%nat.
Proof. exact race_window. Qed.

Theorem c05_race_consecutive : forall st fs id frm ack p t,
  (forall f, In f fs -> ~ is_rstack_or_rst f) ->
  In (HData id frm 0 ack p t) (snd (race_step st fs)) ->
  frm = tx_seq st /\ tx_seq (fst (race_step st fs)) = (frm + 1) mod 8.
Proof. exact race_consecutive. Qed.

(* non-vacuity: the covering ACK arrives together with the timeout: the frame is repeated (retransmit
   flag set, at 1.6 s), nobody completes; the next ACK completes the send *)
Example c05_race_example :
  let es := [REv (Submit 7 [1; 2]); RRace [Ack 0 0 1]; REv (Frames [Ack 0 0 1])] in
  exists t,
    In (HData 7 0 1 0 [1; 2] t) (nth 1 (snd (rrun h_init es)) [])
    /\ (forall id o, ~ In (HDone id o) (nth 1 (snd (rrun h_init es)) []))
    /\ In (HDone 7 OOk) (nth 2 (snd (rrun h_init es)) []).
Proof. exact race_example. Qed.

(* ---- the tie to the source text: the synchronous frame handler -------------------------------------
   [apply_frame] (the effect of one received frame on the host: counters, failed flag, timeout reset,
   writes, upward calls, the acknowledgement future) is what the receive-side methods of AshProtocol,
   emitted from their source on every run (gen/GenAshRxFn.v), do. *)
Require Import BV.gen.GenAshRxFn BV.proofs.AshRxSrc_proofs.
Theorem c05_source_frame_handler : forall st code f,
  let '(rx', tx', fl', _, eff) := py_frame_received (rx_seq st, tx_seq st, failed st, code) f in
  let st' := fst (apply_frame st f) in
  rx_seq st' = rx' /\ tx_seq st' = tx' /\ failed st' = fl'
  /\ snd (apply_frame st f) = flat_map eff_hout eff
  /\ cur st' = cur (fold_left eff_fut eff st)
  /\ t_ack st' = (if has_init eff then clamp T_RX_ACK_INIT_F else t_ack st)
  /\ now st' = now st /\ waiters st' = waiters st /\ cancelled st' = cancelled st.
Proof. exact src_apply_frame. Qed.

(* ---- the positive halves: what arrives completes the send accordingly (proofs/AshHostPos_proofs.v) ----
   (in every reachable state the frame number of the current send is below 8: cfrm_lt_8) *)
Require Import BV.proofs.AshHostPos_proofs.

Theorem c05_ack_completes : forall es c r n, let st := fst (host_run h_init es) in
  cur st = Some c -> cfut c = FPending -> memN (cid c) (cancelled st) = false ->
  In (HDone (cid c) OOk) (snd (host_step st (Frames [Ack r n ((cfrm c + 1) mod 8)]))).
Proof. exact ack_completes_run. Qed.

Theorem c05_piggybacked_ack_completes : forall es c frm re p, let st := fst (host_run h_init es) in
  cur st = Some c -> cfut c = FPending -> memN (cid c) (cancelled st) = false ->
  In (HDone (cid c) OOk) (snd (host_step st (Frames [Data frm re ((cfrm c + 1) mod 8) p]))).
Proof. exact data_ack_completes_run. Qed.

Theorem c05_error_fails_current_send : forall st c v code,
  cur st = Some c -> cfut c = FPending -> memN (cid c) (cancelled st) = false ->
  In (HDone (cid c) (OFailure code)) (snd (host_step st (Frames [Error v code])))
  /\ In (HReset code) (snd (host_step st (Frames [Error v code]))).
Proof. exact error_fails_current. Qed.

(* a NAK (whose ackNum does not name the outstanding frame) repeats the frame at once, or - on the last permitted
   attempt - fails the link, tells the upper layer and the caller *)
Theorem c05_nak_repeats_or_fails : forall st c r n a,
  cur st = Some c -> cfut c = FPending -> failed st = false ->
  ((a + 7) mod 8 =? cfrm c) = false ->
  ((ACK_TIMEOUTS - 1 <=? cattempt c) = false ->
     exists t ack, In (HData (cid c) (cfrm c) 1 ack (cpayload c) t)
                      (snd (host_step st (Frames [Nak r n a]))))
  /\ ((ACK_TIMEOUTS - 1 <=? cattempt c) = true ->
        In (HReset ERROR_EXCEEDED_MAXIMUM_ACK_TIMEOUT_COUNT) (snd (host_step st (Frames [Nak r n a])))
        /\ failed (fst (host_step st (Frames [Nak r n a]))) = true
        /\ (memN (cid c) (cancelled st) = false ->
              In (HDone (cid c) ONotAcked) (snd (host_step st (Frames [Nak r n a]))))).
Proof. exact nak_repeats_or_fails. Qed.

Theorem c05_timeout_repeats_or_fails : forall st c,
  cur st = Some c -> cfut c = FPending -> failed st = false ->
  ((ACK_TIMEOUTS - 1 <=? cattempt c) = false ->
     exists t ack, In (HData (cid c) (cfrm c) 1 ack (cpayload c) t) (snd (host_step st Tick)))
  /\ ((ACK_TIMEOUTS - 1 <=? cattempt c) = true ->
        In (HReset ERROR_EXCEEDED_MAXIMUM_ACK_TIMEOUT_COUNT) (snd (host_step st Tick))
        /\ failed (fst (host_step st Tick)) = true
        /\ (memN (cid c) (cancelled st) = false -> In (HDone (cid c) OTimeout) (snd (host_step st Tick)))).
Proof. exact tick_repeats_or_fails. Qed.

(* observation kept as an Example: a NAK whose ackNum names the outstanding frame acknowledges it (the
   acknowledgement information of a NAK is used first) *)
Example c05_nak_that_acknowledges :
  let st := fst (host_run h_init [Submit 3 [1]]) in
  filter (fun o => match o with HDone _ _ | HData _ _ _ _ _ _ => true | _ => false end)
         (snd (host_step st (Frames [Nak 0 0 1]))) = [HDone 3 OOk].
Proof. exact nak_that_acknowledges. Qed.

(* ---- the tie to the source text: the sender coroutine ---------------------------------------------------
   AshProtocol._change_ack_timeout, send_data and _send_data_frame are emitted from their source on every run
   (gen/GenAshTxFn.v): the coroutine is cut at its suspension points into [py_send_attempt_begin] (loop head to
   the await) and [py_send_attempt_end] (resumption to the end of the iteration, per outcome of the wait);
   [py_send_resume] joins an end, the `for` and the next begin.  [interp] (proofs/AshTxSrc_proofs.v) reads a
   segment's result as a model transition in one way for every outcome: attributes stored back, a suspended
   coroutine = the current send awaiting its future until send time + timeout, a returned / raised one reported
   to its caller, the released semaphore handed to the queued sends, the calls it made as outputs. *)
Require Import BV.gen.GenAshTxFn BV.proofs.AshTxSrc_proofs.

(* max(T_RX_ACK_MIN, min(new_value, T_RX_ACK_MAX)) as written is the model's clamp, for every float *)
Theorem c05_source_change_ack_timeout : forall t v, py_change_ack_timeout t v = clamp v.
Proof. exact src_change_ack_timeout. Qed.

(* (7 / 8) * t + 0.5 * delta after an acknowledgement or a NAK, 2 * t after a timeout, nothing after NcpFailure;
   same association and literals, clamped *)
Theorem c05_source_timeout_update : forall rx tx fl code t frame frm attempt send now,
  t_of (py_send_attempt_end (rx, tx, fl, code, t) frame frm attempt send now WAcked) = on_ack_time t (PrimFloat.sub now send)
  /\ t_of (py_send_attempt_end (rx, tx, fl, code, t) frame frm attempt send now WNotAcked) = on_ack_time t (PrimFloat.sub now send)
  /\ t_of (py_send_attempt_end (rx, tx, fl, code, t) frame frm attempt send now WTimeout) = on_timeout t
  /\ (forall c, t_of (py_send_attempt_end (rx, tx, fl, code, t) frame frm attempt send now (WNcpFailure c)) = t).
Proof. exact src_timeout_update. Qed.

(* one transmission: the number is taken once (when frm_num is None, and then _tx_seq moves on), reTx = attempt > 0,
   ackNum = the current _rx_seq, the future is registered under the number before the write, the wait is bounded by
   _t_rx_ack from now: this is the model's [transmit] *)
Theorem c05_source_attempt_begin : forall st code id payload h1 h2 h3 frm_opt attempt,
  failed st = false ->
  let frm := match frm_opt with Some f => f | None => tx_seq st end in
  let st1 := match frm_opt with
             | Some _ => st
             | None => {| tx_seq := (tx_seq st + 1) mod 8; rx_seq := rx_seq st; failed := false; t_ack := t_ack st; now := now st;
                          waiters := waiters st; cur := cur st; cancelled := cancelled st |}
             end in
  let frame := (Some frm, Some (if attempt =? 0 then 0 else 1), Some (rx_seq st), payload) in
  py_send_attempt_begin (sstate st code) [] (h1, h2, h3, payload) frm_opt attempt (now st)
    = RAwait (sstate st1 code) [TRegister frm; TWrite frame; TAwaitAck (t_ack st)] frame frm attempt (now st)
  /\ interp st id (py_send_attempt_begin (sstate st code) [] (h1, h2, h3, payload) frm_opt attempt (now st))
    = transmit st1 id payload frm attempt.
Proof. exact src_attempt_begin. Qed.

(* in the failed state nothing is written: the coroutine raises NcpFailure at the loop head *)
Theorem c05_source_attempt_begin_failed : forall st code payload h1 h2 h3 frm_opt attempt,
  failed st = true ->
  py_send_attempt_begin (sstate st code) [] (h1, h2, h3, payload) frm_opt attempt (now st)
    = RRaise (sstate st code) (pops frm_opt ++ [TRelease]) (XNcpFailure ERROR_EXCEEDED_MAXIMUM_ACK_TIMEOUT_COUNT).
Proof. exact src_attempt_begin_failed. Qed.

(* the end of an attempt, per outcome: return / raise the failure / repeat, or on the last permitted attempt
   _enter_failed_state(ERROR_EXCEEDED_MAXIMUM_ACK_TIMEOUT_COUNT) and re-raise; the pending entry is popped and the
   semaphore released on every way out *)
Theorem c05_source_attempt_end : forall rx tx fl code t frame frm attempt send now,
  py_send_attempt_end (rx, tx, fl, code, t) frame frm attempt send now WAcked
    = RReturn (rx, tx, fl, code, on_ack_time t (PrimFloat.sub now send)) [TPop frm; TRelease]
  /\ (forall c, py_send_attempt_end (rx, tx, fl, code, t) frame frm attempt send now (WNcpFailure c)
    = RRaise (rx, tx, fl, code, t) [TPop frm; TRelease] (XNcpFailure c))
  /\ py_send_attempt_end (rx, tx, fl, code, t) frame frm attempt send now WNotAcked
    = (if ACK_TIMEOUTS - 1 <=? attempt
       then RRaise (rx, tx, true, code, on_ack_time t (PrimFloat.sub now send)) (give_up ++ [TPop frm; TRelease]) XNotAcked
       else RNext (rx, tx, fl, code, on_ack_time t (PrimFloat.sub now send)) [] frame (Some frm))
  /\ py_send_attempt_end (rx, tx, fl, code, t) frame frm attempt send now WTimeout
    = (if ACK_TIMEOUTS - 1 <=? attempt
       then RRaise (rx, tx, true, code, on_timeout t) (give_up ++ [TPop frm; TRelease]) XTimeout
       else RNext (rx, tx, fl, code, on_timeout t) [] frame (Some frm)).
Proof. exact src_attempt_end. Qed.

(* `for attempt in range(ACK_TIMEOUTS)` never runs out: an iteration that ends without return / raise has a successor *)
Theorem c05_source_budget : forall s frame frm a send now w,
  match py_send_attempt_end s frame frm a send now w with
  | RNext _ _ _ _ => py_send_next_attempt a = Some (a + 1)
  | _ => True
  end.
Proof. exact src_never_exhausted. Qed.

(* the coroutine resumes with its future resolved (acknowledged / NotAcked / NcpFailure): the model's [settle] is
   the emitted code from the resumption to the next suspension point or the end, for every state and attempt *)
Theorem c05_source_attempt : forall st c code h1 h2 h3 w,
  cur st = Some c -> waited_of (cfut c) = Some w ->
  settle st
  = interp st (cid c)
      (py_send_resume (sstate st code) (h1, h2, h3, cpayload c) (cfrm c) (cattempt c) (csent c) (now st) w).
Proof. exact src_settle. Qed.

(* ... with TimeoutError at the deadline: the model's Tick *)
Theorem c05_source_timeout : forall st c code h1 h2 h3,
  cur st = Some c -> cfut c = FPending ->
  host_step st Tick
  = interp (set_now st (cdeadline c)) (cid c)
      (py_send_resume (sstate st code) (h1, h2, h3, cpayload c) (cfrm c) (cattempt c) (csent c) (cdeadline c) WTimeout).
Proof. exact src_tick. Qed.

(* ... with TimeoutError after frames of the same loop iteration had their effects (model/AshRace.v) *)
Theorem c05_source_race : forall st fs c code h1 h2 h3,
  cur st = Some c -> cfut c = FPending ->
  race_step st fs
  = let '(st1, o1) := apply_frames (set_now st (cdeadline c)) fs in
    match cur st1 with
    | Some c1 =>
        let '(st3, o3) := interp st1 (cid c1)
              (py_send_resume (sstate st1 code) (h1, h2, h3, cpayload c1) (cfrm c1) (cattempt c1) (csent c1) (now st1) WTimeout) in
        (st3, o1 ++ o3)
    | None => (st1, o1)
    end.
Proof. exact src_race. Qed.

(* queued sends: the semaphore is granted in FIFO order and every send starts with the emitted first segment
   ([sched]: [py_send_enter] on the frame [py_send_data_arg payload] that send_data builds) *)
Theorem c05_source_queue : forall fuel code st, start_next fuel st = sched fuel code st.
Proof. exact src_start_next. Qed.

Theorem c05_source_init : py_tx_init = sstate h_init 256.
Proof. exact src_init. Qed.
