Require Import BV.model.AshHost.
