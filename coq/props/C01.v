(* C01 -- reliable, ordered, exactly-once delivery between the host's ASH endpoint and a
   specification-conforming NCP over a line that drops, detectably corrupts, duplicates and stalls.
   Statements only; proofs in proofs/AshLink_proofs.v; the system is model/AshLink.v.

   The system (link_step K : lstate -> label -> lstate, link_run K ls from l_init):
     host     the hstate of model/AshHost.v, evolving through host_step only (window TX_K = 1,
              ACK_TIMEOUTS = 5 attempts, then the failed state);
     NCP      n_rx / n_base / n_next / n_sub; it may submit a payload (LNSubmit), (re)transmit
              DATA frame i of its window n_base <= i <= n_next, i < n_base + K with frmNum i mod 8,
              ackNum n_rx mod 8 and either value of reTx (LNData i re), send ACK / NAK carrying
              n_rx mod 8 at any time (LNAck, LNNak); it accepts a DATA frame iff frmNum = n_rx mod 8
              and slides n_base by the decoded ackNum of every frame it reads; it never resets;
     line     two FIFO queues of frames; the head of either can be delivered, dropped, duplicated
              (LHDup / LNDup put a second copy behind the head: "deliver and keep" is Dup then
              Deliver, and any number of copies is possible) or detectably corrupted (the reader
              sees garbage: the host answers CANCEL + NAK, the NCP answers NAK); the host may
              also get the first n frames of its queue in one read (LHRead n: host_step's
              Frames event with n frames, applied back to back before any coroutine resumes);
     stall    LTick, the host's acknowledgement timeout;
     callers  LSubmit id p, LCancel id, and LWaitTo t for the passage of time.
   Everything the host writes joins the host->NCP queue in order.  Labels that are not enabled are
   no-ops, so the theorems quantify over every list of labels of any length: every fault
   assignment, every interleaving of the two ends, every cancellation point, runs that wrap the
   3-bit numbers any number of times, and runs in which the host gives up (retry budget exhausted:
   it stops transmitting and later sends fail at once).

   One epoch: nobody resets, and a conforming NCP emits no RST / RSTACK / ERROR inside an epoch.
   host_step has no event for an unparsable frame, so a corrupted frame is an event of its own
   (LHCorrupt) and cannot sit in the middle of one LHRead.

   Vocabulary (model/AshLink.v):
     hups s            payloads the host handed up (HUp outputs), in order
     nups s            payloads the NCP handed up, in order
     first_tx tr       (id, payload) of the DATA frames in tr with reTx = 0, in order
     ncp_deliveries s  firstn (length (nups s)) (first_tx (htrace s)): the sends the NCP's upper
                       layer has received (justified by c01_host_to_ncp_prefix)
     lsubmits ls       (id, payload) of the LSubmit labels, in order
     prefix_of a b     exists rest, b = a ++ rest
     subseq a b        a is an order-preserving sub-sequence of b (proofs file)
     drop_cancels ls   ls without its LCancel labels
     strip C tr        tr without the HDone events of the callers in C                          *)
From Coq Require Import PrimFloat ZArith NArith List Bool Arith FinFun.
Import ListNotations.
Require Import BV.gen.GenAsh BV.model.AshCodec BV.model.AshRx BV.model.AshHost BV.model.AshLink.
Require Import BV.proofs.AshLink_proofs.
Local Open Scope nat_scope.

(* ---- NCP -> host --------------------------------------------------------------------------------
   The payloads the host hands up are a prefix of the payloads the NCP submitted, in submission
   order: each exactly once, in order, none invented.  Any window up to 7. *)
Theorem c01_ncp_to_host_prefix : forall K ls, K <= 7 ->
  prefix_of (hups (link_run K ls)) (n_sub (ns (link_run K ls))).
Proof. exact ncp_to_host_prefix. Qed.

(* whatever the NCP considers acknowledged has been handed up *)
Theorem c01_ncp_acked_delivered : forall K ls, K <= 7 ->
  n_base (ns (link_run K ls)) <= length (hups (link_run K ls)).
Proof. exact ncp_acked_delivered. Qed.

(* ---- host -> NCP --------------------------------------------------------------------------------
   The payloads the NCP hands up are a prefix of the host's payloads in the order of their first
   transmission; the k-th of them is the payload of the k-th send first-transmitted; and sends are
   first-transmitted in the order in which they were submitted (a sub-sequence: a send refused by a
   failed link is never transmitted). *)
Theorem c01_host_to_ncp_prefix : forall K ls, K <= 7 ->
  let s := link_run K ls in
  prefix_of (nups s) (map snd (first_tx (htrace s)))
  /\ map snd (ncp_deliveries s) = nups s
  /\ subseq (first_tx (htrace s)) (lsubmits ls).
Proof. exact host_to_ncp_prefix. Qed.

(* ---- a send that completes successfully has been delivered, exactly once ------------------------ *)
Theorem c01_completed_delivered : forall K ls id, K <= 7 -> NoDup (map fst (lsubmits ls)) ->
  let s := link_run K ls in
  In (HDone id OOk) (htrace s) ->
  count_occ N.eq_dec (map fst (ncp_deliveries s)) id = 1
  /\ exists p, In (id, p) (lsubmits ls) /\ In (id, p) (ncp_deliveries s).
Proof. exact completed_delivered. Qed.

(* ---- a send that fails, is cancelled, or has not completed: at most once ------------------------
   No send at all is delivered twice, whatever was or was not reported about it. *)
Theorem c01_failed_at_most_once : forall K ls id, K <= 7 -> NoDup (map fst (lsubmits ls)) ->
  count_occ N.eq_dec (map fst (ncp_deliveries (link_run K ls))) id <= 1.
Proof. exact at_most_once. Qed.

(* ---- cancelling callers ---------------------------------------------------------------------------
   Run the same labels without the LCancel ones: both endpoints are in the same state (but for the
   host's list of cancelled callers), the same frames are on the wire, both sides have handed up the
   same payloads, the same sends have been transmitted, and the host's outputs differ only in the
   completion events of the cancelled callers -- every other caller is told the same thing.
   No hypothesis is needed. *)
Theorem c01_cancel_noop : forall K ls,
  let s1 := link_run K ls in
  let s2 := link_run K (drop_cancels ls) in
  hs s2 = set_cancelled (hs s1) [] /\ ns s2 = ns s1 /\ h2n s2 = h2n s1 /\ n2h s2 = n2h s1
  /\ nups s2 = nups s1 /\ hups s2 = hups s1 /\ first_tx (htrace s2) = first_tx (htrace s1)
  /\ strip (cancelled (hs s1)) (htrace s2) = strip (cancelled (hs s1)) (htrace s1)
  /\ (forall id o, ~ In (LCancel id) ls ->
        (In (HDone id o) (htrace s2) <-> In (HDone id o) (htrace s1))).
Proof. exact cancel_noop. Qed.

(* the callers in [cancelled] are exactly those named by LCancel labels *)
Theorem c01_cancelled_are_the_cancelled : forall K ls id,
  In id (cancelled (hs (link_run K ls))) <-> In (LCancel id) ls.
Proof. exact cancelled_labels. Qed.

(* ==== non-vacuity ================================================================================== *)
(* one exchange in each direction, with faults: the host's first transmission is lost, the timeout
   fires, the retransmission arrives twice; the NCP's acknowledgement arrives twice, in one read; the NCP's own
   DATA frame is corrupted on the line (the host NAKs), is retransmitted, and is acknowledged *)
Definition ex_round (i : nat) : list label :=
  [LSubmit (N.of_nat i) [N.of_nat i]; LNDrop; LTick; LNDup; LNDeliver; LNDeliver;
   LNAck; LHDup; LHRead 2;
   LNSubmit [N.of_nat (100 + i)]; LNData i false; LHCorrupt; LNDeliver; LNData i true; LHDeliver; LNDeliver].
(* twelve rounds: the 3-bit numbers wrap in both directions *)
Definition ex_run : list label := flat_map ex_round (seq 0 12).

Lemma ex_run_ids : map fst (lsubmits ex_run) = map N.of_nat (seq 0 12).
Proof. vm_compute. reflexivity. Qed.
Lemma ex_run_nodup : NoDup (map fst (lsubmits ex_run)).
Proof.
  rewrite ex_run_ids. apply FinFun.Injective_map_NoDup; [|apply seq_NoDup].
  intros a b H. apply Nat2N.inj. exact H.
Qed.

Example c01_ncp_to_host_prefix_ex :
  hups (link_run 3 ex_run) = map (fun i => [N.of_nat (100 + i)]) (seq 0 12)
  /\ n_sub (ns (link_run 3 ex_run)) = map (fun i => [N.of_nat (100 + i)]) (seq 0 12)
  /\ n_base (ns (link_run 3 ex_run)) = 12.
Proof. vm_compute. repeat split. Qed.

Example c01_host_to_ncp_prefix_ex :
  nups (link_run 3 ex_run) = map (fun i => [N.of_nat i]) (seq 0 12)
  /\ first_tx (htrace (link_run 3 ex_run)) = map (fun i => (N.of_nat i, [N.of_nat i])) (seq 0 12)
  /\ (length (h2n (link_run 3 ex_run)) = 0 /\ length (n2h (link_run 3 ex_run)) = 0).
Proof. vm_compute. repeat split. Qed.

Example c01_completed_delivered_ex :
  NoDup (map fst (lsubmits ex_run))
  /\ oks (htrace (link_run 3 ex_run)) = map N.of_nat (seq 0 12)
  /\ map fst (ncp_deliveries (link_run 3 ex_run)) = map N.of_nat (seq 0 12).
Proof. split; [exact ex_run_nodup|]. vm_compute. repeat split. Qed.

(* a send that fails although it was delivered: the five copies all reach the NCP, which hands the
   payload up once; every acknowledgement is lost, the budget runs out, the caller gets a timeout,
   the link is failed and the next caller is refused at once, its payload never transmitted *)
Definition ex_fail : list label :=
  [LSubmit 0 [7%N]; LNDeliver; LNAck; LHDrop;
   LTick; LNDeliver; LNAck; LHDrop; LTick; LNDeliver; LTick; LNDeliver; LTick; LNDeliver; LTick;
   LSubmit 1 [8%N]; LTick; LNDeliver].

Example c01_failed_at_most_once_ex :
  NoDup (map fst (lsubmits ex_fail))
  /\ completions (htrace (link_run 1 ex_fail))
     = [(0%N, OTimeout); (1%N, OFailure ERROR_EXCEEDED_MAXIMUM_ACK_TIMEOUT_COUNT)]
  /\ length (wire (htrace (link_run 1 ex_fail))) = 5
  /\ nups (link_run 1 ex_fail) = [[7%N]]
  /\ ncp_deliveries (link_run 1 ex_fail) = [(0%N, [7%N])]
  /\ failed (hs (link_run 1 ex_fail)) = true.
Proof.
  split.
  - vm_compute. constructor; [intros [H|[]]; discriminate|]. constructor; [intros []|constructor].
  - vm_compute. repeat split.
Qed.

(* the callers of sends 0, 3, 6, 9 of the twelve rounds are cancelled right after submitting *)
Definition ex_cancel : list label :=
  flat_map (fun i => match ex_round i with
                     | l :: r => if i mod 3 =? 0 then l :: LCancel (N.of_nat i) :: r else l :: r
                     | [] => [] end) (seq 0 12).

Example c01_cancel_noop_ex :
  drop_cancels ex_cancel = ex_run
  /\ cancelled (hs (link_run 3 ex_cancel)) = [9%N; 6%N; 3%N; 0%N]
  /\ completions (htrace (link_run 3 ex_cancel))
     = map (fun i => (N.of_nat i, if i mod 3 =? 0 then OCancelled else OOk)) (seq 0 12)
  /\ completions (htrace (link_run 3 ex_run)) = map (fun i => (N.of_nat i, OOk)) (seq 0 12)
  /\ nups (link_run 3 ex_cancel) = map (fun i => [N.of_nat i]) (seq 0 12).
Proof. vm_compute. repeat split. Qed.

(* the bound on the window is needed: with a window of 8 the 3-bit numbers are ambiguous.  Eight
   frames are accepted, their acknowledgements are still on their way, the NCP repeats frame 0
   and the host takes it for frame 8 *)
Definition ex_w8 : list label :=
  map (fun i => LNSubmit [N.of_nat i]) (seq 0 9) ++ map (fun i => LNData i false) (seq 0 8)
  ++ repeat LHDeliver 8 ++ [LNData 0 true; LHDeliver].

Example c01_window_bound_needed :
  hups (link_run 8 ex_w8) = map (fun i => [N.of_nat i]) (seq 0 8) ++ [[0%N]]
  /\ ~ prefix_of (hups (link_run 8 ex_w8)) (n_sub (ns (link_run 8 ex_w8))).
Proof.
  split; [vm_compute; reflexivity|]. intros [rest H]. vm_compute in H. discriminate H.
Qed.

(* ---- the byte level: the link theorems above speak of frames; the real line carries bytes.  The
   host's receive loop (AshRx.rx_loop, proved equal to the reference decoder in C02) is the
   composition of a pure deframer and the frame handler, and a read whose frames all parse is
   exactly one [Frames] event of the host machine used above (model/AshHostBytes.v, which the C01
   correspondence runs against the real AshProtocol byte for byte, corrupted frames included). *)
Require Import BV.model.AshHostBytes BV.proofs.AshHostBytes_proofs.

Theorem c01_receive_loop_is_deframe_then_handle : forall fuel b disc rx acc,
  rx_loop fuel b disc rx acc =
    let '(b', d', items) := deframe fuel b disc [] in
    let '(rx', outs) := handle_items rx items in (b', d', rx', acc ++ outs).
Proof. exact rx_loop_deframe. Qed.

Theorem c01_read_of_valid_frames_is_frames_event : forall st chunk b' d' fs,
  deframe (S (List.length (rbuf st ++ chunk))) (rbuf st ++ chunk) (rdisc st) [] = (b', d', map Some fs) ->
  bstep st (BBytes chunk) =
    ({| hst := fst (host_step (hst st) (Frames fs)); rbuf := cap b'; rdisc := d' |},
     snd (host_step (hst st) (Frames fs))).
Proof. exact read_of_valid_frames. Qed.

(* an unparsable frame (bad CRC, bad escape, bad length) only makes the host write CANCEL + NAK with
   its expected number; it changes nothing else -- the "detectable corruption" label of the link model *)
Theorem c01_invalid_frame_only_naks : forall st items,
  Forall (fun i => i = None) items ->
  apply_items st items = (st, map (fun _ => HCancelNak (rx_seq st)) items).
Proof. exact invalid_frames_only_nak. Qed.
