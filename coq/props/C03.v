(* C03 -- ASH frames on the wire follow the specified layout bit for bit.
   Statements only; proofs in proofs/AshCodec_proofs.v and proofs/Crc_proofs.v.
   [encode]/[parse]/[stuff]/[unstuff]/[write_frame] transliterate bellows/ash.py and are tied to
   it by the C03 correspondence; [crc16] (bitwise) and [lfsr] are written from the specification. *)
From Coq Require Import String NArith List Bool.
Import ListNotations.
Require Import BV.gen.GenAsh BV.model.AshCodec BV.proofs.AshCodec_proofs BV.proofs.Crc_proofs.
Open Scope N_scope.

(* the constants the code uses are the specified ones (regenerated from /repo on every run) *)
Theorem c03_constants :
  RESERVED = [("FLAG"%string, 0x7E); ("ESCAPE"%string, 0x7D); ("XON"%string, 0x11);
              ("XOFF"%string, 0x13); ("SUBSTITUTE"%string, 0x18); ("CANCEL"%string, 0x1A)]
  /\ FRAME_MASKS = [("DataFrame"%string, 0x80, 0x00); ("AckFrame"%string, 0xE0, 0x80);
                    ("NakFrame"%string, 0xE0, 0xA0); ("RstFrame"%string, 0xFF, 0xC0);
                    ("RStackFrame"%string, 0xFF, 0xC1); ("ErrorFrame"%string, 0xFF, 0xC2)]
  /\ PSEUDO_RANDOM_DATA_SEQUENCE = spec_random_sequence.
Proof. vm_compute. repeat split. Qed.

(* parsing is the exact inverse of encoding: every class, every field value, every reset code,
   every payload of 0..256 bytes (no other bound) *)
Theorem c03_parse_encode : forall f, wf_frame f = true -> parse (encode f) = Some f.
Proof. exact parse_encode. Qed.

Theorem c03_encode_injective : forall f g,
  wf_frame f = true -> wf_frame g = true -> encode f = encode g -> f = g.
Proof. exact encode_injective. Qed.

(* the control byte alone decides the class, as in the specification's table; the 61 other
   control bytes are rejected whatever follows *)
(* [spec_class] (the specification's table on the control byte) and [class_of] are defined in
   proofs/AshCodec_proofs.v *)
Theorem c03_classify : forall c rest f, c < 256 ->
  parse (c :: rest) = Some f -> spec_class c = Some (class_of f).
Proof. exact classify. Qed.

(* control fields are read from the specified bit positions *)
Theorem c03_fields : forall c rest f, c < 256 -> parse (c :: rest) = Some f ->
  match f with
  | Data frm re ack _ => frm = (c / 16) mod 8 /\ re = (c / 8) mod 2 /\ ack = c mod 8
  | Ack res nrdy ack | Nak res nrdy ack => res = (c / 16) mod 2 /\ nrdy = (c / 8) mod 2 /\ ack = c mod 8
  | _ => True
  end.
Proof. exact fields. Qed.

(* stuffing *)
Theorem c03_stuff_clean : forall d b, In b (stuff d) -> reserved b = true -> b = ESC.
Proof. exact stuff_clean. Qed.

Theorem c03_unstuff_stuff : forall d, unstuff (stuff d) = Some d.
Proof. exact unstuff_stuff. Qed.

Theorem c03_written_frame_clean : forall f b,
  In b (removelast (write_frame [] f)) -> reserved b = true -> b = ESC.
Proof. exact written_frame_clean. Qed.

(* randomisation is an involution on payloads of admissible length *)
Theorem c03_randomize_involutive : forall p q,
  Forall (fun b => b < 256) p -> randomize p = Some q -> randomize q = Some p.
Proof. exact randomize_involutive. Qed.

(* CRC: a frame (body followed by its CRC, up to 4095 bytes in all) whose unstuffed bytes are
   changed in one or two bit positions no longer passes the CRC check, hence is rejected *)
Theorem c03_crc_detects_1_2_bits : forall m e,
  Forall (fun b => b < 256) m -> Forall (fun b => b < 256) e ->
  length e = length m -> (length m <= 4095)%nat ->
  unwrap m <> None -> (1 <= weight e <= 2)%nat ->
  unwrap (xor_zip m e) = None.
Proof. exact crc_detects_1_2_bits. Qed.

Theorem c03_corrupted_frame_rejected : forall f e,
  wf_frame f = true -> Forall (fun b => b < 256) e ->
  length e = length (encode f) -> (1 <= weight e <= 2)%nat ->
  parse (xor_zip (encode f) e) = None.
Proof. exact corrupted_frame_rejected. Qed.

(* the seed and byte order named by the property: RST is C0 38 BC on the wire *)
Example c03_rst_bytes : encode Rst = [0xC0; 0x38; 0xBC] /\ crc16 [] = 0xFFFF.
Proof. vm_compute. split; reflexivity. Qed.

Example c03_example_roundtrip :
  parse (encode (Data 7 1 5 [0x7E; 0x7D; 0x11; 0x13; 0x18; 0x1A; 0x00; 0xFF])) =
    Some (Data 7 1 5 [0x7E; 0x7D; 0x11; 0x13; 0x18; 0x1A; 0x00; 0xFF]).
Proof. vm_compute. reflexivity. Qed.

(* ---- the tie to the source text -------------------------------------------------------------
   gen/GenAshFn.v is emitted on every run by harness/pysrc.py from the SOURCE TEXT (Python AST) of
   generate_random_sequence, _stuff_bytes, _unstuff_bytes, DataFrame._randomize, the to_bytes /
   from_bytes expressions of the frame classes and parse_frame's class order.  The hand-written
   model used by every theorem above is equal to what the source says now. *)
Require Import BV.gen.GenAshFn BV.proofs.AshSrc_proofs.

Theorem c03_source_random_sequence_is_lfsr : forall n,
  py_generate_random_sequence n = Some (lfsr n 0x42).
Proof. exact src_random_sequence. Qed.

Theorem c03_source_module_sequence :
  py_generate_random_sequence py_sequence_length = Some PSEUDO_RANDOM_DATA_SEQUENCE.
Proof. exact src_module_sequence. Qed.

Theorem c03_source_stuff : forall d, py_stuff_bytes d = Some (stuff d).
Proof. exact src_stuff. Qed.

Theorem c03_source_unstuff : forall d, py_unstuff_bytes d = unstuff d.
Proof. exact src_unstuff. Qed.

Theorem c03_source_randomize : forall d, py_randomize d = randomize d.
Proof. exact src_randomize. Qed.

Theorem c03_source_encode : forall f,
  encode f =
  match f with
  | Data frm re ack p => append_crc (py_DataFrame_header frm re ack ++ match py_randomize p with Some r => r | None => [] end)
  | Ack res nrdy ack => append_crc (py_AckFrame_header res nrdy ack)
  | Nak res nrdy ack => append_crc (py_NakFrame_header res nrdy ack)
  | Rst => append_crc py_RstFrame_header
  | Rstack v c => append_crc (py_RStackFrame_header v c)
  | Error v c => append_crc (py_ErrorFrame_header v c)
  end.
Proof. exact src_encode. Qed.

Theorem c03_source_parse_fields : forall d f, parse d = Some f ->
  match f with
  | Data frm re ack _ => [frm; re; ack] = py_DataFrame_fields (hd 0 d)
  | Ack res nrdy ack => [res; nrdy; ack] = py_AckFrame_fields (hd 0 d)
  | Nak res nrdy ack => [res; nrdy; ack] = py_NakFrame_fields (hd 0 d)
  | _ => True
  end.
Proof. exact src_parse_fields. Qed.

Theorem c03_source_parse_order : py_parse_order = map (fun x => fst (fst x)) FRAME_MASKS.
Proof. exact src_parse_order. Qed.
