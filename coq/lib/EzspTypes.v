(* Flat wire descriptors for EZSP schemas (see harness/ezsptypes.py) and the values they carry. *)
From Coq Require Import ZArith NArith List.
Import ListNotations.

Inductive prim :=
| PU (nbytes : nat)      (* unsigned little-endian integer; enums and bitmaps are these on the wire *)
| PS (nbytes : nat)      (* signed (two's complement) little-endian integer *)
| PLV (prefix : nat).    (* bytes preceded by their length, little-endian on [prefix] bytes *)

Inductive item :=
| IP (p : prim)
| ILV (pfx : nat) (elem : list prim)    (* element count on [pfx] bytes, then the elements *)
| IFixed (n : nat) (elem : list prim)   (* exactly n elements *)
| IRest (elem : list prim)              (* elements until the data ends *)
| IOpt (elem : list prim)               (* one optional trailing field: present iff data remains *)
| IReq0 (elem : list prim)              (* present iff the schema's first field is 0 *)
| IPad (when_len at_ n : nat).          (* deserialisation quirk: when exactly when_len bytes remain, n zero
                                           bytes are inserted at offset at_; carries no value *)

Definition schema := list item.

Inductive pval := VI (z : Z) | VB (l : list N).
Inductive ival := XP (v : pval) | XL (rows : list (list pval)) | XNone.
