(* Python's insertion-ordered dict over keys in N as an association list, with exactly the dict semantics the
   source translator (harness/pysrc.py, write_config) relies on:
     d[k] = v      [dict_set]  an existing key keeps its position and gets the new value, a new key is appended
     d.pop(k, _)   [dict_pop]  the binding is removed (nothing happens when absent)
     d[k], k in d  [dict_get], [dict_mem]
     d.values() / d.items() / iter(d)   [dict_values] / [dict_items] / [dict_keys], in insertion order
   pop followed by assignment therefore moves a key to the end.  Definitions only. *)
From Coq Require Import NArith List Bool.
Import ListNotations.
Open Scope N_scope.

Definition dict (A : Type) : Type := list (N * A).

Fixpoint dict_get {A : Type} (k : N) (d : dict A) : option A :=
  match d with
  | [] => None
  | (k', v) :: d' => if k' =? k then Some v else dict_get k d'
  end.

Definition dict_mem {A : Type} (k : N) (d : dict A) : bool :=
  match dict_get k d with Some _ => true | None => false end.

Fixpoint dict_set {A : Type} (k : N) (v : A) (d : dict A) : dict A :=
  match d with
  | [] => [(k, v)]
  | (k', v') :: d' => if k' =? k then (k', v) :: d' else (k', v') :: dict_set k v d'
  end.

Fixpoint dict_pop {A : Type} (k : N) (d : dict A) : dict A :=
  match d with
  | [] => []
  | (k', v') :: d' => if k' =? k then d' else (k', v') :: dict_pop k d'
  end.

Definition dict_keys {A : Type} (d : dict A) : list N := map fst d.
Definition dict_values {A : Type} (d : dict A) : list A := map snd d.
Definition dict_items {A : Type} (d : dict A) : list (N * A) := d.

(* set(d): only membership is ever asked of it *)
Definition set_mem (k : N) (s : list N) : bool := existsb (N.eqb k) s.
