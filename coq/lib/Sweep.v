(* Finite sweeps: a claim over every N below a bound, decided by vm_compute and lifted. *)
From Coq Require Import ZArith NArith List Bool Lia.
Import ListNotations.

Definition Nbelow (n : nat) : list N := map N.of_nat (seq 0 n).

Lemma In_Nbelow (n : nat) (c : N) : (c < N.of_nat n)%N -> In c (Nbelow n).
Proof.
  intros H. unfold Nbelow. apply in_map_iff. exists (N.to_nat c). split.
  - apply N2Nat.id.
  - apply in_seq. lia.
Qed.

Lemma forallb_Nbelow (n : nat) (p : N -> bool) :
  forallb p (Nbelow n) = true -> forall c, (c < N.of_nat n)%N -> p c = true.
Proof.
  intros H c Hc. rewrite forallb_forall in H. apply H. apply In_Nbelow. exact Hc.
Qed.

Lemma forallb_byte (p : N -> bool) :
  forallb p (Nbelow 256) = true -> forall c, (c < 256)%N -> p c = true.
Proof. intros H c Hc. apply (forallb_Nbelow 256 p H). exact Hc. Qed.
