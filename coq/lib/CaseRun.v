(* Correspondence helper: run a model function over cases and list the disagreeing indices. *)
From Coq Require Import ZArith List Bool.
Import ListNotations.

Fixpoint zlist_eqb (a b : list Z) : bool :=
  match a, b with
  | [], [] => true
  | x :: a', y :: b' => Z.eqb x y && zlist_eqb a' b'
  | _, _ => false
  end.

Fixpoint bad_from {A : Type} (run : A -> list Z) (cs : list (A * list Z)) (i : nat) : list nat :=
  match cs with
  | [] => []
  | (inp, expd) :: cs' =>
      if zlist_eqb (run inp) expd then bad_from run cs' (S i) else i :: bad_from run cs' (S i)
  end.

Definition bad_indices {A : Type} (run : A -> list Z) (cs : list (A * list Z)) : list nat :=
  bad_from run cs 0.

Definition zN (n : N) : Z := Z.of_N n.
Definition zb (b : bool) : Z := if b then 1%Z else 0%Z.
Definition znat (n : nat) : Z := Z.of_nat n.
