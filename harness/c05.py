"""C05: ASH sender -- real AshProtocol.send_data on the virtual-time loop with a scripted peer,
against the Coq host model (bit-exact float timeouts)."""
import asyncio
import itertools

import ashrun
import vloop
from c03 import to_impl_frame
from framework import PropertyCheck

REACTIONS = ["ack", "stale", "nak", "silence", "error", "rstack"]
MAX_ATT = 5
TAILS = ["error", "error2", "rstack", "tick", "submit", "ack"]
RACES = ["r_ack", "r_nak", "r_stale", "r_error", "r_dataack", "r_rstack"]


class Driver:
    """Runs one scenario against the real AshProtocol, recording the event list for the model."""

    def __init__(self):
        import bellows.ash as ash
        self.ash = ash
        self.loop = vloop.VLoop()
        asyncio.set_event_loop(self.loop)
        vloop.patch_monotonic(ash, self.loop)
        self.proto, self.rec = ashrun.new_protocol()
        self.rec.clock = self.loop.time
        self.tasks = {}
        self.events = []          # model events (python form)
        self.steps = []           # per event: list of log entries
        self.done = {}
        self.mark = 0

    def close(self):
        try:
            for _ in range(4):
                for t in asyncio.all_tasks(self.loop):
                    t.cancel()
                self.loop.settle()
        except Exception:
            pass
        self.loop.close()

    async def _caller(self, i, payload):
        try:
            await self.proto.send_data(payload)
            out = [0]
        except self.ash.NotAcked:
            out = [1]
        except self.ash.NcpFailure as e:
            out = [2, int(e.code)]
        except asyncio.TimeoutError:
            out = [3]
        except asyncio.CancelledError:
            out = [4]
            self.rec.log.append(("done", i, out))
            raise
        self.rec.log.append(("done", i, out))

    def _end_step(self, ev):
        self.events.append(ev)
        self.steps.append(self.rec.log[self.mark:])
        self.mark = len(self.rec.log)

    # ---- events ---------------------------------------------------------------------------------
    def submit(self, i, payload):
        self.tasks[i] = self.loop.create_task(self._caller(i, payload))
        self.loop.settle()
        self._end_step(("submit", i, payload))

    def frames(self, frs):
        for fr in frs:
            self.proto.frame_received(to_impl_frame(fr))
        self.loop.settle()
        self._end_step(("frames", list(frs)))

    def tick(self):
        self.loop.tick()
        self._end_step(("tick",))

    def race(self, frs):
        """the frames arrive in the very loop iteration in which the acknowledgement timeout expires: asyncio runs
        the I/O callback first, then the due timer, and only afterwards resumes the waiting coroutine"""
        lp = self.loop
        lp.settle()
        nd = lp.next_deadline()
        if nd is None:
            return self.frames(frs)
        lp._vt = max(lp._vt, nd)
        lp.call_soon(lambda: [self.proto.frame_received(to_impl_frame(fr)) for fr in frs])
        lp.call_soon(lp.stop)
        lp.run_forever()          # one iteration: [I/O callback, stop, the due timer]
        lp.settle()
        self._end_step(("race", list(frs)))

    def wait_to(self, t):
        self.loop.advance_to(t)
        self._end_step(("wait", t))

    def cancel(self, i):
        self.tasks[i].cancel()
        self.loop.settle()
        self._end_step(("cancel", i))

    # ---- observation helpers ----------------------------------------------------------------------
    def pending_frm(self):
        p = self.proto._pending_data_frames
        live = [k for k, f in p.items() if not f.done()]
        return live[0] if live else None

    def outstanding(self):
        return [i for i, t in self.tasks.items() if not t.done()]

    def final(self):
        p = self.proto
        return [p._tx_seq, p._rx_seq, 1 if p._ncp_state == self.ash.NcpState.FAILED else 0] + \
            vloop.fz(p._t_rx_ack) + vloop.fz(self.loop.time())


def run_script(nsends, script, waits=None, late=None, cancels=None, rng=None, warm=0, tail=None):
    """[warm] sends acknowledged at once (prior traffic: the frame counter then starts anywhere in 0..7, wrapping
    included); nsends sends queued; then one reaction per step while anything is outstanding."""
    d = Driver()
    try:
        for w in range(warm):
            d.submit(100 + w, bytes([0x70 + w, 0xEE]))
            frm = d.pending_frm()
            if frm is None:
                break
            d.frames([("ACK", 0, 0, (frm + 1) % 8)])
        for i in range(nsends):
            d.submit(i, bytes([0x10 + i, i]))
        k = 0
        nid = nsends
        guard = 0
        while d.outstanding() and guard < 80:
            guard += 1
            r = script[k] if k < len(script) else "ack"
            k += 1
            frm = d.pending_frm()
            if late and k in late:
                d.submit(nid, bytes([0x30 + nid]))
                nid += 1
            if cancels and k in cancels and d.outstanding():
                d.cancel(d.outstanding()[0])
                if not d.outstanding():
                    break
                frm = d.pending_frm()
            if waits and k in waits and frm is not None:
                nd = d.loop.next_deadline()
                if nd is not None and nd > d.loop.time():
                    d.wait_to(d.loop.time() + (nd - d.loop.time()) * waits[k])
            if frm is None:
                # nothing awaiting an acknowledgement (link failed): only a reset helps
                if r == "rstack":
                    d.frames([("RSTACK", 2, 11)])
                elif d.loop.next_deadline() is not None:
                    d.tick()
                else:
                    break
                continue
            if r == "ack":
                d.frames([("ACK", 0, 0, (frm + 1) % 8)])
            elif r == "dataack":
                d.frames([("DATA", d.proto._rx_seq, 0, (frm + 1) % 8, b"\x01")])
            elif r == "stale":
                d.frames([("ACK", 0, 0, frm)])
                d.tick()
            elif r.startswith("stale+"):      # an ACK whose ackNum is frm + k, k != 1: it does not cover the outstanding frame
                d.frames([("ACK", 0, 0, (frm + int(r[6:])) % 8)])
                d.tick()
            elif r.startswith("datastale+"):  # the same piggybacked on a DATA frame
                d.frames([("DATA", d.proto._rx_seq, 0, (frm + int(r[10:])) % 8, b"\x02")])
                d.tick()
            elif r == "nak":
                d.frames([("NAK", 0, 0, frm)])
            elif r.startswith("nak+"):        # a NAK whose ackNum is frm + k (a stale / foreign NAK): the repeat keeps its number
                d.frames([("NAK", 0, 0, (frm + int(r[4:])) % 8)])
            elif r == "silence":
                d.tick()
            elif r == "error":
                d.frames([("ERROR", 2, 0x52)])
            elif r.startswith("error:"):       # ERROR with a given code (0x00 = "unknown reason" is a code like any other)
                d.frames([("ERROR", 2, int(r[6:]))])
            elif r == "rstack":
                d.frames([("RSTACK", 2, 11)])
                d.tick()
            elif r == "acknak":           # one read carrying an ACK and then a NAK
                d.frames([("ACK", 0, 0, (frm + 1) % 8), ("NAK", 0, 0, frm)])
            elif r == "nakack":
                d.frames([("NAK", 0, 0, frm), ("ACK", 0, 0, (frm + 1) % 8)])
            elif r == "ackack":           # the acknowledgement twice in one read: the second meets a settled future
                d.frames([("ACK", 0, 0, (frm + 1) % 8), ("ACK", 0, 0, (frm + 1) % 8)])
            elif r == "ackdata":          # ACK, then a DATA frame repeating the acknowledgement number, in one read
                d.frames([("ACK", 0, 0, (frm + 1) % 8), ("DATA", d.proto._rx_seq, 0, (frm + 1) % 8, b"\x03")])
            elif r == "datadata":         # two DATA frames with the same acknowledgement number in one read
                rx = d.proto._rx_seq
                d.frames([("DATA", rx, 0, (frm + 1) % 8, b"\x04"), ("DATA", (rx + 1) % 8, 0, (frm + 1) % 8, b"\x05")])
            elif r == "errrst":           # ERROR immediately followed by RSTACK in one read
                d.frames([("ERROR", 2, 0x51), ("RSTACK", 2, 2)])
            elif r == "r_ack":            # ... racing the acknowledgement timeout (same loop iteration)
                d.race([("ACK", 0, 0, (frm + 1) % 8)])
            elif r == "r_nak":
                d.race([("NAK", 0, 0, frm)])
            elif r == "r_stale":
                d.race([("ACK", 0, 0, frm)])
            elif r == "r_error":
                d.race([("ERROR", 2, 0x52)])
            elif r == "r_dataack":
                d.race([("DATA", d.proto._rx_seq, 0, (frm + 1) % 8, b"\x01")])
            elif r == "r_rstack":
                d.race([("RSTACK", 2, 11)])
            else:
                raise ValueError(r)
        # after the workload: further peer frames / timers / sends, whatever state the link is in (a failed NCP
        # repeats its ERROR frame; each one is a failure the upper layer must hear about)
        for r in tail or []:
            if r == "error":
                d.frames([("ERROR", 2, 0x52)])
            elif r == "error2":
                d.frames([("ERROR", 2, 0x51), ("ERROR", 2, 0x52)])
            elif r == "rstack":
                d.frames([("RSTACK", 2, 11)])
            elif r == "tick":
                if d.loop.next_deadline() is not None:
                    d.tick()
            elif r == "submit":
                d.submit(nid, bytes([0x50 + (nid % 16), 0xAB]))
                nid += 1
            elif r == "ack":
                frm = d.pending_frm()
                if frm is not None:
                    d.frames([("ACK", 0, 0, (frm + 1) % 8)])
        return {"events": d.events, "steps": [[_j(e) for e in st] for st in d.steps], "final": d.final(),
                "left": len(d.outstanding())}
    except BaseException as e:  # noqa
        return {"crash": repr(e), "events": d.events, "steps": [[_j(x) for x in st] for st in d.steps], "final": []}
    finally:
        d.close()


def _j(e):
    return [x.hex() if isinstance(x, bytes) else (list(x) if isinstance(x, tuple) else x) for x in e]


def frames_coq(frs):
    fs = []
    for fr in frs:
        if fr[0] == "DATA":
            fs.append(f"Data {fr[1]} {fr[2]} {fr[3]} [{';'.join(str(b) for b in fr[4])}]")
        elif fr[0] in ("ACK", "NAK"):
            fs.append(f"{'Ack' if fr[0] == 'ACK' else 'Nak'} {fr[1]} {fr[2]} {fr[3]}")
        elif fr[0] == "RST":
            fs.append("Rst")
        else:
            fs.append(f"{'Rstack' if fr[0] == 'RSTACK' else 'Error'} {fr[1]} {fr[2]}")
    return "[" + "; ".join(fs) + "]"


def hevent_coq(e):
    """one harness event as a Gallina hevent (model/AshHost.v)"""
    if e[0] == "submit":
        return f"Submit {e[1]} [{';'.join(str(b) for b in e[2])}]"
    if e[0] == "frames":
        return f"Frames {frames_coq(e[1])}"
    if e[0] == "tick":
        return "Tick"
    if e[0] == "wait":
        return f"WaitTo {float(e[1]).hex()}%float"
    if e[0] == "cancel":
        return f"CancelCaller {e[1]}"
    raise ValueError(e)


def enc_steps(steps):
    z = []
    for st in steps:
        w, u, dn = [], [], []
        for e in st:
            if e[0] == "w":
                if e[1] == "data":
                    pl = bytes.fromhex(e[5])
                    w += [10, e[2], e[3], e[4], len(pl)] + list(pl) + vloop.fz(e[6])
                elif e[1] in ("ack", "nak", "cnak"):
                    w += [{"ack": 1, "nak": 2, "cnak": 3}[e[1]], e[2]]
                else:
                    w += [-50]
            elif e[0] == "up":
                pl = bytes.fromhex(e[1])
                u += [4, len(pl)] + list(pl)
            elif e[0] == "reset":
                u += [5, e[1]]
            elif e[0] == "done":
                dn.append((e[1], e[2]))
            else:
                u += [-51]
        z += w + [-1] + u + [-2]
        for i, o in sorted(dn):
            z += [11, i] + list(o)
        z += [-3]
    return z


class Check(PropertyCheck):
    pid = "C05"
    gen_files = ["GenAsh", "GenAshRxFn", "GenAshTxFn"]
    model_imports = ["gen.GenAsh", "model.AshCodec", "model.AshRx", "model.AshHost", "model.AshRace"]
    run_expr = "run_race_case"
    case_type = "(list revent)"
    case_preamble = "From Coq Require Import PrimFloat."
    shard = 150
    rule = ("per-attempt peer reactions {covering ACK, stale ACK then silence, NAK, silence, ERROR, RSTACK then silence} plus "
            "piggybacked ACK on DATA, ACK+NAK / NAK+ACK / ERROR+RSTACK in one read: all scripts up to a depth bound for one send "
            "and for two queued sends, each also after 1..9 acknowledged sends of prior traffic (every starting frame number, the wrap included), random scripts with 1-6 queued sends, late submissions, caller cancellations and partial "
            "waits before reactions; every kind of frame arriving in the very loop iteration in which the timeout expires (on every attempt, the last included); tails of repeated ERROR frames / RSTACK / timers / new sends after the workload in every order to a depth; virtual time, every timeout boundary hit exactly; non-trivial = at least one retransmission "
            "or failure; distinct by script")
    assumptions = ["frames and the timeout in one loop iteration: asyncio's order (I/O callback, then the due timer, then coroutines) is modelled in AshRace.v",
                   "transport open; RST frames from the peer excluded"]

    def build_cases(self, tier, rng):
        cases = []
        d1 = 5 if tier == "quick" else 6
        d2 = 3 if tier == "quick" else 5
        for n in range(0, d1 + 1):
            for s in itertools.product(REACTIONS, repeat=n):
                if tier == "quick" and n == d1 and rng.random() < 0.75:
                    continue
                cases.append({"n": 1, "script": list(s)})
        for n in range(0, d2 + 1):
            for s in itertools.product(REACTIONS, repeat=n):
                cases.append({"n": 2, "script": list(s)})
        # prior traffic: the first scripted send gets every frame number 0..7 (and the wrap 7 -> 0)
        d3 = 2 if tier == "quick" else 4
        for warm in range(1, 10):
            for n in range(0, d3 + 1):
                for s in itertools.product(REACTIONS, repeat=n):
                    cases.append({"n": 1, "script": list(s), "warm": warm})
                    if n <= d3 - 1:
                        cases.append({"n": 2, "script": list(s), "warm": warm})
        # frames racing the acknowledgement timeout (same loop iteration), every kind, on every attempt
        d5 = 3 if tier == "quick" else 5
        for n in range(1, d5 + 1):
            for s in itertools.product(["ack", "silence", "nak"] + RACES, repeat=n):
                if any(x in RACES for x in s):
                    if tier == "quick" and n == d5 and rng.random() < 0.5:
                        continue
                    cases.append({"n": 1 + (len(cases) % 2), "script": list(s)})
        for s in itertools.product(RACES, repeat=5):          # the whole budget spent on races: last-attempt boundary
            if tier != "quick" or rng.random() < 0.02:
                cases.append({"n": 2, "script": list(s)})
        for r in RACES:
            cases.append({"n": 2, "script": ["silence"] * 4 + [r]})
            cases.append({"n": 1, "script": ["nak"] * 4 + [r]})
        # a link that has been fast for a while (the adaptive timeout has decayed towards its minimum), then NAK / silence
        # mixes: the timeout used for every repeat stays within the protocol's bounds
        for warm in (10, 11, 12, 14, 20) if tier == "quick" else range(8, 31):
            for sc in (["nak", "silence", "ack"], ["nak", "nak", "silence", "silence", "ack"], ["silence", "nak", "silence", "ack"],
                       ["nak", "silence", "nak", "silence", "nak"]):
                cases.append({"n": 1, "script": sc, "warm": warm})
        for sc3 in (["nak"] * 4 + ["ack"], ["nak"] * 3 + ["ack"]):
            cases.append({"n": 3, "script": sc3 + sc3 + ["nak", "silence", "ack"]})
        # acknowledgement numbers that do not cover the outstanding frame, every distance, from every frame number
        for warm in range(0, 8):
            for k in (0, 2, 3, 4, 5, 6, 7):
                cases.append({"n": 1, "script": [f"stale+{k}", "ack"], "warm": warm})
                if tier != "quick" or (warm + k) % 3 == 0:
                    cases.append({"n": 2, "script": [f"datastale+{k}", f"stale+{(k + 3) % 8 or 2}", "ack"], "warm": warm})
        # NAK frames whose number is not the outstanding frame's, every distance, from every frame number, then a covering
        # ACK for the ORIGINAL number: the frame is repeated under its own number and completes
        for warm in range(0, 8):
            for k in (1, 2, 3, 4, 5, 6, 7):
                if tier == "quick" and (warm + k) % 2:
                    continue
                cases.append({"n": 2, "script": [f"nak+{k}", "ack", "ack"], "warm": warm})
                cases.append({"n": 1, "script": ["silence", f"nak+{k}", "silence", "ack"], "warm": warm})
        # every reset code an ERROR frame can carry, on the first and on a later attempt, with a send queued behind
        for code in (range(256) if tier != "quick" else [0, 1, 2, 3, 6, 9, 0x0B, 0x51, 0x52, 0x53, 0x80, 0xFF]):
            cases.append({"n": 2, "script": [f"error:{code}"]})
            cases.append({"n": 1, "script": ["silence", "nak", f"error:{code}"], "tail": ["submit", "rstack", "submit", "ack"]})
        for r in ("ackack", "ackdata", "datadata"):
            for n in (1, 2, 3):
                cases.append({"n": n, "script": [r] * n})
                cases.append({"n": n, "script": ["nak", r, "silence", r]})
        allr = REACTIONS + ["dataack", "acknak", "nakack", "errrst", "ack", "ack", "silence", "nak", "error:0", "error:255",
                            "ackack", "ackdata", "datadata"] + RACES
        for _ in range(300 if tier == "quick" else 5000):
            n = rng.randrange(1, 7)
            ln = rng.randrange(2, 16)
            c = {"n": n, "script": [rng.choice(allr) for _ in range(ln)]}
            if rng.random() < 0.5:
                c["waits"] = {rng.randrange(1, ln + 1): rng.choice([0.25, 0.5, 0.75, 0.9375]) for _ in range(rng.randrange(1, 4))}
            if rng.random() < 0.3:
                c["late"] = [rng.randrange(1, ln + 1)]
            if rng.random() < 0.25:
                c["cancels"] = [rng.randrange(1, ln + 1)]
            if rng.random() < 0.6:
                c["warm"] = rng.randrange(1, 12)
            if rng.random() < 0.4:
                c["tail"] = [rng.choice(TAILS) for _ in range(rng.randrange(1, 6))]
            cases.append(c)
        # what follows a failure: repeated ERROR frames, RSTACK, new sends, in every order up to a depth
        d4 = 3 if tier == "quick" else 4
        for first in (["error"], ["silence"] * 5, ["ack"]):
            for n in range(1, d4 + 1):
                for tl in itertools.product(TAILS, repeat=n):
                    cases.append({"n": 1, "script": list(first), "tail": list(tl)})
        return cases

    def run_impl(self, case):
        obs = run_script(case["n"], case["script"], case.get("waits"), case.get("late"), case.get("cancels"), warm=case.get("warm", 0), tail=case.get("tail"))
        case["_events"] = obs["events"]
        return {k: v for k, v in obs.items() if k != "events"}

    def describe(self, case):
        return {k: v for k, v in case.items() if not k.startswith("_")}

    def model_input(self, case):
        out = []
        for e in case["_events"]:
            if e[0] == "race":
                out.append(f"RRace {frames_coq(e[1])}")
            else:
                out.append(f"REv ({hevent_coq(e)})")
        return "[" + "; ".join(out) + "]"

    def obs_to_z(self, case, obs):
        if "crash" in obs:
            return [-99]
        return enc_steps(obs["steps"]) + obs["final"]

    def monitor(self, case, obs):
        """the property's clauses, checked on the implementation's own trace"""
        if "crash" in obs:
            return f"harness/implementation raised {obs['crash']}"
        import bellows.ash as ash
        sends = {}            # payload -> list of (frm, retx, time)
        order = []
        failed_since = None   # index of the failure event awaiting its RSTACK
        last_first_frm = None
        awaiting = None
        resets_expected = 0
        for ev, st in zip(case["_events"], obs["steps"]):
            # upward reports of this step against the frames that cause them: every RSTACK and every ERROR frame is
            # reported with ITS code, in order; at most one further report, the spent budget (0x51)
            frames_in = list(ev[1]) if ev[0] in ("frames", "race") else []
            want = [fr[2] for fr in frames_in if fr[0] in ("RSTACK", "ERROR")]
            got = [e[1] for e in st if e[0] == "reset"]
            extra = list(got)
            for c in want:
                if c in extra:
                    extra.remove(c)
                else:
                    return (f"the read carried {[(fr[0], fr[2]) for fr in frames_in if fr[0] in ('RSTACK', 'ERROR')]} but the upper layer "
                            f"was told {got}: the code {c:#x} of a frame was not reported")
            if extra not in ([], [0x51]):
                return f"upper layer told {got} in one step; the frames account for {want}, the spent budget for at most one 0x51"
            if [c for c in got if c in want or c == 0x51] != got or sorted(got) != sorted(want + extra):
                return f"upper layer told {got}, expected {want} (+ {extra})"
            nreset_fail = len(extra) + sum(1 for fr in frames_in if fr[0] == "ERROR")
            rst = any(fr[0] == "RSTACK" for fr in frames_in)
            err = any(fr[0] == "ERROR" for fr in frames_in)
            if rst:
                failed_since = None
                last_first_frm = None
            for e in st:
                if e[0] == "w" and e[1] == "data":
                    _, _, frm, retx, ack, pl, tm = e
                    if failed_since is not None and not rst:
                        return f"DATA frame written while the link is failed (no RSTACK since event {failed_since})"
                    lst = sends.setdefault(pl, [])
                    if not lst:
                        if retx:
                            return "first transmission carries the retransmit flag"
                        if last_first_frm is not None and frm != (last_first_frm + 1) % 8:
                            return f"frame numbers not consecutive: {last_first_frm} then {frm}"
                        last_first_frm = frm
                        order.append(pl)
                    else:
                        if frm != lst[0][0]:
                            return f"retransmission changed the frame number {lst[0][0]} -> {frm}"
                        if not retx:
                            return "retransmission without the retransmit flag"
                        gap = tm - lst[-1][2]
                        if ev[0] in ("tick", "race") and not (ash.T_RX_ACK_MIN - 1e-9 <= gap <= ash.T_RX_ACK_MAX + 1e-9):
                            return f"retransmission after {gap:.6f}s, outside [{ash.T_RX_ACK_MIN}, {ash.T_RX_ACK_MAX}]"
                        if ev[0] not in ("tick", "frames", "race"):
                            return f"retransmission caused by neither a NAK nor a timeout ({ev[0]})"
                    lst.append((frm, retx, tm))
                    if len(lst) > ash.ACK_TIMEOUTS:
                        return f"DATA frame transmitted {len(lst)} times (budget {ash.ACK_TIMEOUTS})"
            budget = any(len(v) >= ash.ACK_TIMEOUTS for v in sends.values())
            # the budget is spent: a send that ends unacknowledged (NAK or timeout on its last permitted attempt)
            # fails the link -- the upper layer is told with the reason in that very step
            for e in st:
                if e[0] == "done" and e[2] in ([1], [3]):
                    if not any(x[0] == "reset" and x[1] == 0x51 for x in st):
                        return (f"send {e[1]} gave up after the last permitted attempt ({'NAK' if e[2] == [1] else 'timeout'}) "
                                f"but the upper layer was not told that the link failed")
            if nreset_fail and not rst:
                failed_since = len(order)
            if nreset_fail and rst:
                # ERROR and RSTACK in one read: state cleared by the RSTACK that follows
                idx_e = max(i for i, fr in enumerate(ev[1]) if fr[0] == "ERROR") if err else -1
                idx_r = max(i for i, fr in enumerate(ev[1]) if fr[0] == "RSTACK")
                failed_since = None if idx_r > idx_e else len(order)
        # a send returns after an acknowledgement covering its frame: when the read carries nothing but such an
        # acknowledgement for the outstanding frame (link up, caller still waiting), the send returns in that step
        out_frm, link_failed, n_tx = None, False, 0
        for ev, st in zip(case["_events"], obs["steps"]):
            if ev[0] == "frames" and len(ev[1]) == 1 and ev[1][0][0] == "ACK" and out_frm is not None and not link_failed \
                    and ev[1][0][3] == (out_frm + 1) % 8:
                if not any(e[0] == "done" and e[2] == [0] for e in st):
                    return (f"an ACK with ackNum {ev[1][0][3]} covering the outstanding frame {out_frm} did not complete the send "
                            f"(the frame is treated as unacknowledged)")
            # "a repeat happening at once on a NAK": the read carries nothing but a NAK that does not acknowledge the
            # outstanding frame (link up, caller still waiting, attempts left): the repeat is written in that very step
            if ev[0] == "frames" and len(ev[1]) == 1 and ev[1][0][0] == "NAK" and out_frm is not None and not link_failed \
                    and ev[1][0][3] != (out_frm + 1) % 8 and 0 < n_tx < ash.ACK_TIMEOUTS:
                if not any(e[0] == "w" and e[1] == "data" and e[2] == out_frm and e[3] for e in st):
                    return (f"a NAK (ackNum {ev[1][0][3]}) arrived while frame {out_frm} was outstanding after {n_tx} of "
                            f"{ash.ACK_TIMEOUTS} attempts; the frame was not repeated at once")
            if ev[0] == "cancel":
                out_frm = None             # the waiting caller may be the one cancelled: no expectation for this frame
            for e in st:
                if e[0] == "w" and e[1] == "data":
                    n_tx = n_tx + 1 if e[3] else 1
                    if not e[3]:
                        out_frm = e[2]     # first transmission; a frame first sent before an RSTACK carries a stale number
                elif e[0] == "done":
                    out_frm = None
                elif e[0] == "reset":
                    fin = [fr for fr in (ev[1] if ev[0] in ("frames", "race") else []) if fr[0] in ("RSTACK", "ERROR")]
                    link_failed = not (fin and fin[-1][0] == "RSTACK")
                    out_frm = None
        # outcome OK only with a covering acknowledgement in the very event that completed it
        cur_frm = None
        for ev, st in zip(case["_events"], obs["steps"]):
            oks = [e for e in st if e[0] == "done" and e[2] == [0]]
            if oks:
                acks = []
                if ev[0] in ("frames", "race"):
                    acks = [fr[3] for fr in ev[1] if fr[0] in ("DATA", "ACK", "NAK")]
                if cur_frm is None or (cur_frm + 1) % 8 not in acks:
                    return f"send {oks[0][1]} returned normally without an acknowledgement covering frame {cur_frm} (event {ev[0]})"
            for e in st:
                if e[0] == "w" and e[1] == "data":
                    cur_frm = e[2]
        return None

    def nontrivial(self, case, obs):
        return any(e[0] == "w" and e[1] == "data" and e[3] for st in obs.get("steps", []) for e in st) or \
            any(e[0] == "reset" for st in obs.get("steps", []) for e in st)

    def signature(self, case, obs, why):
        return "tx:" + why[:40]

    def shrink(self, case, still_fails):
        c = dict(case)
        sc = list(c["script"])
        changed = True
        while changed and sc:
            changed = False
            for i in range(len(sc)):
                cand = dict(c, script=sc[:i] + sc[i + 1:])
                if still_fails(cand):
                    sc = cand["script"]
                    changed = True
                    break
        c["script"] = sc
        return c
