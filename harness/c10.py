"""C10: NCP failure / connection loss -- gateway-level correspondence with the Coq model, and full-stack
fault injection (real ASH + Gateway + EZSP, virtual time) judged by the property predicate."""
import asyncio

import cgw
import fullstack
from framework import PropertyCheck

KINDS = ["error", "rstack", "silent", "naksilent", "mutethencut", "lost", "eof"]
WORKLOADS = ["idle", "inflight", "queued", "reset"]
BOUND = 10 + 5 * 3.2 + 0.5          # command timeout + sum of link timeouts (+ slack for scheduling)


def run_full(workload, kind, position, when="before", ncp_v=8, close_instead=False, pre=None):
    """position: index of the wire event (host write or NCP frame delivery) at which the failure is injected;
    position None = dry run that only counts wire events"""
    s = fullstack.Stack(ncp_version=ncp_v)
    if pre is None:
        s.add_app_callback()
    st = {"n": 0, "injected_at": None, "writes_after_stop": 0}
    res = {}

    def inject():
        st["injected_at"] = s.loop.time()
        st["written_before"] = len(s.serial.written)
        if close_instead:
            s.ez.close()
            return
        if kind == "error":
            s.ncp.spontaneous("error", 0x52)
            s.line.flush()
        elif kind == "rstack":
            s.ncp.spontaneous("rstack", 0x02)
            s.line.flush()
        elif kind == "silent":
            s.line.cut = True
        elif kind == "mutethencut":
            # the NCP still acknowledges frames but no longer answers commands (a command then ends by its own time-out and
            # leaves its bookkeeping behind); a few seconds later the line goes dead altogether
            s.ncp.mute_ezsp = True
            s.loop.call_later(4.0, setattr, s.line, "cut", True)
        elif kind == "naksilent":
            # the NCP answers the next DATA frame with a NAK (it arrived damaged) and is never heard of again
            import ashref
            done = []

            def h2n(data):
                b0 = bytes(data).lstrip(b"\x1a")[:1]
                if not done and b0 and b0[0] < 0x80:
                    done.append(1)
                    s.loop.call_soon(s.line._deliver, ashref.wire(("NAK", 0, 0, (b0[0] >> 4) & 7)))
                    s.loop.call_soon(setattr, s.line, "cut", True)
                    return None
                return data
            s.line.fault_h2n = h2n
        elif kind == "lost":
            s.loop.call_soon(s.ash.connection_lost, ConnectionError("scripted loss"))
        elif kind == "eof":
            s.loop.call_soon(s.ash.eof_received)

    def count_event(fn):
        def wrapped(*a):
            me = st["n"]
            st["n"] += 1
            if position is not None and st["injected_at"] is None and me == position and when == "before" and st.get("armed"):
                inject()
            r = fn(*a)
            if position is not None and st["injected_at"] is None and me == position and when == "after" and st.get("armed"):
                inject()
            return r
        return wrapped

    s.line.host_wrote = count_event(s.line.host_wrote)
    s.line._deliver = count_event(s.line._deliver)

    async def cmd(key, coro_fn):
        t0 = s.loop.time()
        try:
            await coro_fn()
            res[key] = ("ok", s.loop.time())
        except asyncio.CancelledError:
            res[key] = ("cancelled", s.loop.time())
            raise
        except BaseException as e:  # noqa
            res[key] = ("raise:" + type(e).__name__, s.loop.time())

    async def main():
        await s.ez.startup_reset()
        if pre is not None:
            # a first failure while no application is attached yet (it is only logged), then the application
            # registers; the failure injected afterwards must be reported like any other
            for _ in range(pre[1]):
                s.ncp.spontaneous("error", 0x52) if pre[0] == "error" else s.ncp.spontaneous("rstack", 0x02)
                s.line.flush()
                await asyncio.sleep(0.5)
            if pre[0] == "exhaust":
                s.line.cut = True
                try:
                    await s.ez.nop()
                except BaseException:  # noqa
                    pass
                s.line.cut = False
            s.add_app_callback()
        st["n"] = 0
        st["armed"] = True
        tasks = []
        if workload in ("inflight", "queued"):
            tasks.append(s.spawn(cmd("c1", lambda: s.ez.getEui64())))
        if workload == "queued":
            tasks.append(s.spawn(cmd("c2", lambda: s.ez.getNodeId())))
            tasks.append(s.spawn(cmd("c3", lambda: s.ez.networkState())))
        if workload == "reset":
            tasks.append(s.spawn(cmd("r", lambda: s.ez.reset())))
        if workload == "idle":
            tasks.append(s.spawn(cmd("c1", lambda: s.ez.nop())))      # some traffic to hang positions on
        if position is not None and position >= 10_000:
            inject()                                                   # failure while completely idle
        await asyncio.sleep(0)
        for t in tasks:
            try:
                await t
            except BaseException:  # noqa
                pass
        if position is None:
            return
        if st["injected_at"] is None:
            inject()                                                   # workload finished first: fail now
        if kind in ("silent", "naksilent", "mutethencut") and not close_instead:
            # a silent NCP shows only when something is sent to it
            tasks.append(s.spawn(cmd("probe", lambda: s.ez.nop())))
            try:
                await tasks[-1]
            except BaseException:  # noqa
                pass
            if kind == "mutethencut":
                # the first probe was still acknowledged and ended by the command time-out; the next one meets the dead line
                tasks.append(s.spawn(cmd("probe2", lambda: s.ez.nop())))
                try:
                    await tasks[-1]
                except BaseException:  # noqa
                    pass
        # give the failure time to propagate, then try a new command
        await asyncio.sleep(30)
        wb = len(s.serial.written)
        t0 = s.loop.time()
        await cmd("after", lambda: s.ez.getEui64())
        res["after_time"] = s.loop.time() - t0
        res["after_writes"] = len(s.serial.written) - wb

    t = s.spawn(main())
    out = {}
    try:
        out["finished"] = s.run_until(t, limit=3000)
        if t.done() and not t.cancelled() and t.exception() is not None:
            out["crash"] = repr(t.exception())
    except BaseException as e:  # noqa
        out["crash"] = repr(e)
    out["events"] = st["n"]
    out["injected_at"] = st["injected_at"]
    out["res"] = {k: list(v) if isinstance(v, tuple) else v for k, v in res.items()}
    out["reset_requests"] = [r[0] for r in s.reset_requests]
    out["running"] = s.ez.is_ezsp_running
    s.close()
    return out


def judge_full(case, out):
    kind = case["kind"]
    if "crash" in out:
        return f"crashed: {out['crash']}"
    if not out["finished"]:
        return "the scenario did not terminate in virtual time (something hangs)"
    if case.get("close"):
        if out["reset_requests"]:
            return "a deliberate close produced a controller-reset request"
        return None
    ti = out["injected_at"]
    if ti is None:
        return None
    r = out["res"].get("r")
    if not out["reset_requests"] and kind in ("silent", "naksilent", "mutethencut") and r is not None and r[0].startswith("raise") and r[1] - ti <= 5 + 0.5:
        # an NCP that falls silent while a reset handshake is in progress: there is no DATA traffic to go
        # unacknowledged; the failure is reported to the caller of the reset, which raises within the reset
        # timeout, and EZSP stays stopped (see DESIGN.md, C10 reading)
        pass
    elif not out["reset_requests"]:
        return f"{kind} failure at wire event {case['pos']} ({case['when']}): the application received no controller-reset request"
    for k, v in out["res"].items():
        if k in ("after", "after_time", "after_writes"):
            continue
        outcome, tdone = v
        if tdone - ti > BOUND and k not in ("probe", "probe2"):
            return f"command {k} in progress at the failure ended {tdone - ti:.1f}s after it (bound {BOUND}s)"
    a = out["res"].get("after")
    if a is None or not a[0].startswith("raise"):
        return f"a command issued after the failure did not raise: {a}"
    if out["res"].get("after_time", 0) > 0 or out["res"].get("after_writes", 0) > 0:
        return "a command issued after the failure was not refused immediately / wrote to the port"
    return None


class Check(PropertyCheck):
    pid = "C10"
    gen_files = ["GenAsh", "GenProto", "GenCmd", "GenGatewayFn", "GenAshFn", "GenGatewayAsyncFn"]
    model_imports = ["gen.GenAsh", "model.Gateway"]
    run_expr = "run_gateway_case"
    case_type = "(list (N * list (N * N)))"
    shard = 400
    rule = ("(a) gateway-level histories (failure codes, losses, EOF, deliberate close, commands, resets; upward calls singly and back to "
            "back) compared with the Coq model; (b) full stack in virtual time: workloads {idle, command in flight, commands queued, reset in "
            "progress} x failure kinds {ERROR, unsolicited RSTACK, silent NCP, NCP that NAKs once and then falls silent, NCP that stops answering commands and then goes dead, connection_lost, EOF} injected before and after every wire "
            "event, plus deliberate close, plus the same failures after an earlier failure that hit before the application registered, judged by the property predicate; non-trivial = a failure is injected; distinct by scenario")
    assumptions = ["threaded mode (use_thread=True) is outside this check (C20)",
                   "simulated NCP and line (harness/fullstack.py)"]

    def build_cases(self, tier, rng):
        cases = []
        codes = [0x00, 0x01, 0x02, 0x06, 0x09, 0x51, 0x52, 0x53, 0x80, 0xFF, 11]
        for _ in range(700 if tier == "quick" else 7000):
            cases.append(("gw", cgw.gen_events(rng, codes)))
        # dry runs tell how many wire events each workload has
        for w in WORKLOADS:
            n = run_full(w, "error", None)["events"]
            positions = list(range(n + 1))
            if tier == "quick" and len(positions) > 8:
                positions = sorted(set(positions[:4] + positions[-3:] + rng.sample(positions, 3)))
            for kind in KINDS:
                for pos in positions:
                    for when in ("before", "after"):
                        cases.append(("full", {"workload": w, "kind": kind, "pos": pos, "when": when}))
                cases.append(("full", {"workload": w, "kind": kind, "pos": 10_000, "when": "before"}))
            cases.append(("full", {"workload": w, "kind": "error", "pos": 1, "when": "before", "close": True}))
        for pre in (["error", 1], ["error", 2], ["rstack", 1], ["exhaust", 0]):
            for kind in ("error", "rstack", "lost", "eof"):
                for w in ("idle", "inflight"):
                    cases.append(("full", {"workload": w, "kind": kind, "pos": 10_000, "when": "before", "pre": pre}))
        return cases

    def run_impl(self, case):
        k, c = case
        if k == "gw":
            return cgw.run_events(c)
        return run_full(c["workload"], c["kind"], c["pos"], c["when"], close_instead=c.get("close", False), pre=c.get("pre"))

    def describe(self, case):
        k, c = case
        if k == "gw":
            return ["gw", [list(e) if e[0] != "batch" else ["batch", [list(u) for u in e[1]]] for e in c]]
        return ["full", c]

    def model_input(self, case):
        k, c = case
        return cgw.model_events(c) if k == "gw" else None

    def obs_to_z(self, case, obs):
        if "crash" in obs:
            return [-99]
        return cgw.enc_steps(obs)

    def monitor(self, case, obs):
        k, c = case
        if k == "gw":
            return cgw.monitor_gateway(c, obs)
        return judge_full(c, obs)

    def nontrivial(self, case, obs):
        k, c = case
        return k == "full" or any(e[0] == "batch" for e in c)

    def signature(self, case, obs, why):
        return "failure:" + why[:60]
