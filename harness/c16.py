"""C16: real EZSP.write_config on a scripted command layer vs the Coq plan."""
from framework import PropertyCheck

CAPACITY = ["CONFIG_SOURCE_ROUTE_TABLE_SIZE", "CONFIG_SUPPORTED_NETWORKS", "CONFIG_MULTICAST_TABLE_SIZE",
            "CONFIG_TRUST_CENTER_ADDRESS_CACHE_SIZE", "CONFIG_ADDRESS_TABLE_SIZE", "CONFIG_KEY_TABLE_SIZE",
            "CONFIG_MAX_END_DEVICE_CHILDREN"]


class Check(PropertyCheck):
    pid = "C16"
    gen_files = ["GenConfig", "GenConfigFn"]
    model_imports = ["gen.GenConfig", "model.Config"]
    run_expr = "run_config_case"
    case_type = "(N * list (N * option N) * list (N * option N))"
    shard = 300
    rule = ("protocol versions 4..14 x current NCP values per setting (below / equal / above the default, unreadable) x override sets "
            "(new values for default and non-default settings, disabled settings, empty) x per-setting accept/reject answers (every rejection status of the family), also after an earlier call with other overrides on the same object; "
            "non-trivial = at least one override or one current value at/above a default; distinct by (version, overrides, current)")
    assumptions = ["override names are valid keys of the version's schema (others are rejected by voluptuous before write_config acts)"]

    def setup(self):
        import stack
        self.stack = stack
        self.loop = stack.new_loop()

    def teardown(self):
        self.loop.close()

    def build_cases(self, tier, rng):
        import bellows.config as bconf
        import bellows.ezsp as E
        import bellows.ezsp.config as cfg
        import bellows.types as t
        import voluptuous as vol
        cases = []
        per = 60 if tier == "quick" else 1500
        for v in sorted(E.EZSP._BY_VERSION):
            sch = E.EZSP._BY_VERSION[v].SCHEMAS[bconf.CONF_EZSP_CONFIG]
            keys = [(k.schema if isinstance(k, vol.Marker) else k) for k in sch.schema]
            defaults = {c.config_id.name: c for c in cfg.DEFAULT_CONFIG[v] if isinstance(c, cfg.RuntimeConfig)}
            nondef = [k for k in keys if k not in defaults]
            for i in range(per):
                user = {}
                r = rng.random()
                nover = 0 if r < 0.15 else rng.randrange(1, 5)
                for _ in range(nover):
                    k = rng.choice(keys if rng.random() < 0.5 else (nondef or keys))
                    if rng.random() < 0.3:
                        user[k] = None
                    else:
                        user[k] = self._valid_value(sch, k, rng)
                cur = {}
                for name, c in defaults.items():
                    m = rng.random()
                    if m < 0.15:
                        cur[name] = None
                    elif m < 0.4:
                        cur[name] = max(0, c.value - rng.randrange(1, 4))
                    elif m < 0.6:
                        cur[name] = c.value
                    else:
                        cur[name] = min(0xFFFF, c.value + rng.randrange(1, 300))
                # what the NCP reports for the capacity settings the PROPERTY names (the list above, not the library's table)
                for k in CAPACITY:
                    if k in keys and k not in cur:
                        cur[k] = rng.choice([None, 1, 12, 100, 250, 500, 0xFFFF])
                for k in user:
                    if k not in cur:
                        cur[k] = rng.choice([None, 0, 3, 12, 250])
                answers = {k: rng.choice([0, 0, 0, 1, 0x35]) for k in set(cur) | set(user)}
                cases.append({"v": v, "user": user, "current": cur, "answers": answers})
            # the write is a function of (version, what the NCP reports, THIS call's overrides): an earlier call on the same
            # EZSP object (the application's later reset writes the configuration again) with other overrides leaves nothing behind
            for _ in range(6 if tier == "quick" else 60):
                prior = {}
                for k in rng.sample(nondef or keys, min(3, len(nondef or keys))) + rng.sample(keys, 2):
                    prior[k] = self._valid_value(sch, k, rng)
                user = {}
                if rng.random() < 0.5:
                    k = rng.choice(keys)
                    user[k] = self._valid_value(sch, k, rng)
                cur = {name: min(0xFFFF, c.value + rng.randrange(0, 40)) for name, c in defaults.items()}
                for k in list(prior) + list(user) + [c for c in CAPACITY if c in keys]:
                    cur.setdefault(k, rng.choice([12, 100, 250, 500]))
                cases.append({"v": v, "user": user, "current": cur, "answers": {}, "prior": prior})
            # every rejection status (some could steer the library: out of memory, invalid id, ...): one setting rejected
            # with it while the NCP reports smaller values for all defaults -- every other default is still written
            sts = sorted({int(m) for m in t.EzspStatus} - {0})
            if tier == "quick":
                oom = int(t.EzspStatus.ERROR_OUT_OF_MEMORY)
                sts = sorted(set([1, 0x30, 0x35, oom, 0xFF]) | set(rng.sample(sts, 6)))
            # the NCP answers in the status family the version's table declares: from v14 on the unified status
            st_ty = E.EZSP._BY_VERSION[v].COMMANDS["setConfigurationValue"][2]["status"]
            if st_ty is not t.EzspStatus:
                sts = sorted({int(m) for m in st_ty} - {0})
                if tier == "quick":
                    sts = sorted(set([1, 2, 3, 4, 5, 0x0D, 0x17, 0x18, 0x21, 0x2F, 0xFF]) | set(rng.sample(sts, 6)))
            names = list(defaults)
            for code in sts:
                for victim in (names[0], names[len(names) // 2], names[-1]):
                    cases.append({"v": v, "user": {}, "current": {n: max(0, defaults[n].value - 1) for n in defaults},
                                  "answers": {victim: code}})
            # the pre-identified corner: nothing overridden, every table larger than any default
            cases.append({"v": v, "user": {}, "current": {n: 250 for n in defaults}, "answers": {}})
        return cases

    def _valid_value(self, sch, key, rng):
        for _ in range(50):
            val = rng.choice([0, 1, 2, 5, 8, 12, 16, 26, 32, 64, 100, 200, 255, 1000])
            try:
                sch({key: val})
                return val
            except Exception:
                continue
        return None

    def run_impl(self, case):
        import bellows.types as t
        ez = self.stack.make_ezsp(case["v"])
        writes = []
        cur, answers = case["current"], case["answers"]

        # statuses travel in the type the version's command table declares (EzspStatus before v14, the unified status from then on)
        st_set = ez._protocol.COMMANDS["setConfigurationValue"][2]["status"]

        async def handler(name, args, kwargs):
            if name == "getValue":
                return [t.EzspStatus.SUCCESS, b"\x00"]
            if name == "setValue":
                writes.append(["value", int(kwargs["valueId"]), bytes(kwargs["value"]).hex()])
                return [t.EzspStatus.SUCCESS]
            if name == "getConfigurationValue":
                cid = kwargs["configId"]
                val = cur.get(cid.name)
                if val is None:
                    return [t.EzspStatus.ERROR_INVALID_ID, 0]
                return [t.EzspStatus.SUCCESS, t.uint16_t(val)]
            if name == "setConfigurationValue":
                cid = kwargs["configId"]
                writes.append(["config", cid.name, int(cid), int(kwargs["value"])])
                return [st_set(answers.get(cid.name, 0))]
            raise AssertionError(name)

        self.stack.script_commands(ez, handler)
        if case.get("prior") is not None:
            try:
                self.loop.run_until_complete(ez.write_config(dict(case["prior"])))
            except BaseException as e:  # noqa
                return {"raised": "earlier call: " + repr(e), "writes": writes}
            del writes[:]
        try:
            self.loop.run_until_complete(ez.write_config(dict(case["user"])))
        except BaseException as e:  # noqa
            return {"raised": repr(e), "writes": writes}
        return {"writes": writes}

    def describe(self, case):
        return case

    def model_input(self, case):
        import bellows.types as t

        def cid(n):
            return int(t.EzspConfigId[n])

        def opt(x):
            return "None" if x is None else f"(Some {x})"
        user = "[" + "; ".join(f"({cid(k)}, {opt(v)})" for k, v in case["user"].items()) + "]"
        cur = "[" + "; ".join(f"({cid(k)}, {opt(v)})" for k, v in case["current"].items()) + "]"
        return f"({case['v']}, {user}, {cur})"

    def obs_to_z(self, case, obs):
        if "raised" in obs:
            return [-99]
        z = []
        for w in obs["writes"]:
            if w[0] == "value":
                raw = bytes.fromhex(w[2])
                z += [1, w[1], int.from_bytes(raw, "little"), len(raw)]
            else:
                z += [2, w[2], w[3]]
        return z

    def monitor(self, case, obs):
        import bellows.ezsp.config as cfg
        if "raised" in obs:
            return f"write_config raised {obs['raised']}"
        cw = [w for w in obs["writes"] if w[0] == "config"]
        names = [w[1] for w in cw]
        if len(set(names)) != len(names):
            return f"a setting is written more than once: {names}"
        user, cur = case["user"], case["current"]
        for w in cw:
            n, val = w[1], w[3]
            if n in user:
                if user[n] is None:
                    return f"{n} was disabled by the user but is written"
                if val != user[n]:
                    return f"user value {n}={user[n]} written as {val}"
            elif n in CAPACITY and cur.get(n) is not None and val <= cur[n]:
                return (f"capacity setting {n} is lowered/rewritten to {val} although the NCP reports {cur[n]} "
                        f"(not user-supplied, EZSP v{case['v']})")
        if case.get("prior") is not None:
            for w in cw:
                n = w[1]
                if n in case["prior"] and n not in user and n not in {c.config_id.name for c in cfg.DEFAULT_CONFIG[case["v"]] if isinstance(c, cfg.RuntimeConfig)}:
                    return (f"{n}={w[3]} was written although neither this call's overrides nor the defaults of EZSP v{case['v']} name it: "
                            f"it was an override of an EARLIER call on the same object")
        for n, v in user.items():
            if v is not None and n not in names:
                return f"user value {n}={v} not written"
        if "CONFIG_PACKET_BUFFER_COUNT" in names and names[-1] != "CONFIG_PACKET_BUFFER_COUNT":
            return f"CONFIG_PACKET_BUFFER_COUNT is not the last setting written (then: {names[names.index('CONFIG_PACKET_BUFFER_COUNT') + 1:]})"
        # a rejected setting must not stop the rest: every default that is not skippable is attempted
        defaults = [c for c in cfg.DEFAULT_CONFIG[case["v"]] if isinstance(c, cfg.RuntimeConfig)]
        for c in defaults:
            n = c.config_id.name
            if n in user:
                continue
            skippable = c.minimum and cur.get(n) is not None and cur[n] >= c.value
            if not skippable and n not in names:
                return f"default setting {n} was not written"
        return None

    def nontrivial(self, case, obs):
        return bool(case["user"]) or any(v is not None for v in case["current"].values())

    def signature(self, case, obs, why):
        import re
        return "config:" + re.sub(r"[0-9]+", "N", why)[:60]

    def shrink(self, case, still_fails):
        c = dict(case)
        for field in ("user", "current", "answers"):
            d = dict(c[field])
            for k in list(d):
                d2 = dict(d)
                del d2[k]
                cand = dict(c, **{field: d2})
                if still_fails(cand):
                    d = d2
                    c = cand
        return c
