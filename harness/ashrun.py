"""Drive the real bellows.ash.AshProtocol with a recording transport and upper layer."""
import ashref


class Recorder:
    """Upper layer (what Gateway would be) + transport; one ordered event log."""

    def __init__(self):
        self.log = []
        self.closing = False
        self.clock = None

    # transport
    def write(self, data):
        for ev in ashref.parse_written(bytes(data)):
            if ev[0] == "data" and self.clock is not None:
                ev = tuple(ev) + (self.clock(),)
            self.log.append(("w",) + tuple(ev))

    def is_closing(self):
        return self.closing

    def close(self):
        self.closing = True

    # upper layer
    def data_received(self, data):
        self.log.append(("up", bytes(data)))

    def reset_received(self, code):
        self.log.append(("reset", int(code)))

    def connection_made(self, proto):
        pass

    def connection_lost(self, exc):
        self.log.append(("lost", repr(exc)))

    def eof_received(self):
        self.log.append(("eof",))

    def error_received(self, code):
        self.log.append(("error", int(code)))


def new_protocol():
    import bellows.ash as ash
    rec = Recorder()
    p = ash.AshProtocol(rec)
    p.connection_made(rec)
    return p, rec


def rx_events(log):
    """canonical receive-side events: ('ack',n) ('nak',n) ('cnak',n) ('up',payload) ('reset',code)."""
    out = []
    for e in log:
        if e[0] == "w":
            if e[1] in ("ack", "nak", "cnak"):
                out.append((e[1], e[2]))
            else:
                out.append(("w-other",) + tuple(e[1:]))
        elif e[0] in ("up", "reset"):
            out.append(e)
        else:
            out.append(e)
    return out


def events_to_z(evs):
    z = []
    for e in evs:
        if e[0] == "ack":
            z += [1, e[1]]
        elif e[0] == "nak":
            z += [2, e[1]]
        elif e[0] == "cnak":
            z += [3, e[1]]
        elif e[0] == "up":
            z += [4, len(e[1])] + list(e[1])
        elif e[0] == "reset":
            z += [5, e[1]]
        else:
            z += [-50]
    return z
