"""Source translator: Python AST of small pure functions of bellows/ash.py -> Gallina (coq/gen/GenAshFn.v).

Unlike gen.py's table generators (which read *data* out of the imported modules), this one reads the *source
text* of the functions that carry the byte-level logic of the ASH codec and emits a Gallina function per
Python function.  The hand-written model (coq/model/AshCodec.v) is then proved equal to the emitted
functions (coq/proofs/AshSrc_proofs.v), so an edit of one of these functions either changes the emitted
term (and the equality proof is re-checked against it) or leaves the supported subset (and the translator
refuses, naming the construct).

Supported subset (anything else raises GenError):
  byte loops      locals initialised with bytearray() / True / False / int literal; one `for x in <param>` or
                  `for _ in range(<param>)`; body of assignments (also augmented), out.append(e),
                  out.extend([e, ...]), if/elif/else, raise, continue; an optional `if <cond>: raise` after
                  the loop; `return <local>`
  expressions     int literals, names, Reserved.X (value read from the live enum), ^ & | >> <<, == != on ints,
                  `in` / `not in` RESERVED_BYTES, not / and / or on booleans
  comprehension   `assert len(a) <= len(B)` ; `return bytes([x op y for x, y in zip(a, B)])`
  frame classes   to_bytes: self.append_crc(bytes([ctrl, field...]) [+ self._randomize(self.<field>)]);
                  from_bytes: control, data = cls._unwrap(data) ... return cls(field=<expr over control>, ...)
  parse_frame     the order of the class list
"""
from __future__ import annotations

import ast
import inspect
import textwrap

from gen import GenError


class Tr:
    """expression / statement translator; `types` maps a variable to 'N' | 'bool' | 'bytes'"""

    def __init__(self, where: str, consts: dict, types: dict):
        self.where = where
        self.consts = consts            # dotted name -> int
        self.types = dict(types)

    def refuse(self, node, why="unsupported construct"):
        src = ast.unparse(node) if isinstance(node, ast.AST) else str(node)
        raise GenError(self.where, f"{why}: `{src[:80]}`")

    # ---- expressions -----------------------------------------------------------------------------
    def ty(self, e) -> str:
        if isinstance(e, ast.Constant):
            if isinstance(e.value, bool):
                return "bool"
            if isinstance(e.value, int):
                return "N"
        if isinstance(e, ast.Name):
            if e.id in self.types:
                return self.types[e.id]
            self.refuse(e, "unknown name")
        if isinstance(e, ast.Attribute):
            return "N"
        if isinstance(e, ast.BinOp):
            return "N"
        if isinstance(e, (ast.Compare, ast.BoolOp)):
            return "bool"
        if isinstance(e, ast.UnaryOp) and isinstance(e.op, ast.Not):
            return "bool"
        self.refuse(e)

    def ex(self, e) -> str:
        if isinstance(e, ast.Constant):
            if isinstance(e.value, bool):
                return "true" if e.value else "false"
            if isinstance(e.value, int) and e.value >= 0:
                return str(e.value)
            self.refuse(e, "constant")
        if isinstance(e, ast.Name):
            if e.id in self.types:
                return e.id
            if e.id in self.consts:
                return str(self.consts[e.id])
            self.refuse(e, "unknown name")
        if isinstance(e, ast.Attribute):
            dotted = ast.unparse(e)
            if dotted in self.consts:
                return str(self.consts[dotted])
            self.refuse(e, "unknown attribute")
        if isinstance(e, ast.BinOp):
            ops = {ast.BitXor: "N.lxor", ast.BitAnd: "N.land", ast.BitOr: "N.lor", ast.RShift: "N.shiftr", ast.LShift: "N.shiftl"}
            if type(e.op) not in ops:
                self.refuse(e, "operator")
            if self.ty(e.left) != "N" or self.ty(e.right) != "N":
                self.refuse(e, "non-integer operand")
            return f"({ops[type(e.op)]} {self.ex(e.left)} {self.ex(e.right)})"
        if isinstance(e, ast.UnaryOp) and isinstance(e.op, ast.Not):
            return f"(negb {self.cond(e.operand)})"
        if isinstance(e, ast.BoolOp):
            op = "&&" if isinstance(e.op, ast.And) else "||"
            return "(" + f" {op} ".join(self.cond(v) for v in e.values) + ")"
        if isinstance(e, ast.Compare):
            if len(e.ops) != 1:
                self.refuse(e, "chained comparison")
            op, rhs = e.ops[0], e.comparators[0]
            if isinstance(op, (ast.In, ast.NotIn)):
                if not (isinstance(rhs, ast.Name) and rhs.id == "RESERVED_BYTES"):
                    self.refuse(e, "membership in something other than RESERVED_BYTES")
                t = f"(mem_N {self.ex(e.left)} RESERVED_BYTES)"
                return t if isinstance(op, ast.In) else f"(negb {t})"
            if isinstance(op, (ast.Eq, ast.NotEq)):
                if self.ty(e.left) != "N" or self.ty(rhs) != "N":
                    self.refuse(e, "comparison of non-integers")
                t = f"({self.ex(e.left)} =? {self.ex(rhs)})"
                return t if isinstance(op, ast.Eq) else f"(negb {t})"
            self.refuse(e, "comparison operator")
        self.refuse(e)

    def cond(self, e) -> str:
        if self.ty(e) == "bool":
            return self.ex(e)
        # Python truthiness of an int
        return f"(negb ({self.ex(e)} =? 0))"

    # ---- statements (continuation style; `rest` is duplicated into both branches of an if) -------
    def stmts(self, body: list, state: list, loopvar: str | None) -> str:
        if not body:
            return "Some (" + ", ".join(state) + ")"
        s, rest = body[0], body[1:]
        if isinstance(s, ast.Expr) and isinstance(s.value, ast.Constant) and isinstance(s.value.value, str):
            return self.stmts(rest, state, loopvar)
        if isinstance(s, ast.Expr) and isinstance(s.value, ast.Call) and ast.unparse(s.value.func).split(".")[0] in ("LOGGER", "_LOGGER"):
            return self.stmts(rest, state, loopvar)
        if isinstance(s, ast.Raise):
            return "None"
        if isinstance(s, ast.Continue):
            return "Some (" + ", ".join(state) + ")"
        if isinstance(s, ast.Pass):
            return self.stmts(rest, state, loopvar)
        if isinstance(s, (ast.Assign, ast.AugAssign)):
            if isinstance(s, ast.Assign):
                if len(s.targets) != 1 or not isinstance(s.targets[0], ast.Name):
                    self.refuse(s, "assignment target")
                name, val = s.targets[0].id, s.value
            else:
                if not isinstance(s.target, ast.Name):
                    self.refuse(s, "assignment target")
                name, val = s.target.id, ast.BinOp(left=ast.Name(id=s.target.id, ctx=ast.Load()), op=s.op, right=s.value)
            t = self.ty(val)
            if name in self.types and self.types[name] != t:
                self.refuse(s, "variable changes type")
            term = self.ex(val)
            saved = dict(self.types)
            self.types[name] = t
            out = f"let {name} := {term} in\n{self.stmts(rest, state, loopvar)}"
            self.types = saved if name not in saved else self.types
            return out
        if isinstance(s, ast.Expr) and isinstance(s.value, ast.Call) and isinstance(s.value.func, ast.Attribute) \
                and isinstance(s.value.func.value, ast.Name) and self.types.get(s.value.func.value.id) == "bytes":
            tgt, meth, args = s.value.func.value.id, s.value.func.attr, s.value.args
            if meth == "append" and len(args) == 1 and self.ty(args[0]) == "N":
                return f"let {tgt} := {tgt} ++ [{self.ex(args[0])}] in\n{self.stmts(rest, state, loopvar)}"
            if meth == "extend" and len(args) == 1 and isinstance(args[0], (ast.List, ast.Tuple)):
                items = "; ".join(self.ex(a) for a in args[0].elts)
                return f"let {tgt} := {tgt} ++ [{items}] in\n{self.stmts(rest, state, loopvar)}"
            self.refuse(s, "method call")
        if isinstance(s, ast.If):
            a = self.stmts(list(s.body) + rest, state, loopvar)
            b = self.stmts(list(s.orelse) + rest, state, loopvar)
            return f"if {self.cond(s.test)} then\n{textwrap.indent(a, '  ')}\nelse\n{textwrap.indent(b, '  ')}"
        self.refuse(s)


def _fn_ast(fn) -> ast.FunctionDef:
    fn = getattr(fn, "__func__", fn)
    src = textwrap.dedent(inspect.getsource(fn))
    tree = ast.parse(src)
    node = tree.body[0]
    if not isinstance(node, ast.FunctionDef):
        raise GenError(getattr(fn, "__qualname__", str(fn)), "not a plain function")
    return node


def byte_loop(fn, coq_name: str, consts: dict) -> str:
    """translate a byte-loop function; result type option (list N)"""
    node = _fn_ast(fn)
    where = f"{fn.__qualname__} (source)"
    params = [a.arg for a in node.args.args if a.arg not in ("self", "cls")]
    if len(params) != 1 or node.args.kwonlyargs or node.args.vararg or node.args.kwarg:
        raise GenError(where, "expected exactly one parameter")
    param = params[0]
    body = [s for s in node.body if not (isinstance(s, ast.Expr) and isinstance(s.value, ast.Constant))]
    tr = Tr(where, consts, {})
    inits = []       # (name, type, term)
    i = 0
    while i < len(body) and isinstance(body[i], ast.Assign):
        s = body[i]
        if len(s.targets) != 1 or not isinstance(s.targets[0], ast.Name):
            tr.refuse(s, "initialisation")
        nm, v = s.targets[0].id, s.value
        if isinstance(v, ast.Call) and isinstance(v.func, ast.Name) and v.func.id == "bytearray" and not v.args:
            inits.append((nm, "bytes", "[]"))
        elif isinstance(v, ast.Constant) and isinstance(v.value, bool):
            inits.append((nm, "bool", "true" if v.value else "false"))
        elif isinstance(v, ast.Constant) and isinstance(v.value, int) and v.value >= 0:
            inits.append((nm, "N", str(v.value)))
        else:
            tr.refuse(s, "initialisation")
        i += 1
    if i >= len(body) or not isinstance(body[i], ast.For):
        raise GenError(where, "expected a for loop after the initialisations")
    loop = body[i]
    if loop.orelse or not isinstance(loop.target, ast.Name):
        tr.refuse(loop, "loop form")
    state = [n for n, _, _ in inits]
    for n, t, _ in inits:
        tr.types[n] = t
    over_range = False
    if isinstance(loop.iter, ast.Name) and loop.iter.id == param:
        tr.types[loop.target.id] = "N"
    elif isinstance(loop.iter, ast.Call) and isinstance(loop.iter.func, ast.Name) and loop.iter.func.id == "range" \
            and len(loop.iter.args) == 1 and isinstance(loop.iter.args[0], ast.Name) and loop.iter.args[0].id == param:
        over_range = True
    else:
        tr.refuse(loop.iter, "loop iterable")
    step_body = tr.stmts(list(loop.body), state, loop.target.id)
    # after the loop
    post = body[i + 1:]
    post_checks = []
    while post and isinstance(post[0], ast.If):
        s = post[0]
        if s.orelse or len(s.body) != 1 or not isinstance(s.body[0], ast.Raise):
            tr.refuse(s, "statement after the loop")
        post_checks.append(tr.cond(s.test))
        post = post[1:]
    if len(post) != 1 or not isinstance(post[0], ast.Return) or not isinstance(post[0].value, ast.Name) \
            or tr.types.get(post[0].value.id) != "bytes":
        raise GenError(where, "expected `return <bytearray local>` at the end")
    ret = post[0].value.id
    coqty = {"bytes": "list N", "N": "N", "bool": "bool"}
    sty = " * ".join(coqty[t] for _, t, _ in inits)
    pat = ", ".join(state)
    init = ", ".join(t for _, _, t in inits)
    fin = f"Some {ret}"
    for c in reversed(post_checks):
        fin = f"if {c} then None else {fin}"
    if over_range:
        step = (f"Definition {coq_name}_step (s : option ({sty})) : option ({sty}) :=\n"
                f"  match s with None => None | Some ({pat}) =>\n{textwrap.indent(step_body, '    ')}\n  end.\n")
        run = (f"Definition {coq_name} ({param} : nat) : option (list N) :=\n"
               f"  match Nat.iter {param} {coq_name}_step (Some ({init})) with\n"
               f"  | None => None\n  | Some ({pat}) => {fin}\n  end.\n")
    else:
        step = (f"Definition {coq_name}_step (s : option ({sty})) ({loop.target.id} : N) : option ({sty}) :=\n"
                f"  match s with None => None | Some ({pat}) =>\n{textwrap.indent(step_body, '    ')}\n  end.\n")
        run = (f"Definition {coq_name} ({param} : list N) : option (list N) :=\n"
               f"  match fold_left {coq_name}_step {param} (Some ({init})) with\n"
               f"  | None => None\n  | Some ({pat}) => {fin}\n  end.\n")
    return f"(* from the source of {fn.__qualname__} *)\n{step}{run}\n"


def zip_comprehension(fn, coq_name: str, consts: dict, seq_name: str) -> str:
    """assert len(a) <= len(SEQ); return bytes([x op y for x, y in zip(a, SEQ)])"""
    node = _fn_ast(fn)
    where = f"{fn.__qualname__} (source)"
    tr = Tr(where, consts, {})
    params = [a.arg for a in node.args.args if a.arg not in ("self", "cls")]
    if len(params) != 1:
        raise GenError(where, "expected exactly one parameter")
    p = params[0]
    body = [s for s in node.body if not (isinstance(s, ast.Expr) and isinstance(s.value, ast.Constant))]
    if len(body) != 2 or not isinstance(body[0], ast.Assert) or not isinstance(body[1], ast.Return):
        raise GenError(where, "expected `assert ...; return ...`")
    if ast.unparse(body[0].test) != f"len({p}) <= len({seq_name})":
        tr.refuse(body[0], "assertion")
    r = body[1].value
    ok = (isinstance(r, ast.Call) and isinstance(r.func, ast.Name) and r.func.id == "bytes" and len(r.args) == 1
          and isinstance(r.args[0], ast.ListComp) and len(r.args[0].generators) == 1)
    if not ok:
        tr.refuse(body[1], "return form")
    comp = r.args[0]
    g = comp.generators[0]
    if g.ifs or g.is_async or ast.unparse(g.iter) != f"zip({p}, {seq_name})" or not isinstance(g.target, ast.Tuple) \
            or len(g.target.elts) != 2 or not all(isinstance(x, ast.Name) for x in g.target.elts):
        tr.refuse(comp, "comprehension form")
    a, b = (x.id for x in g.target.elts)
    tr.types[a] = tr.types[b] = "N"
    elt = tr.ex(comp.elt)
    return (f"(* from the source of {fn.__qualname__} *)\n"
            f"Fixpoint {coq_name}_zip (l1 l2 : list N) : list N :=\n"
            f"  match l1, l2 with\n  | {a} :: l1', {b} :: l2' => {elt} :: {coq_name}_zip l1' l2'\n  | _, _ => []\n  end.\n"
            f"Definition {coq_name} ({p} : list N) : option (list N) :=\n"
            f"  if (List.length {p} <=? List.length {seq_name})%nat then Some ({coq_name}_zip {p} {seq_name}) else None.\n\n")


def frame_class(cls, consts: dict) -> tuple[str, dict]:
    """control-byte / header expressions of to_bytes and the field extraction of from_bytes"""
    import dataclasses
    name = cls.__name__
    fields = [f.name for f in dataclasses.fields(cls)]
    out = []
    info = {"fields": fields}
    # ---- to_bytes
    node = _fn_ast(cls.to_bytes)
    where = f"{cls.to_bytes.__qualname__} (source)"
    tr = Tr(where, dict(consts, **{"self.MASK_VALUE": int(cls.MASK_VALUE)}), {})
    body = [s for s in node.body if not (isinstance(s, ast.Expr) and isinstance(s.value, ast.Constant))]
    if len(body) != 1 or not isinstance(body[0], ast.Return):
        raise GenError(where, "expected a single return")
    r = body[0].value
    if not (isinstance(r, ast.Call) and ast.unparse(r.func) == "self.append_crc" and len(r.args) == 1 and not r.keywords):
        tr.refuse(r, "expected self.append_crc(...)")
    arg = r.args[0]
    payload_field = None
    if isinstance(arg, ast.BinOp) and isinstance(arg.op, ast.Add):
        rhs = arg.right
        if not (isinstance(rhs, ast.Call) and ast.unparse(rhs.func) == "self._randomize" and len(rhs.args) == 1
                and isinstance(rhs.args[0], ast.Attribute) and ast.unparse(rhs.args[0].value) == "self"):
            tr.refuse(rhs, "expected self._randomize(self.<field>)")
        payload_field = rhs.args[0].attr
        arg = arg.left
    if not (isinstance(arg, ast.Call) and isinstance(arg.func, ast.Name) and arg.func.id == "bytes" and len(arg.args) == 1
            and isinstance(arg.args[0], ast.List)):
        tr.refuse(arg, "expected bytes([...])")
    used = []

    class SelfFields(ast.NodeTransformer):
        def visit_Attribute(self, n):
            if isinstance(n.value, ast.Name) and n.value.id == "self" and n.attr in fields:
                if n.attr not in used:
                    used.append(n.attr)
                return ast.copy_location(ast.Name(id=n.attr, ctx=ast.Load()), n)
            return n
    elts = [SelfFields().visit(e) for e in arg.args[0].elts]
    for f in fields:
        tr.types[f] = "N"
    header = "[" + "; ".join(tr.ex(e) for e in elts) + "]"
    hdr_fields = [f for f in fields if f != payload_field]
    for f in used:
        if f == payload_field:
            raise GenError(where, "payload field used in the header")
    args = " ".join(f"({f} : N)" for f in hdr_fields)
    out.append(f"(* from the source of {cls.to_bytes.__qualname__}: bytes before the CRC"
               f"{' (followed by the randomised ' + payload_field + ')' if payload_field else ''} *)\n"
               f"Definition py_{name}_header {args} : list N := {header}.\n")
    info["payload"] = payload_field
    info["hdr_fields"] = hdr_fields
    # ---- from_bytes
    fb = cls.from_bytes
    node = _fn_ast(fb)
    where = f"{fb.__func__.__qualname__} (source)"
    tr = Tr(where, consts, {"control": "N"})
    body = [s for s in node.body if not (isinstance(s, ast.Expr) and isinstance(s.value, ast.Constant))]
    if not body or _dump(ast.unparse(body[0])) != _dump("control, data = cls._unwrap(data)"):
        raise GenError(where, f"expected `control, data = cls._unwrap(data)` first, got `{ast.unparse(body[0]) if body else ''}`")
    info["from_bytes_src"] = "\n".join(ast.unparse(s) for s in body)
    ret = body[-1]
    if isinstance(ret, ast.Return) and isinstance(ret.value, ast.Call) and ast.unparse(ret.value.func) == "cls" \
            and len(body) == 2 and ret.value.keywords and not ret.value.args:
        ctl = []
        for kw in ret.value.keywords:
            if kw.arg == payload_field:
                if ast.unparse(kw.value) != "cls._randomize(data)":
                    tr.refuse(kw.value, "payload extraction")
                continue
            ctl.append((kw.arg, tr.ex(kw.value)))
        if [k for k, _ in ctl] != hdr_fields:
            raise GenError(where, f"fields {[k for k, _ in ctl]} differ from the dataclass fields {hdr_fields}")
        out.append(f"(* from the source of {fb.__func__.__qualname__}: fields taken from the control byte *)\n"
                   f"Definition py_{name}_fields (control : N) : list N := [" + "; ".join(t for _, t in ctl) + "].\n")
        info["control_only"] = True
    else:
        info["control_only"] = False
    return "".join(out) + "\n", info


RSTACK_FROM_BYTES = """(control, data) = cls._unwrap(data)
if len(data) != 2:
    raise ParsingError(f'Invalid data length for RSTACK frame: {data!r}')
version = data[0]
if version != 2:
    raise ParsingError(f'Invalid version for RSTACK frame: {data!r}')
reset_code = t.NcpResetCode(data[1])
return cls(version=version, reset_code=reset_code)"""
RST_FROM_BYTES = """(control, data) = cls._unwrap(data)
if data:
    raise ParsingError(f'Invalid data for RST frame: {data!r}')
return cls()"""
UNWRAP_SRC = """if len(data) < 3:
    raise ParsingError(f'Frame is too short: {data!r}')
computed_crc = binascii.crc_hqx(data[:-2], 65535).to_bytes(2, 'big')
if computed_crc != data[-2:]:
    raise ParsingError(f'Invalid CRC bytes in frame {data!r}: expected {computed_crc.hex()}, got {data[-2:].hex()}')
return (data[0], data[1:-2])"""
APPEND_CRC_SRC = "return data + binascii.crc_hqx(data, 65535).to_bytes(2, 'big')"
PARSE_FRAME_SRC = """control_byte = data[0]
for frame in [{classes}]:
    if control_byte & frame.MASK == frame.MASK_VALUE:
        return frame.from_bytes(data)
else:
    raise ParsingError(f'Could not determine frame type: {{data!r}}')"""


class _StripLogs(ast.NodeTransformer):
    """log calls and docstrings carry no behaviour the models speak of: a pinned comparison ignores them"""

    def _clean(self, body):
        out = []
        for s in body:
            if isinstance(s, ast.Expr) and isinstance(s.value, ast.Constant) and isinstance(s.value.value, str):
                continue
            if isinstance(s, ast.Expr) and isinstance(s.value, ast.Call) and ast.unparse(s.value.func).split(".")[0] in ("LOGGER", "_LOGGER"):
                continue
            out.append(s)
        return out or [ast.Pass()]

    def generic_visit(self, node):
        super().generic_visit(node)
        for f in ("body", "orelse", "finalbody"):
            v = getattr(node, f, None)
            if isinstance(v, list) and v and isinstance(v[0], ast.stmt):
                setattr(node, f, self._clean(v) if f == "body" else [x for x in self._clean(v) if not isinstance(x, ast.Pass)] )
        return node


def _dump(src: str) -> str:
    tree = ast.parse(textwrap.dedent(src))
    return ast.dump(_StripLogs().visit(tree))


def _norm_body(fn) -> str:
    node = _fn_ast(fn)
    body = [s for s in node.body if not (isinstance(s, ast.Expr) and isinstance(s.value, ast.Constant))]
    return "\n".join(ast.unparse(s) for s in body)


def gen_ash_fn() -> str:
    import bellows.ash as ash

    consts = {f"Reserved.{m.name}": int(m) for m in ash.Reserved}
    out = ["(* GENERATED by harness/pysrc.py from the SOURCE TEXT of bellows/ash.py in /repo's working tree -- do not edit *)\n"
           "From Coq Require Import NArith Arith List Bool String.\nImport ListNotations.\nRequire Import BV.gen.GenAsh.\nOpen Scope N_scope.\n\n"
           "Definition RESERVED_BYTES : list N := map snd RESERVED.\n"
           "Definition mem_N (x : N) (l : list N) : bool := existsb (N.eqb x) l.\n\n"]
    out.append(byte_loop(ash.generate_random_sequence, "py_generate_random_sequence", consts))
    out.append(byte_loop(ash.AshProtocol._stuff_bytes, "py_stuff_bytes", consts))
    out.append(byte_loop(ash.AshProtocol._unstuff_bytes, "py_unstuff_bytes", consts))
    out.append(zip_comprehension(ash.DataFrame._randomize, "py_randomize", consts, "PSEUDO_RANDOM_DATA_SEQUENCE"))
    # how the module-level sequence is produced
    src = inspect.getsource(ash)
    if "\nPSEUDO_RANDOM_DATA_SEQUENCE = generate_random_sequence(256)\n" not in src:
        raise GenError("PSEUDO_RANDOM_DATA_SEQUENCE", "is no longer `generate_random_sequence(256)`")
    out.append("Definition py_sequence_length : nat := 256.\n\n")
    classes = [ash.DataFrame, ash.AckFrame, ash.NakFrame, ash.RstFrame, ash.RStackFrame, ash.ErrorFrame]
    infos = {}
    for cls in classes:
        txt, info = frame_class(cls, consts)
        infos[cls.__name__] = info
        out.append(txt)
    # the parts whose shape the hand model mirrors directly: pinned by their normalised source
    if ash.ErrorFrame.to_bytes is not ash.RStackFrame.to_bytes or \
            ash.ErrorFrame.from_bytes.__func__ is not ash.RStackFrame.from_bytes.__func__:
        raise GenError("ErrorFrame", "no longer shares RStackFrame's to_bytes / from_bytes")
    pinned = [
        ("RStackFrame.from_bytes", infos["RStackFrame"]["from_bytes_src"], RSTACK_FROM_BYTES),
        ("RstFrame.from_bytes", infos["RstFrame"]["from_bytes_src"], RST_FROM_BYTES),
        ("AshFrame._unwrap", _norm_body(ash.AshFrame._unwrap), UNWRAP_SRC),
        ("AshFrame.append_crc", _norm_body(ash.AshFrame.append_crc), APPEND_CRC_SRC),
    ]
    order = ["DataFrame", "AckFrame", "NakFrame", "RstFrame", "RStackFrame", "ErrorFrame"]
    pf = _norm_body(ash.parse_frame)
    want = None
    tree = _fn_ast(ash.parse_frame)
    for n in ast.walk(tree):
        if isinstance(n, ast.For) and isinstance(n.iter, ast.List):
            order = [ast.unparse(e) for e in n.iter.elts]
            want = PARSE_FRAME_SRC.format(classes=", ".join(order))
    if want is None:
        raise GenError("parse_frame", "class list not found")
    pinned.append(("parse_frame", pf, want))
    for nm, got, exp in pinned:
        if _dump(got) != _dump(exp):
            raise GenError(nm, "source differs from the form the model mirrors:\n" + got)
    out.append("(* parse_frame: the order in which the frame classes are tried *)\n"
               "Definition py_parse_order : list string := [" + "; ".join(f'"{c}"%string' for c in order) + "].\n")
    return "".join(out)


# ==================================================================================================
# EZSP frame headers (EZSPv4 / v5 / v8 ._ezsp_frame_tx / _ezsp_frame_rx)
# ==================================================================================================
def _header_tx(cls, tag: str) -> str:
    fn = cls.__dict__.get("_ezsp_frame_tx")
    if fn is None:
        raise GenError(f"{cls.__name__}._ezsp_frame_tx", "not defined by this class")
    node = _fn_ast(fn)
    where = f"{cls.__name__}._ezsp_frame_tx (source)"
    body = [s for s in node.body if not (isinstance(s, ast.Expr) and isinstance(s.value, ast.Constant))]
    idvars, lists = set(), {}
    tr = Tr(where, {}, {"seq": "N", "id": "N"})

    def elem(e):
        if ast.unparse(e) == "self._seq":
            return "seq"
        if isinstance(e, ast.BinOp) and isinstance(e.op, ast.BitAnd) and ast.unparse(e.left) == "self._seq" \
                and isinstance(e.right, ast.Constant) and isinstance(e.right.value, int):
            return f"(N.land seq {e.right.value})"
        if isinstance(e, ast.Constant) and isinstance(e.value, int) and 0 <= e.value < 256:
            return str(e.value)
        if isinstance(e, ast.Name) and e.id in idvars:
            return "id"
        if isinstance(e, ast.Subscript) and isinstance(e.value, ast.Name) and e.value.id in lists.get("__cmd", ()) \
                and isinstance(e.slice, ast.Constant) and e.slice.value == 0:
            return "id"
        tr.refuse(e, "header element")

    def expr(e):
        if isinstance(e, ast.Call) and isinstance(e.func, ast.Name) and e.func.id == "bytes" and len(e.args) == 1:
            a = e.args[0]
            if isinstance(a, ast.List):
                return "[" + "; ".join(elem(x) for x in a.elts) + "]"
            if isinstance(a, ast.Name) and a.id in lists:
                return lists[a.id]
            tr.refuse(e, "bytes(...) argument")
        if isinstance(e, ast.BinOp) and isinstance(e.op, ast.Add):
            return f"({expr(e.left)} ++ {expr(e.right)})"
        if isinstance(e, ast.Call) and ast.unparse(e.func) == "t.uint16_t(cmd_id).serialize" and "cmd_id" in idvars and not e.args:
            return "(le_bytes 2 id)"        # zigpy uint16_t: two bytes, little endian (lib/EzspTypes.v)
        tr.refuse(e, "header expression")

    for s in body[:-1]:
        src = ast.unparse(s)
        if src == "cmd_id = self.COMMANDS[name][0]":
            idvars.add("cmd_id")
        elif src == "c = self.COMMANDS[name]":
            lists.setdefault("__cmd", set()).add("c")
        elif isinstance(s, ast.Assign) and len(s.targets) == 1 and isinstance(s.targets[0], ast.Name) and isinstance(s.value, ast.List):
            lists[s.targets[0].id] = "[" + "; ".join(elem(x) for x in s.value.elts) + "]"
        else:
            tr.refuse(s, "statement")
    if not isinstance(body[-1], ast.Return):
        tr.refuse(body[-1], "expected return")
    return (f"(* from the source of {cls.__name__}._ezsp_frame_tx *)\n"
            f"Definition py_{tag}_header_tx (seq id : N) : list N := {expr(body[-1].value)}.\n")


def _header_rx(cls, tag: str) -> str:
    fn = cls.__dict__.get("_ezsp_frame_rx")
    if fn is None:
        raise GenError(f"{cls.__name__}._ezsp_frame_rx", "not defined by this class")
    node = _fn_ast(fn)
    where = f"{cls.__name__}._ezsp_frame_rx (source)"
    tr = Tr(where, {}, {})
    body = [s for s in node.body if not (isinstance(s, ast.Expr) and isinstance(s.value, ast.Constant))]

    def idx(e, var="data"):
        """data[k] -> k ; data[k:] -> ('from', k)"""
        if isinstance(e, ast.Subscript) and isinstance(e.value, ast.Name) and e.value.id == var:
            sl = e.slice
            if isinstance(sl, ast.Constant) and isinstance(sl.value, int) and sl.value >= 0:
                return sl.value
            if isinstance(sl, ast.Slice) and sl.upper is None and sl.step is None and isinstance(sl.lower, ast.Constant) \
                    and isinstance(sl.lower.value, int) and sl.lower.value >= 0:
                return ("from", sl.lower.value)
        tr.refuse(e, "subscript form")

    if len(body) == 1 and isinstance(body[0], ast.Return) and isinstance(body[0].value, ast.Tuple) and len(body[0].value.elts) == 3:
        a, b, c = (idx(e) for e in body[0].value.elts)
        if not (isinstance(a, int) and isinstance(b, int) and isinstance(c, tuple)):
            tr.refuse(body[0], "return form")
        need = max(a, b) + 1
        return (f"(* from the source of {cls.__name__}._ezsp_frame_rx *)\n"
                f"Definition py_{tag}_header_rx (data : list N) : option (N * N * list N) :=\n"
                f"  if (List.length data <? {need})%nat then None   (* IndexError *)\n"
                f"  else Some (nth {a} data 0, nth {b} data 0, skipn {c[1]} data).\n")
    want = ["seq, data = (data[0], data[3:])", "frame_id, data = t.uint16_t.deserialize(data)", "return (seq, frame_id, data)"]
    if len(body) == 3 and isinstance(body[0], ast.Assign) and isinstance(body[0].value, ast.Tuple) \
            and _dump(ast.unparse(body[1])) == _dump(want[1]) and _dump(ast.unparse(body[2])) == _dump(want[2]) \
            and ast.unparse(body[0].targets[0]) in ("seq, data", "(seq, data)") and len(body[0].value.elts) == 2:
        a, c = (idx(e) for e in body[0].value.elts)
        if not (isinstance(a, int) and isinstance(c, tuple)):
            tr.refuse(body[0], "assignment form")
        return (f"(* from the source of {cls.__name__}._ezsp_frame_rx; uint16_t.deserialize: two bytes, little endian, ValueError when short *)\n"
                f"Definition py_{tag}_header_rx (data : list N) : option (N * N * list N) :=\n"
                f"  if (List.length data <? {a + 1})%nat then None\n"
                f"  else let seq := nth {a} data 0 in let data := skipn {c[1]} data in\n"
                f"       if (List.length data <? 2)%nat then None\n"
                f"       else Some (seq, le_value (firstn 2 data), skipn 2 data).\n")
    raise GenError(where, "unsupported body:\n" + "\n".join(ast.unparse(s) for s in body))


def gen_ezsp_fn() -> str:
    import bellows.ezsp.v4 as v4
    import bellows.ezsp.v5 as v5
    import bellows.ezsp.v8 as v8
    out = ["(* GENERATED by harness/pysrc.py from the SOURCE TEXT of bellows/ezsp/v{4,5,8}/__init__.py -- do not edit *)\n"
           "From Coq Require Import NArith Arith List Bool.\nImport ListNotations.\nRequire Import BV.lib.EzspTypes BV.model.EzspCodec.\nOpen Scope N_scope.\n\n"]
    for cls, tag in ((v4.EZSPv4, "v4"), (v5.EZSPv5, "v5"), (v8.EZSPv8, "v8")):
        out.append(_header_tx(cls, tag))
        out.append(_header_rx(cls, tag))
        out.append("\n")
    return "".join(out)


# ==================================================================================================
# ASH receive-side methods of AshProtocol (synchronous, state in self attributes, effects = calls)
# ==================================================================================================
ASH_STATE = [("_rx_seq", "rx_seq", "N"), ("_tx_seq", "tx_seq", "N"), ("_ncp_state", "failed", "bool"), ("_ncp_reset_code", "code", "N")]
NONE_CODE = 256       # self._ncp_reset_code = None (reset codes are bytes)


class MethodTr(Tr):
    """statements of a synchronous AshProtocol method: self attributes are state variables, recognised calls
    append an effect, calls of other translated methods are inlined as calls of their Gallina counterpart"""

    def __init__(self, where, consts, params, known_methods):
        types = {c: t for _, c, t in ASH_STATE}
        types.update({p: t for p, t in params.items()})
        super().__init__(where, consts, types)
        self.types["eff"] = "effs"
        self.known = known_methods

    def norm(self, e):
        """frame.<field> -> <field>; self._attr -> state variable"""
        attrs = {a: c for a, c, _ in ASH_STATE}

        class N(ast.NodeTransformer):
            def visit_Attribute(s, n):
                s.generic_visit(n)
                if isinstance(n.value, ast.Name) and n.value.id == "frame":
                    return ast.copy_location(ast.Name(id=n.attr, ctx=ast.Load()), n)
                if isinstance(n.value, ast.Name) and n.value.id == "self" and n.attr in attrs:
                    return ast.copy_location(ast.Name(id=attrs[n.attr], ctx=ast.Load()), n)
                return n
        return N().visit(e)

    def ex(self, e):
        if isinstance(e, ast.BinOp) and isinstance(e.op, (ast.Add, ast.Mod)):
            if self.ty(e.left) != "N" or self.ty(e.right) != "N":
                self.refuse(e, "non-integer operand")
            op = "N.add" if isinstance(e.op, ast.Add) else "N.modulo"
            return f"({op} {self.ex(e.left)} {self.ex(e.right)})"
        if isinstance(e, ast.Constant) and e.value is None:
            return str(NONE_CODE)
        return super().ex(e)

    def ty(self, e):
        if isinstance(e, ast.Constant) and e.value is None:
            return "N"
        return super().ty(e)

    def effect(self, call: ast.Call):
        """Gallina term for a recognised effect call, or ('inline', name, args)"""
        f = ast.unparse(call.func)
        kw = {k.arg: k.value for k in call.keywords}

        def frame_term(c):
            if not (isinstance(c, ast.Call) and isinstance(c.func, ast.Name) and c.func.id in ("AckFrame", "NakFrame") and not c.args):
                self.refuse(c, "frame constructor")
            k = {x.arg: x.value for x in c.keywords}
            if set(k) != {"res", "ncp_ready", "ack_num"}:
                self.refuse(c, "frame constructor fields")
            ctor = "Ack" if c.func.id == "AckFrame" else "Nak"
            return f"({ctor} {self.ex(k['res'])} {self.ex(k['ncp_ready'])} {self.ex(k['ack_num'])})"
        if f == "self._write_frame" and len(call.args) == 1:
            if not kw:
                return f"PWrite {frame_term(call.args[0])}"
            if set(kw) == {"prefix"} and ast.unparse(kw["prefix"]) == "(Reserved.CANCEL,)":
                return f"PWriteCancel {frame_term(call.args[0])}"
        if f == "self._ezsp_protocol.data_received" and len(call.args) == 1 and not kw and ast.unparse(call.args[0]) == "ezsp_frame":
            return "PUp ezsp_frame"
        if f == "self._ezsp_protocol.reset_received" and len(call.args) == 1 and not kw:
            return f"PResetUp {self.ex(call.args[0])}"
        if f == "self._change_ack_timeout" and len(call.args) == 1 and ast.unparse(call.args[0]) == "T_RX_ACK_INIT":
            return "PAckTimeoutInit"
        if f == "self._cancel_pending_data_frames" and len(call.args) == 1 and isinstance(call.args[0], ast.Call):
            c = call.args[0]
            cf = ast.unparse(c.func)
            ck = {x.arg: x.value for x in c.keywords}
            if cf == "NotAcked" and set(ck) == {"frame"} and not c.args:
                return "PCancelPending CNotAcked"
            if cf == "NcpFailure" and set(ck) == {"code"} and not c.args:
                return f"PCancelPending (CFailure {self.ex(ck['code'])})"
        if f == "self._handle_ack" and len(call.args) == 1 and ast.unparse(call.args[0]) == "frame":
            return "PHandleAck ack_num"
        if f.startswith("self.") and f[5:] in self.known and not kw:
            return ("inline", f[5:], [self.ex(a) for a in call.args])
        self.refuse(call, "call with no modelled effect")

    def stmts(self, body, state, loopvar=None):
        if not body:
            return "(" + ", ".join(state) + ")"
        s, rest = body[0], body[1:]
        if isinstance(s, ast.Expr) and isinstance(s.value, ast.Constant):
            return self.stmts(rest, state)
        if isinstance(s, ast.Pass):
            return self.stmts(rest, state)
        if isinstance(s, ast.Expr) and isinstance(s.value, ast.Call):
            if ast.unparse(s.value.func).startswith("_LOGGER."):
                return self.stmts(rest, state)
            eff = self.effect(s.value)
            if isinstance(eff, tuple):
                _, name, args = eff
                return (f"let '({', '.join(state)}) := py_{name}_k ({', '.join(state)}) {' '.join(args)} in\n"
                        f"{self.stmts(rest, state)}")
            return f"let eff := eff ++ [{eff}] in\n{self.stmts(rest, state)}"
        if isinstance(s, ast.Assign) and len(s.targets) == 1 and isinstance(s.targets[0], ast.Name):
            name = s.targets[0].id
            if name not in self.types:
                self.refuse(s, "assignment to an unknown variable")
            if name == "failed":
                v = ast.unparse(s.value)
                if v not in ("NcpState.FAILED", "NcpState.CONNECTED"):
                    self.refuse(s, "state value")
                return f"let failed := {'true' if v.endswith('FAILED') else 'false'} in\n{self.stmts(rest, state)}"
            if self.ty(s.value) != self.types[name]:
                self.refuse(s, "type of the assigned value")
            return f"let {name} := {self.ex(s.value)} in\n{self.stmts(rest, state)}"
        if isinstance(s, ast.If):
            a = self.stmts(list(s.body) + rest, state)
            b = self.stmts(list(s.orelse) + rest, state)
            return f"if {self.cond(s.test)} then\n{textwrap.indent(a, '  ')}\nelse\n{textwrap.indent(b, '  ')}"
        self.refuse(s)


FRAME_PARAMS = {
    "DataFrame": [("frm_num", "N"), ("re_tx", "N"), ("ack_num", "N"), ("ezsp_frame", "payload")],
    "AckFrame": [("res", "N"), ("ncp_ready", "N"), ("ack_num", "N")],
    "NakFrame": [("res", "N"), ("ncp_ready", "N"), ("ack_num", "N")],
    "RstFrame": [],
    "RStackFrame": [("version", "N"), ("reset_code", "N")],
    "ErrorFrame": [("version", "N"), ("reset_code", "N")],
}
FRAME_CTOR = {"DataFrame": "Data", "AckFrame": "Ack", "NakFrame": "Nak", "RstFrame": "Rst", "RStackFrame": "Rstack", "ErrorFrame": "Error"}


def _method(cls, name, params, consts, known):
    fn = cls.__dict__[name]
    node = _fn_ast(fn)
    where = f"{cls.__name__}.{name} (source)"
    got = [a.arg for a in node.args.args if a.arg != "self"]
    coqty = {"N": "N", "payload": "list N"}
    if got != ["frame"]:
        params = [(p, "N") for p in got]
    tr = MethodTr(where, consts, dict(params), known)
    state = [c for _, c, _ in ASH_STATE] + ["eff"]
    term = tr.stmts([tr.norm(s) for s in node.body], state)
    args = " ".join(f"({p} : {coqty[t]})" for p, t in params)
    sty = "N * N * bool * N * list py_eff"
    return (f"(* from the source of {cls.__name__}.{name} *)\n"
            f"Definition py_{name}_k (s : {sty}) {args} : {sty} :=\n"
            f"  let '({', '.join(state)}) := s in\n{textwrap.indent(term, '  ')}.\n\n")


def gen_ash_rx_fn() -> str:
    import bellows.ash as ash

    consts = {f"Reserved.{m.name}": int(m) for m in ash.Reserved}
    P = ash.AshProtocol
    out = ["(* GENERATED by harness/pysrc.py from the SOURCE TEXT of AshProtocol's receive-side methods -- do not edit *)\n"
           "From Coq Require Import NArith Arith List Bool.\nImport ListNotations.\nRequire Import BV.gen.GenAsh BV.model.AshCodec.\nOpen Scope N_scope.\n\n"
           "(* effects: calls made by the methods, in order *)\n"
           "Inductive cancel_kind := CNotAcked | CFailure (code : N).\n"
           "Inductive py_eff :=\n| PWrite (f : frame) | PWriteCancel (f : frame)      (* self._write_frame(frame [, prefix=(CANCEL,)]) *)\n"
           "| PUp (payload : list N) | PResetUp (code : N)          (* self._ezsp_protocol.data_received / reset_received *)\n"
           "| PAckTimeoutInit                                       (* self._change_ack_timeout(T_RX_ACK_INIT) *)\n"
           "| PCancelPending (k : cancel_kind)                      (* self._cancel_pending_data_frames(NotAcked(..) | NcpFailure(code=..)) *)\n"
           "| PHandleAck (ack_num : N).                             (* self._handle_ack(frame) *)\n"
           f"(* state: (_rx_seq, _tx_seq, _ncp_state is FAILED, _ncp_reset_code with None = {NONE_CODE}, effects so far) *)\n\n"]
    known = []
    order = [("_enter_failed_state", None), ("data_frame_received", "DataFrame"), ("ack_frame_received", "AckFrame"),
             ("nak_frame_received", "NakFrame"), ("rst_frame_received", "RstFrame"), ("rstack_frame_received", "RStackFrame"),
             ("error_frame_received", "ErrorFrame")]
    for name, fcls in order:
        out.append(_method(P, name, FRAME_PARAMS[fcls] if fcls else [], consts, known))
        known.append(name)
    # frame_received: the isinstance chain
    node = _fn_ast(P.frame_received)
    body = [s for s in node.body if not (isinstance(s, ast.Expr) and (isinstance(s.value, ast.Constant) or ast.unparse(s.value).startswith("_LOGGER.")))]
    if len(body) != 1 or not isinstance(body[0], ast.If):
        raise GenError("AshProtocol.frame_received", "expected a single if/elif chain")
    branches = []
    cur = body[0]
    while True:
        t = cur.test
        if not (isinstance(t, ast.Call) and ast.unparse(t.func) == "isinstance" and ast.unparse(t.args[0]) == "frame"):
            raise GenError("AshProtocol.frame_received", f"unexpected test `{ast.unparse(t)}`")
        fcls = ast.unparse(t.args[1])
        calls = []
        for s in cur.body:
            if not (isinstance(s, ast.Expr) and isinstance(s.value, ast.Call) and ast.unparse(s.value.args[0] if s.value.args else s.value) == "frame"
                    and ast.unparse(s.value.func).startswith("self.")):
                raise GenError("AshProtocol.frame_received", f"unexpected statement `{ast.unparse(s)}`")
            calls.append(ast.unparse(s.value.func)[5:])
        branches.append((fcls, calls))
        if len(cur.orelse) == 1 and isinstance(cur.orelse[0], ast.If):
            cur = cur.orelse[0]
        else:
            if not (len(cur.orelse) == 1 and isinstance(cur.orelse[0], ast.Raise)):
                raise GenError("AshProtocol.frame_received", "the chain must end in `raise`")
            break
    if sorted(b[0] for b in branches) != sorted(FRAME_CTOR):
        raise GenError("AshProtocol.frame_received", f"classes handled: {[b[0] for b in branches]}")
    # isinstance order matters only if one class derives from another
    classes = {n: getattr(ash, n) for n in FRAME_CTOR}
    for i, (a, _) in enumerate(branches):
        for b, _ in branches[i + 1:]:
            if issubclass(classes[b], classes[a]):
                raise GenError("AshProtocol.frame_received", f"{b} is a subclass of {a}, which is tested first")
    lines = []
    for fcls, calls in branches:
        ps = FRAME_PARAMS[fcls]
        pat = FRAME_CTOR[fcls] + "".join(" " + p for p, _ in ps)
        term = "s"
        for c in calls:
            if c == "_handle_ack":
                term = f"(let '(rx_seq, tx_seq, failed, code, eff) := {term} in (rx_seq, tx_seq, failed, code, eff ++ [PHandleAck ack_num]))"
            elif c in known:
                term = f"(py_{c}_k {term}{''.join(' ' + p for p, _ in ps)})"
            else:
                raise GenError("AshProtocol.frame_received", f"call of unknown method {c}")
        lines.append(f"  | {pat} => {term}")
    out.append("(* from the source of AshProtocol.frame_received: the isinstance chain *)\n"
               "Definition py_frame_received (st : N * N * bool * N) (f : frame) : N * N * bool * N * list py_eff :=\n"
               "  let '(rx0, tx0, failed0, code0) := st in\n  let s := (rx0, tx0, failed0, code0, @nil py_eff) in\n  match f with\n"
               + "\n".join(lines) + "\n  end.\n")
    # _handle_ack and _cancel_pending_data_frames are pinned (dict / future operations)
    pins = [("AshProtocol._handle_ack", _norm_body(P._handle_ack), """
for ack_num_offset in range(-TX_K, 0):
    ack_num = (frame.ack_num + ack_num_offset) % 8
    fut = self._pending_data_frames.get(ack_num)
    if fut is None or fut.done():
        continue
    self._pending_data_frames[ack_num].set_result(True)"""),
            ("AshProtocol._cancel_pending_data_frames", _norm_body(P._cancel_pending_data_frames), """
for fut in self._pending_data_frames.values():
    if not fut.done():
        fut.set_exception(exc)""")]
    for nm, got, exp in pins:
        if _dump(got) != _dump(exp):
            raise GenError(nm, "source differs from the form the model mirrors:\n" + got)
    return "".join(out)


# ==================================================================================================
# Gateway (bellows/uart.py) and the EZSP facade's failure handling (bellows/ezsp/__init__.py)
# ==================================================================================================
GW_STATE = ["r_attr", "r_fut", "s_attr", "s_fut", "t_open", "running", "has_gw", "app_cb", "eff"]
GW_FUT = {"_reset_future": ("r_attr", "r_fut"), "_startup_reset_future": ("s_attr", "s_fut")}


class GwTr:
    """synchronous methods of Gateway / EZSP over one joint state; futures are (attribute is not None, state of the
    future object); `_connection_done_future` (threaded mode bookkeeping) and log calls are skipped"""

    def __init__(self, cls_name, where, params, methods):
        self.cls, self.where, self.params, self.methods = cls_name, where, params, methods

    def refuse(self, node, why="unsupported construct"):
        raise GenError(self.where, f"{why}: `{ast.unparse(node)[:90]}`")

    def fut_of(self, e):
        if isinstance(e, ast.Attribute) and isinstance(e.value, ast.Name) and e.value.id == "self" and e.attr in GW_FUT and self.cls == "Gateway":
            return GW_FUT[e.attr]
        return None

    def cond(self, t):
        src = ast.unparse(t)
        if isinstance(t, ast.BoolOp) and isinstance(t.op, ast.And):
            return "(" + " && ".join(self.cond(v) for v in t.values) + ")"
        if isinstance(t, ast.UnaryOp) and isinstance(t.op, ast.Not):
            return f"(negb {self.cond(t.operand)})"
        f = self.fut_of(t)
        if f:
            return f[0]                                   # a Future object is truthy: the attribute is not None
        if isinstance(t, ast.Call) and isinstance(t.func, ast.Attribute) and t.func.attr == "done" and not t.args:
            f = self.fut_of(t.func.value)
            if f:
                return f"(negb (is_pend {f[1]}))"
        if isinstance(t, ast.Compare) and len(t.ops) == 1 and isinstance(t.comparators[0], ast.Constant) and t.comparators[0].value is None:
            f = self.fut_of(t.left)
            if f and isinstance(t.ops[0], ast.IsNot):
                return f[0]
            if f and isinstance(t.ops[0], ast.Is):
                return f"(negb {f[0]})"
            if src == "exc is None" and "has_exc" in self.params:
                return "(negb has_exc)"
        if src == "code is not t.NcpResetCode.RESET_SOFTWARE" and "code" in self.params:
            return "(negb (code =? RESET_SOFTWARE))"
        if src == "len(self._callbacks) > 1" and self.cls == "EZSP":
            return "app_cb"
        if src == "self._gw" and self.cls == "EZSP":
            return "has_gw"
        self.refuse(t, "condition")

    def ghost(self, s):
        src = ast.unparse(s)
        return "_connection_done_future" in src or src.startswith(("LOGGER.", "_LOGGER.")) or src.startswith("reason = ")

    def stmts(self, body):
        done = "(" + ", ".join(GW_STATE) + ")"
        if not body:
            return done
        s, rest = body[0], body[1:]
        if isinstance(s, ast.Expr) and isinstance(s.value, ast.Constant):
            return self.stmts(rest)
        if self.ghost(s):
            return self.stmts(rest)
        if isinstance(s, ast.Return) and s.value is None:
            return done
        if isinstance(s, ast.If):
            a = self.stmts(list(s.body) + rest)
            b = self.stmts(list(s.orelse) + rest)
            return f"if {self.cond(s.test)} then\n{textwrap.indent(a, '  ')}\nelse\n{textwrap.indent(b, '  ')}"
        if isinstance(s, ast.Assign) and len(s.targets) == 1:
            f = self.fut_of(s.targets[0])
            if f and isinstance(s.value, ast.Constant) and s.value.value is None:
                return f"let {f[0]} := false in\n{self.stmts(rest)}"
            if ast.unparse(s) == "self._gw = None" and self.cls == "EZSP":
                return f"let has_gw := false in\n{self.stmts(rest)}"
            self.refuse(s, "assignment")
        if isinstance(s, ast.Expr) and isinstance(s.value, ast.Call):
            c = s.value
            fn = ast.unparse(c.func)
            if isinstance(c.func, ast.Attribute) and c.func.attr in ("set_result", "set_exception"):
                f = self.fut_of(c.func.value)
                if f and c.func.attr == "set_result" and ast.unparse(c.args[0]) == "True":
                    return f"let {f[1]} := FOk in\n{self.stmts(rest)}"
                if f and c.func.attr == "set_exception" and ast.unparse(c.args[0]) == "reason":
                    return f"let {f[1]} := FExn in\n{self.stmts(rest)}"
            call = None
            if self.cls == "Gateway":
                if fn == "self._application.enter_failed_state" and len(c.args) == 1:
                    call = ("EZSP_enter_failed_state", "PAppFailed")
                elif fn == "self._application.connection_lost" and ast.unparse(c.args[0]) == "exc":
                    call = ("EZSP_connection_lost", "PAppFailed")
                elif fn == "self.connection_lost" and len(c.args) == 1 and isinstance(c.args[0], ast.Call) \
                        and ast.unparse(c.args[0].func) == "ConnectionResetError":
                    return (f"let '({', '.join(GW_STATE)}) := py_Gateway_connection_lost_k ({', '.join(GW_STATE)}) true in\n"
                            f"{self.stmts(rest)}")
                elif fn == "self._transport.close" and not c.args:
                    return f"let eff := eff ++ [PTransportClose] in\nlet t_open := false in\n{self.stmts(rest)}"
            else:
                if fn == "self.enter_failed_state" and len(c.args) == 1:
                    call = ("EZSP_enter_failed_state", None)
                elif fn == "self.close" and not c.args:
                    call = ("EZSP_close", None)
                elif fn == "self.stop_ezsp" and not c.args:
                    call = ("EZSP_stop_ezsp", None)
                elif fn == "self._gw.close" and not c.args:
                    call = ("Gateway_close", None)
                elif fn == "self._ezsp_event.clear" and not c.args:
                    return f"let running := false in\n{self.stmts(rest)}"
                elif fn == "self.handle_callback" and ast.unparse(c.args[0]) == "'_reset_controller_application'":
                    return f"let eff := eff ++ [PResetRequest] in\n{self.stmts(rest)}"
            if call:
                name, pre = call
                if name not in self.methods:
                    self.refuse(s, f"call of {name} before it is translated")
                out = ""
                if pre:
                    out += f"let eff := eff ++ [{pre}] in\n"
                return (out + f"let '({', '.join(GW_STATE)}) := py_{name}_k ({', '.join(GW_STATE)}) in\n{self.stmts(rest)}")
        self.refuse(s)


def gen_gateway_fn() -> str:
    import bellows.ezsp as E
    import bellows.uart as U
    out = ["(* GENERATED by harness/pysrc.py from the SOURCE TEXT of bellows/uart.py (Gateway) and of the failure handling of\n"
           "   bellows/ezsp/__init__.py (EZSP) -- do not edit *)\n"
           "From Coq Require Import NArith List Bool.\nImport ListNotations.\nRequire Import BV.gen.GenAsh BV.model.Gateway.\nOpen Scope N_scope.\n\n"
           "Inductive gw_eff := PAppFailed | PResetRequest | PTransportClose.\n"
           "(* state: (_reset_future is not None, its future; _startup_reset_future is not None, its future; transport open;\n"
           "   _ezsp_event set; _gw is not None; an application callback is registered; effects so far) *)\n"
           "Definition gw_state := (bool * fstate * bool * fstate * bool * bool * bool * bool * list gw_eff)%type.\n\n"]
    plan = [("Gateway", U.Gateway, "close", []), ("EZSP", E.EZSP, "stop_ezsp", []), ("EZSP", E.EZSP, "close", []),
            ("EZSP", E.EZSP, "enter_failed_state", ["error"]), ("EZSP", E.EZSP, "connection_lost", ["exc"]),
            ("Gateway", U.Gateway, "reset_received", ["code"]), ("Gateway", U.Gateway, "error_received", ["code"]),
            ("Gateway", U.Gateway, "connection_lost", ["exc"]), ("Gateway", U.Gateway, "eof_received", []),
            ("Gateway", U.Gateway, "_reset_cleanup", ["future"])]
    methods = []
    for cname, cls, name, want in plan:
        fn = cls.__dict__[name]
        node = _fn_ast(fn)
        got = [a.arg for a in node.args.args if a.arg != "self"]
        if got != want:
            raise GenError(f"{cname}.{name}", f"parameters {got}, expected {want}")
        params = {}
        sig = ""
        if cname == "Gateway" and name in ("reset_received", "error_received"):
            params["code"] = "N"
            sig = " (code : N)"
        if cname == "Gateway" and name == "connection_lost":
            params["has_exc"] = "bool"
            sig = " (has_exc : bool)"
        tr = GwTr(cname, f"{cname}.{name} (source)", params, methods)
        term = tr.stmts(list(node.body))
        out.append(f"(* from the source of {cname}.{name} *)\n"
                   f"Definition py_{cname}_{name}_k (s : gw_state){sig} : gw_state :=\n"
                   f"  let '({', '.join(GW_STATE)}) := s in\n{textwrap.indent(term, '  ')}.\n\n")
        methods.append(f"{cname}_{name}")
    return "".join(out)


# ==================================================================================================
# Multicast.subscribe / unsubscribe (bellows/multicast.py): coroutines with ONE await -- the awaited result is a
# parameter of the emitted function (an answer: status | the call raised)
# ==================================================================================================
class McTr:
    """host side of one subscribe / unsubscribe call.  State variables: subs (the _multicast dict as an association
    list group -> index), avail (the _available set as a list), entry_id / entry_ep (fields of the local `entry`),
    idx, status.  Result: (subs, avail, ret, write) with write = Some (idx, multicastId, endpoint) if the table write
    was issued."""

    OUT = "(subs, avail, {ret}, write)"

    def __init__(self, where):
        self.where = where

    def refuse(self, node, why="unsupported construct"):
        raise GenError(self.where, f"{why}: `{ast.unparse(node)[:100]}`")

    def ret(self, value):
        v = ast.unparse(value)
        if v == "t.sl_Status.OK":
            return self.OUT.format(ret="RStatus sl_OK")
        if v == "t.sl_Status.INVALID_INDEX":
            return self.OUT.format(ret="RStatus INVALID_INDEX")
        if v == "status[0]":
            return self.OUT.format(ret="RStatus status")
        self.refuse(value, "return value")

    def skip(self, s):
        src = ast.unparse(s)
        return src.startswith("LOGGER.") or (isinstance(s, ast.Expr) and isinstance(s.value, ast.Constant))

    def stmts(self, body):
        if not body:
            raise GenError(self.where, "control reaches the end of the coroutine without a return")
        s, rest = body[0], body[1:]
        src = ast.unparse(s)
        if self.skip(s):
            return self.stmts(rest)
        if isinstance(s, ast.Return):
            return self.ret(s.value)
        if isinstance(s, ast.Raise) and s.exc is None:
            return self.OUT.format(ret="RRaised")
        # if group_id in self._multicast: ...
        if isinstance(s, ast.If) and ast.unparse(s.test) == "group_id in self._multicast" and not s.orelse:
            return (f"match lookup group_id subs with\n| Some _ =>\n{textwrap.indent(self.stmts(list(s.body)), '    ')}\n"
                    f"| None =>\n{textwrap.indent(self.stmts(rest), '    ')}\nend")
        # try: idx = self._available.pop()  except KeyError: ...
        if isinstance(s, ast.Try) and len(s.body) == 1 and ast.unparse(s.body[0]) == "idx = self._available.pop()" \
                and len(s.handlers) == 1 and ast.unparse(s.handlers[0].type) == "KeyError" and not s.orelse and not s.finalbody:
            return (f"match pick choice avail with\n| None =>\n{textwrap.indent(self.stmts(list(s.handlers[0].body)), '    ')}\n"
                    f"| Some idx =>\n    let avail := remove_idx idx avail in\n{textwrap.indent(self.stmts(rest), '    ')}\nend")
        # try: entry, idx = self._multicast[group_id]  except KeyError: ...
        if isinstance(s, ast.Try) and len(s.body) == 1 and _dump(ast.unparse(s.body[0])) == _dump("entry, idx = self._multicast[group_id]") \
                and len(s.handlers) == 1 and ast.unparse(s.handlers[0].type) == "KeyError" and not s.orelse and not s.finalbody:
            return (f"match lookup group_id subs with\n| None =>\n{textwrap.indent(self.stmts(list(s.handlers[0].body)), '    ')}\n"
                    f"| Some idx =>\n    let entry_id := group_id in\n{textwrap.indent(self.stmts(rest), '    ')}\nend")
        if src == "entry = t.EmberMulticastTableEntry()":
            return self.stmts(rest)
        m = {"entry.endpoint = t.uint8_t(1)": "let entry_ep := 1 in", "entry.endpoint = t.uint8_t(0)": "let entry_ep := 0 in",
             "entry.multicastId = t.EmberMulticastId(group_id)": "let entry_id := group_id in",
             "entry.networkIndex = t.uint8_t(0)": None,
             "self._available.add(idx)": "let avail := set_add idx avail in",
             "self._multicast[entry.multicastId] = (entry, idx)": "let subs := dict_set entry_id idx subs in",
             "self._multicast.pop(group_id)": "let subs := dict_del group_id subs in"}
        if src in m:
            return (m[src] + "\n" if m[src] else "") + self.stmts(rest)
        # the await, guarded or not
        AWAIT = "status = await self._ezsp.setMulticastTableEntry(idx, entry)"
        if isinstance(s, ast.Try) and len(s.body) == 1 and ast.unparse(s.body[0]) == AWAIT and len(s.handlers) == 1 \
                and ast.unparse(s.handlers[0].type) == "BaseException" and not s.orelse and not s.finalbody:
            on_exc = self.stmts(list(s.handlers[0].body))
            return (f"let write := Some (idx, entry_id, entry_ep) in\nmatch a with\n| Ans status =>\n{textwrap.indent(self.stmts(rest), '    ')}\n"
                    f"| _ =>\n{textwrap.indent(on_exc, '    ')}\nend")
        if src == AWAIT:
            return (f"let write := Some (idx, entry_id, entry_ep) in\nmatch a with\n| Ans status =>\n{textwrap.indent(self.stmts(rest), '    ')}\n"
                    f"| _ => {self.OUT.format(ret='RRaised')}\nend")
        if isinstance(s, ast.If) and ast.unparse(s.test) == "t.sl_Status.from_ember_status(status[0]) != t.sl_Status.OK" and not s.orelse:
            return (f"if negb (status_ok status) then\n{textwrap.indent(self.stmts(list(s.body)), '  ')}\nelse\n"
                    f"{textwrap.indent(self.stmts(rest), '  ')}")
        self.refuse(s)


def gen_multicast_fn() -> str:
    import bellows.multicast as M
    out = ["(* GENERATED by harness/pysrc.py from the SOURCE TEXT of bellows/multicast.py -- do not edit *)\n"
           "From Coq Require Import NArith List Bool.\nImport ListNotations.\nRequire Import BV.gen.GenStatus BV.model.Status BV.model.Multicast.\nOpen Scope N_scope.\n\n"
           "(* one call on the host side: the dict / set before, the element set.pop() returns (subscribe), the outcome of the\n"
           "   awaited table write; result: dict, set, what the call reports, the write issued (index, multicastId, endpoint) *)\n\n"]
    for name, extra in (("subscribe", " (choice : N)"), ("unsubscribe", "")):
        fn = M.Multicast.__dict__[name]
        node = _fn_ast_async(fn)
        got = [a.arg for a in node.args.args if a.arg != "self"]
        if got != ["group_id"]:
            raise GenError(f"Multicast.{name}", f"parameters {got}")
        tr = McTr(f"Multicast.{name} (source)")
        term = tr.stmts(list(node.body))
        out.append(f"(* from the source of Multicast.{name} *)\n"
                   f"Definition py_{name} (subs : list (N * N)) (avail : list N) (group_id : N){extra} (a : answer)\n"
                   f"  : list (N * N) * list N * ret * option (N * N * N) :=\n"
                   f"  let write := @None (N * N * N) in\n{textwrap.indent(term, '  ')}.\n\n")
    return "".join(out)


def _fn_ast_async(fn):
    src = textwrap.dedent(inspect.getsource(fn))
    node = ast.parse(src).body[0]
    if not isinstance(node, ast.AsyncFunctionDef):
        raise GenError(getattr(fn, "__qualname__", str(fn)), "not a coroutine function")
    return node


# ==================================================================================================
# ControllerApplication._watchdog_feed / _get_free_buffers: awaits in sequence inside try/except/else;
# each awaited keep-alive command's outcome is a parameter (a1 for the first, a2 for the free-buffer read)
# ==================================================================================================
class WdTr:
    """state: failures (self._watchdog_failures), feeds (self._watchdog_feed_counter); cmds: keep-alive commands issued,
    in order.  An await `k` is translated as: append the command; if its answer is a raising one (timeout / EZSP error)
    continue with the except handler, otherwise with the rest of the try body; the counter bookkeeping
    (self.state.counters ...) carries no control flow and is skipped."""

    def __init__(self, where):
        self.where = where
        self.nawait = 0

    def refuse(self, node, why="unsupported construct"):
        raise GenError(self.where, f"{why}: `{ast.unparse(node)[:100]}`")

    GHOST = ("counters = self.state.counters[COUNTERS_EZSP]", "counters.reset()", "LOGGER.", "cnt = counters[COUNTER_EZSP_BUFFERS]",
             "cnt._raw_value = free_buffers", "cnt._last_reset_value = 0", "self.state.counters[COUNTERS_CTRL][COUNTER_WATCHDOG].increment()")

    def ghost(self, s):
        src = ast.unparse(s)
        if isinstance(s, ast.Expr) and isinstance(s.value, ast.Constant):
            return True
        if isinstance(s, ast.For) and ast.unparse(s.iter) == "current_counters.items()":
            return True
        if isinstance(s, ast.If) and ast.unparse(s.test) in ("remainder == 0", "free_buffers is not None") \
                and all(self.ghost(x) for x in s.body) and not s.orelse:
            return True
        return any(src.startswith(g) for g in self.GHOST)

    def body(self, stmts, handler, orelse):
        """stmts inside the try; handler / orelse are Gallina terms for `except` and `else`"""
        if not stmts:
            return orelse
        s, rest = stmts[0], stmts[1:]
        src = ast.unparse(s)
        if self.ghost(s):
            return self.body(rest, handler, orelse)
        if isinstance(s, ast.If) and src.startswith("if self._ezsp.ezsp_version == 4:"):
            a = self.body(list(s.body) + rest, handler, orelse)
            b = self.body(list(s.orelse) + rest, handler, orelse)
            return f"if v =? 4 then\n{textwrap.indent(a, '  ')}\nelse\n{textwrap.indent(b, '  ')}"
        if src == "self._watchdog_feed_counter += 1":
            return f"let feeds := feeds + 1 in\n{self.body(rest, handler, orelse)}"
        if _dump(src) == _dump("remainder = self._watchdog_feed_counter % EZSP_COUNTERS_CLEAR_IN_WATCHDOG_PERIODS"):
            return f"let remainder := feeds mod clear_period in\n{self.body(rest, handler, orelse)}"
        if isinstance(s, ast.If) and ast.unparse(s.test) == "remainder > 0" and len(s.body) == 1 and len(s.orelse) == 1:
            a = self.body(list(s.body) + rest, handler, orelse)
            b = self.body(list(s.orelse) + rest, handler, orelse)
            return f"if 0 <? remainder then\n{textwrap.indent(a, '  ')}\nelse\n{textwrap.indent(b, '  ')}"
        aw = {"await self._ezsp.nop()": "KNop", "current_counters = await self._ezsp.read_counters()": "KReadCounters",
              "current_counters = await self._ezsp.read_and_clear_counters()": "KReadAndClearCounters",
              "free_buffers = await self._get_free_buffers()": "KGetValue"}
        if src in aw:
            k = aw[src]
            ans = "a2" if k == "KGetValue" else "a1"
            return (f"let cmds := cmds ++ [{k}] in\nif ans_raises {ans} then\n{textwrap.indent(handler, '  ')}\nelse\n"
                    f"{textwrap.indent(self.body(rest, handler, orelse), '  ')}")
        self.refuse(s)

    def handler(self, stmts):
        if not stmts:
            return "(failures, feeds, false, cmds)"
        s, rest = stmts[0], stmts[1:]
        src = ast.unparse(s)
        if self.ghost(s):
            return self.handler(rest)
        if src == "self._watchdog_failures += 1":
            return f"let failures := failures + 1 in\n{self.handler(rest)}"
        if isinstance(s, ast.If) and ast.unparse(s.test) == "self._watchdog_failures > MAX_WATCHDOG_FAILURES" and not s.orelse:
            inner = [x for x in s.body if not self.ghost(x)]
            if len(inner) != 1 or not (isinstance(inner[0], ast.Raise) and inner[0].exc is None):
                self.refuse(s, "body of the give-up test")
            return (f"if max_failures <? failures then (failures, feeds, true, cmds)\nelse\n{textwrap.indent(self.handler(rest), '  ')}")
        self.refuse(s)


def gen_watchdog_fn() -> str:
    import bellows.zigbee.application as A
    C = A.ControllerApplication
    node = _fn_ast_async(C.__dict__["_watchdog_feed"])
    where = "ControllerApplication._watchdog_feed (source)"
    body = [s for s in node.body if not (isinstance(s, ast.Expr) and isinstance(s.value, ast.Constant))]
    if len(body) != 1 or not isinstance(body[0], ast.Try) or body[0].finalbody or len(body[0].handlers) != 1:
        raise GenError(where, "expected a single try/except/else")
    t = body[0]
    if _dump(ast.unparse(t.handlers[0].type)) != _dump("(asyncio.TimeoutError, EzspError)"):
        raise GenError(where, f"exceptions caught: {ast.unparse(t.handlers[0].type)}")
    if [ast.unparse(x) for x in t.orelse] != ["self._watchdog_failures = 0"]:
        raise GenError(where, "else branch is not `self._watchdog_failures = 0`")
    tr = WdTr(where)
    handler = tr.handler(list(t.handlers[0].body))
    term = tr.body(list(t.body), handler, "let failures := 0 in\n(failures, feeds, false, cmds)")
    # _get_free_buffers: one getValue; a status other than success gives None (no exception)
    gfb = _norm_body(C.__dict__["_get_free_buffers"]) if False else None
    fn = C.__dict__["_get_free_buffers"]
    nb = "\n".join(ast.unparse(s) for s in _fn_ast_async(fn).body if not (isinstance(s, ast.Expr) and isinstance(s.value, ast.Constant)))
    want = """
(status, value) = await self._ezsp.getValue(valueId=t.EzspValueId.VALUE_FREE_BUFFERS)
if status != t.EzspStatus.SUCCESS:
    return None
buffers = int.from_bytes(value, byteorder='little')
LOGGER.debug('Free buffers status %s, value: %s', status, buffers)
return buffers"""
    if _dump(nb) != _dump(want):
        raise GenError("ControllerApplication._get_free_buffers", "source differs from the form the model mirrors:\n" + nb)
    return ("(* GENERATED by harness/pysrc.py from the SOURCE TEXT of ControllerApplication._watchdog_feed -- do not edit *)\n"
            "From Coq Require Import NArith List Bool.\nImport ListNotations.\nRequire Import BV.model.Watchdog.\nOpen Scope N_scope.\n\n"
            "(* an awaited keep-alive command raises (asyncio.TimeoutError / EzspError) or returns; _get_free_buffers returns\n"
            "   None for a status other than success, which is not an exception *)\n"
            "Definition ans_raises (a : ans) : bool := match a with ATimeout | AEzspError => true | _ => false end.\n\n"
            "(* from the source of ControllerApplication._watchdog_feed: (failures, feed counter) before, protocol version, the\n"
            "   answers to the first keep-alive command and to the free-buffer read; result: failures, feed counter, whether the\n"
            "   feed re-raised, the keep-alive commands issued *)\n"
            "Definition py_watchdog_feed (max_failures clear_period : N) (v : N) (failures feeds : N) (a1 a2 : ans)\n"
            "  : N * N * bool * list kcmd :=\n  let cmds := @nil kcmd in\n" + textwrap.indent(term, "  ") + ".\n")


# ==================================================================================================
# EZSP bring-up (bellows/ezsp/__init__.py): startup_reset / reset / version / _switch_protocol_version / _command /
# start_ezsp / stop_ezsp / connect / __init__.  Coroutines: the outcome of every await is an oracle parameter of the
# emitted function (the value a command returns -- for `version` the protocol version the NCP reports --, a time-out,
# another exception); the effects are the gateway reset handshake, the wait for a spontaneous start-up reset, the
# construction of a protocol handler object and every command (name, argument, VERSION of the handler object whose
# bound method was called).  A method may raise: every emitted function returns (state, ORet value | OExn exception)
# and a call site continues with the rest of the block or with the enclosing `except` / the caller.
#
# Supported subset (anything else raises GenError):
#   statements   docstrings / LOGGER calls (dropped); `self._ezsp_version = e`; `<local> = e`;
#                `self._protocol = self._BY_VERSION[e](self.handle_callback, self._gw)` (dict lookup: KeyError);
#                `self._protocol = <module>.<Class>(self.handle_callback, self._gw)`; `self._ezsp_event.set()/.clear()`;
#                `command = getattr(self._protocol, name)`; `return await command(*args, **kwargs)`;
#                `[x, _, _ =] await self._command("<name>", <key>=e)`; `[await] self.<translated method>(e, ...)`;
#                `await self._gw.reset()`; `await self._gw.wait_for_startup_reset()`;
#                `async with asyncio_timeout(<int constant>): ...`; `try: ... except asyncio.TimeoutError: ... [else: ...]`;
#                `if/elif/else`; `raise EzspError(...)`; `pass`; `return`
#   expressions  int literals, locals, int constants of the module (EZSP_LATEST, v4.EZSPv4.VERSION: emitted as named
#                definitions with the live value), `self._ezsp_version`, properties of EZSP whose getter is a single
#                `return e` (inlined), `self._ezsp_event.is_set()`, == != < <= > >=, `[not] in self._BY_VERSION`,
#                not / and / or; `self.is_tcp_serial_port` is a parameter (it depends on the device path only)
# ==================================================================================================
BU_STATE = ["ezsp_v", "handler", "running", "eff"]
BU_S = ", ".join(BU_STATE)
BU_NO_HANDLER = 0       # self._protocol is None (no protocol version 0 exists; checked)
BU_EXN = {"asyncio.TimeoutError": "XTimeout", "EzspError": "XEzspError"}


class BuTr:
    """one method of EZSP over the state (self._ezsp_version, VERSION of self._protocol, self._ezsp_event is set,
    effects so far).  `sigs` describes the methods translated so far: name -> (is_async, [(param, type)], [oracle kinds])"""

    def __init__(self, where, ctx, sigs, is_async, extra):
        self.where, self.ctx, self.sigs, self.is_async, self.extra = where, ctx, sigs, is_async, extra
        self.sites = {}          # id(await node) -> oracle names
        self.oracles = []        # (name, kind) in source order
        self.timeout = None

    def refuse(self, node, why="unsupported construct"):
        src = ast.unparse(node) if isinstance(node, ast.AST) else str(node)
        raise GenError(self.where, f"{why}: `{src[:100]}`")

    # ---- await sites -> oracle parameters (by source position, not by visiting order of the translation) ----------
    def await_kinds(self, call):
        if not isinstance(call, ast.Call):
            self.refuse(call, "await of something that is not a call")
        f = ast.unparse(call.func)
        if f == "self._gw.reset":
            return ["r"]
        if f == "self._gw.wait_for_startup_reset":
            return ["w"]
        if f == "command":
            return ["a"]
        if f.startswith("self.") and f[5:] in self.sigs:
            if not self.sigs[f[5:]][0]:
                self.refuse(call, "await of a synchronous method")
            return list(self.sigs[f[5:]][2])
        self.refuse(call, "await with no modelled outcome")

    def scan_awaits(self, node):
        tr = self
        count = {}

        class V(ast.NodeVisitor):
            def visit_Await(s, n):
                names = []
                for k in tr.await_kinds(n.value):
                    count[k] = count.get(k, 0) + 1
                    names.append(f"{k}{count[k]}")
                    tr.oracles.append((names[-1], k))
                tr.sites[id(n)] = names
                s.generic_visit(n)
        V().visit(node)

    # ---- expressions ------------------------------------------------------------------------------------------------
    def const(self, e):
        """an int constant of the module, by its dotted name; emitted as a named definition"""
        dotted = ast.unparse(e)
        obj = self.ctx["module"]
        try:
            for part in dotted.split("."):
                obj = getattr(obj, part)
        except AttributeError:
            self.refuse(e, "unknown name")
        if isinstance(obj, bool) or not isinstance(obj, int) or obj < 0:
            self.refuse(e, "module constant that is not a non-negative int")
        name = "py_" + dotted.replace(".", "_")
        self.ctx["consts"][name] = int(obj)
        return name

    def prop(self, e, env, seen=()):
        """self.<property>: the getter's `return e`, inlined"""
        cls = self.ctx["cls"]
        p = cls.__dict__.get(e.attr)
        if not isinstance(p, property) or e.attr in seen:
            return None
        node = _fn_ast(p.fget)
        body = _StripLogs().visit(node).body
        if len(body) != 1 or not isinstance(body[0], ast.Return) or body[0].value is None:
            raise GenError(f"EZSP.{e.attr} (source)", "the getter is not a single `return <expression>`")
        save = self.where
        self.where = f"EZSP.{e.attr} (source)"
        out = self.ex(body[0].value, {}, seen + (e.attr,))
        self.where = save
        return out

    def ex(self, e, env, seen=()):
        """(term, type) with type in N | bool | string"""
        if isinstance(e, ast.Constant):
            if isinstance(e.value, bool):
                return ("true" if e.value else "false"), "bool"
            if isinstance(e.value, int) and e.value >= 0:
                return str(e.value), "N"
            if isinstance(e.value, str) and '"' not in e.value:
                return f'"{e.value}"%string', "string"
            self.refuse(e, "constant")
        if isinstance(e, ast.Name):
            if e.id in env:
                if env[e.id] not in ("N", "bool", "string"):
                    self.refuse(e, f"use of a value that is not modelled ({env[e.id]})")
                return f"l_{e.id}", env[e.id]
            return self.const(e), "N"
        if isinstance(e, ast.Attribute):
            src = ast.unparse(e)
            if src == "self._ezsp_version":
                return "ezsp_v", "N"
            if src == "self.is_tcp_serial_port" and "tcp" in self.extra:
                return "tcp", "bool"
            if isinstance(e.value, ast.Name) and e.value.id == "self":
                p = self.prop(e, env, seen)
                if p is None:
                    self.refuse(e, "attribute of self that is not modelled")
                return p
            return self.const(e), "N"
        if isinstance(e, ast.Call) and ast.unparse(e) == "self._ezsp_event.is_set()":
            return "running", "bool"
        if isinstance(e, ast.UnaryOp) and isinstance(e.op, ast.Not):
            return f"(negb {self.cond(e.operand, env, seen)})", "bool"
        if isinstance(e, ast.BoolOp):
            op = " && " if isinstance(e.op, ast.And) else " || "
            return "(" + op.join(self.cond(v, env, seen) for v in e.values) + ")", "bool"
        if isinstance(e, ast.Compare):
            if len(e.ops) != 1:
                self.refuse(e, "chained comparison")
            op, rhs = e.ops[0], e.comparators[0]
            if isinstance(op, (ast.In, ast.NotIn)):
                if ast.unparse(rhs) != "self._BY_VERSION":
                    self.refuse(e, "membership in something other than self._BY_VERSION")
                t = f"(py_in {self.num(e.left, env, seen)} py_BY_VERSION_keys)"
                return (t if isinstance(op, ast.In) else f"(negb {t})"), "bool"
            a, b = self.num(e.left, env, seen), self.num(rhs, env, seen)
            forms = {ast.Eq: f"({a} =? {b})", ast.NotEq: f"(negb ({a} =? {b}))", ast.Lt: f"({a} <? {b})", ast.LtE: f"({a} <=? {b})",
                     ast.Gt: f"({b} <? {a})", ast.GtE: f"({b} <=? {a})"}
            if type(op) not in forms:
                self.refuse(e, "comparison operator")
            return forms[type(op)], "bool"
        self.refuse(e)

    def num(self, e, env, seen=()):
        t, ty = self.ex(e, env, seen)
        if ty != "N":
            self.refuse(e, "expected an integer")
        return t

    def cond(self, e, env, seen=()):
        t, ty = self.ex(e, env, seen)
        if ty != "bool":
            self.refuse(e, "expected a boolean (truthiness of other values is not translated)")
        return t

    # ---- exceptions ---------------------------------------------------------------------------------------------------
    def throw(self, exn, hs, env, dynamic=False):
        """hs: stack of (set of caught exceptions, continuation of the handler)"""
        if not hs:
            return f"({BU_S}, OExn {exn})"
        catch, hk = hs[-1]
        if not dynamic:
            return hk(env) if exn in catch else self.throw(exn, hs[:-1], env)
        arms = " | ".join(sorted(catch))
        return (f"match {exn} with\n| {arms} =>\n{textwrap.indent(hk(env), '    ')}\n| _ =>\n"
                f"{textwrap.indent(self.throw(exn, hs[:-1], env, True), '    ')}\nend")

    def awaited(self, oracle, k_val, hs, env):
        """the outcome of an await of something outside the translated methods"""
        return (f"match {oracle} with\n| AVal v =>\n{textwrap.indent(k_val, '    ')}\n"
                f"| ATimeoutError =>\n{textwrap.indent(self.throw('XTimeout', hs, env), '    ')}\n"
                f"| AOtherError =>\n{textwrap.indent(self.throw('XOther', hs, env), '    ')}\nend")

    # ---- calls of translated methods ----------------------------------------------------------------------------------
    def call(self, c, awaited, site, env):
        """Gallina application for self.<method>(...) -> term"""
        name = ast.unparse(c.func)[5:]
        is_async, params, kinds = self.sigs[name]
        if is_async != awaited:
            self.refuse(c, "coroutine called without await" if is_async else "await of a synchronous method")
        if name == "_command":
            # self._command("<name>", <the command's single request field>=e)
            if len(c.args) != 1 or not (isinstance(c.args[0], ast.Constant) and isinstance(c.args[0].value, str)) or len(c.keywords) != 1:
                self.refuse(c, "command call form")
            cmd, kw = c.args[0].value, c.keywords[0]
            for v, pcls in self.ctx["by_version"]:
                tx = pcls.COMMANDS.get(cmd, (None, None, None))[1]
                if not isinstance(tx, dict) or list(tx) != [kw.arg]:
                    self.refuse(c, f"EZSPv{v}.COMMANDS[{cmd!r}] does not take exactly the field {kw.arg}")
            self.ctx["commands"].add(cmd)
            args = [f'"{cmd}"%string', self.num(kw.value, env)]
        else:
            if c.keywords or len(c.args) != len(params):
                self.refuse(c, "arguments")
            args = []
            for a, (_, ty) in zip(c.args, params):
                t, got = self.ex(a, env)
                if got != ty:
                    self.refuse(a, f"argument type {got}, expected {ty}")
                args.append(t)
        names = self.sites[site] if awaited else []
        if len(names) != len(kinds):
            self.refuse(c, "await outcomes")
        return " ".join([f"py_EZSP_{name}_k ({BU_S})"] + args + names)

    def after_call(self, app, bind, k, hs, env):
        ok = (f"let l_{bind} := v in\n" if bind else "") + k(dict(env, **({bind: "N"} if bind else {})))
        return (f"let '({BU_S}, out) := {app} in\nmatch out with\n| OExn e =>\n{textwrap.indent(self.throw('e', hs, env, True), '    ')}\n"
                f"| ORet v =>\n{textwrap.indent(ok, '    ')}\nend")

    # ---- statements (continuation style) --------------------------------------------------------------------------------
    def seq(self, body, k, hs, env):
        if not body:
            return k(env)
        s, rest = body[0], body[1:]

        def nxt(env2):
            return self.seq(rest, k, hs, env2)
        src = ast.unparse(s)
        if isinstance(s, ast.Pass):
            return nxt(env)
        if isinstance(s, ast.Return):
            if s.value is None:
                return f"({BU_S}, ORet 0)"
            # return await command(*args, **kwargs)
            if isinstance(s.value, ast.Await) and _dump(ast.unparse(s.value.value)) == _dump("command(*args, **kwargs)") \
                    and env.get("command") == "handler" and env.get("args") == "argv" and env.get("kwargs") == "argv":
                (o,) = self.sites[id(s.value)]
                return (f"let eff := eff ++ [BCommand l_name l_arg l_command] in\n"
                        + self.awaited(o, f"({BU_S}, ORet v)", hs, env))
            self.refuse(s, "return value")
        if isinstance(s, ast.Raise):
            if isinstance(s.exc, ast.Call) and ast.unparse(s.exc.func) in BU_EXN and s.cause is None:
                return self.throw(BU_EXN[ast.unparse(s.exc.func)], hs, env)
            self.refuse(s, "raise")
        if isinstance(s, ast.If):
            a = self.seq(list(s.body), nxt, hs, env)
            b = self.seq(list(s.orelse), nxt, hs, env)
            return f"if {self.cond(s.test, env)} then\n{textwrap.indent(a, '  ')}\nelse\n{textwrap.indent(b, '  ')}"
        if isinstance(s, ast.Try):
            if s.finalbody or len(s.handlers) != 1 or s.handlers[0].name is not None or s.handlers[0].type is None \
                    or ast.unparse(s.handlers[0].type) not in BU_EXN:
                self.refuse(s, "try form")
            caught = {BU_EXN[ast.unparse(s.handlers[0].type)]}
            hbody = list(s.handlers[0].body)
            # exceptions of the handler and of the else block are not caught by this try
            hs2 = hs + [(caught, lambda env2: self.seq(hbody, nxt, hs, env2))]
            return self.seq(list(s.body), lambda env2: self.seq(list(s.orelse), nxt, hs, env2), hs2, env)
        if isinstance(s, ast.AsyncWith):
            if len(s.items) != 1 or s.items[0].optional_vars is not None or not self.is_async:
                self.refuse(s, "async with form")
            ce = s.items[0].context_expr
            if not (isinstance(ce, ast.Call) and ast.unparse(ce.func) == "asyncio_timeout" and len(ce.args) == 1 and not ce.keywords) \
                    or self.timeout is not None:
                self.refuse(s, "context manager")
            limit = self.const(ce.args[0])
            self.timeout = limit

            def leave(env2):
                self.timeout = None
                return nxt(env2)
            try:
                return self.seq(list(s.body), leave, hs, env)
            finally:
                self.timeout = None
        if isinstance(s, ast.Assign):
            if len(s.targets) != 1:
                self.refuse(s, "assignment")
            tgt, val = s.targets[0], s.value
            tsrc = ast.unparse(tgt)
            if tsrc == "self._ezsp_version":
                return f"let ezsp_v := {self.num(val, env)} in\n{nxt(env)}"
            if tsrc == "self._protocol":
                if not (isinstance(val, ast.Call) and not val.keywords and [ast.unparse(a) for a in val.args] == ["self.handle_callback", "self._gw"]):
                    self.refuse(s, "protocol handler construction")
                ctor = val.func
                if isinstance(ctor, ast.Subscript) and ast.unparse(ctor.value) == "self._BY_VERSION":
                    key = self.num(ctor.slice, env)
                    ok = f"let handler := cv in\nlet eff := eff ++ [BNewHandler cv] in\n{nxt(env)}"
                    return (f"match py_get {key} py_BY_VERSION with\n| Some cv =>\n{textwrap.indent(ok, '    ')}\n"
                            f"| None =>\n{textwrap.indent(self.throw('XKeyError', hs, env), '    ')}\nend")
                obj = self.ctx["module"]
                try:
                    for part in ast.unparse(ctor).split("."):
                        obj = getattr(obj, part)
                except AttributeError:
                    self.refuse(s, "unknown class")
                if not (isinstance(obj, type) and issubclass(obj, self.ctx["handler_base"])):
                    self.refuse(s, "not a protocol handler class")
                cv = self.const(ast.Attribute(value=ctor, attr="VERSION", ctx=ast.Load()))
                return f"let handler := {cv} in\nlet eff := eff ++ [BNewHandler {cv}] in\n{nxt(env)}"
            if isinstance(tgt, ast.Name):
                # command = getattr(self._protocol, name): the bound method of the handler object in use
                if _dump(src) == _dump("command = getattr(self._protocol, name)") and env.get("name") == "string":
                    body2 = nxt(dict(env, command="handler"))
                    return (f"if handler =? {BU_NO_HANDLER} then\n{textwrap.indent(self.throw('XNoHandler', hs, env), '  ')}\nelse\n"
                            f"  let l_command := handler in\n{textwrap.indent(body2, '  ')}")
                if env.get(tgt.id, "N") != "N":
                    self.refuse(s, "variable changes type")
                return f"let l_{tgt.id} := {self.num(val, env)} in\n{nxt(dict(env, **{tgt.id: 'N'}))}"
            if isinstance(tgt, ast.Tuple) and all(isinstance(x, ast.Name) for x in tgt.elts) and isinstance(val, ast.Await) \
                    and isinstance(val.value, ast.Call) and ast.unparse(val.value.func) == "self._command":
                app = self.call(val.value, True, id(val), env)
                cmd = val.value.args[0].value
                # the first response field is the value the oracle stands for; the others must stay unused
                first = tgt.elts[0].id
                for v, pcls in self.ctx["by_version"]:
                    rx = pcls.COMMANDS[cmd][2]
                    if not isinstance(rx, dict) or len(rx) != len(tgt.elts):
                        self.refuse(s, f"EZSPv{v}.COMMANDS[{cmd!r}] does not answer with {len(tgt.elts)} fields")
                    self.ctx["answers"].setdefault(cmd, set()).add(list(rx)[0])
                env2 = dict(env, **{x.id: "an unmodelled response field" for x in tgt.elts[1:]})
                return self.after_call(app, first, nxt, hs, env2)
            self.refuse(s, "assignment")
        if isinstance(s, ast.Expr):
            v = s.value
            awaited = isinstance(v, ast.Await)
            c = v.value if awaited else v
            if not isinstance(c, ast.Call):
                self.refuse(s)
            f = ast.unparse(c.func)
            if awaited and not self.is_async:
                self.refuse(s, "await in a synchronous method")
            if f in ("self._ezsp_event.set", "self._ezsp_event.clear") and not awaited and not c.args and not c.keywords:
                b = "true" if f.endswith(".set") else "false"
                return f"let running := {b} in\nlet eff := eff ++ [BRunning {b}] in\n{nxt(env)}"
            if awaited and f == "self._gw.reset" and not c.args and not c.keywords:
                (o,) = self.sites[id(v)]
                return f"let eff := eff ++ [BReset] in\n{self.awaited(o, nxt(env), hs, env)}"
            if awaited and f == "self._gw.wait_for_startup_reset" and not c.args and not c.keywords:
                (o,) = self.sites[id(v)]
                lim = f"(Some {self.timeout})" if self.timeout else "None"
                return f"let eff := eff ++ [BWaitStartupReset {lim}] in\n{self.awaited(o, nxt(env), hs, env)}"
            if f.startswith("self.") and f[5:] in self.sigs:
                return self.after_call(self.call(c, awaited, id(v), env), None, nxt, hs, env)
            self.refuse(s, "call with no modelled effect")
        self.refuse(s)


def _bu_method(ctx, sigs, name, want, params, extra=()):
    """translate EZSP.<name>; `params`: [(python parameter, emitted name, type)]"""
    cls = ctx["cls"]
    fn = cls.__dict__[name]
    src = textwrap.dedent(inspect.getsource(fn))
    node = ast.parse(src).body[0]
    is_async = isinstance(node, ast.AsyncFunctionDef)
    where = f"EZSP.{name} (source)"
    if node.decorator_list:
        raise GenError(where, "decorated")
    a = node.args
    got = [x.arg for x in a.posonlyargs + a.args] + (["*" + a.vararg.arg] if a.vararg else []) \
        + [x.arg for x in a.kwonlyargs] + (["**" + a.kwarg.arg] if a.kwarg else [])
    if got != ["self"] + want or a.defaults or any(d is not None for d in a.kw_defaults):
        raise GenError(where, f"parameters {got}, expected {['self'] + want}")
    tr = BuTr(where, ctx, sigs, is_async, extra)
    node = _StripLogs().visit(node)
    tr.scan_awaits(node)
    env = {}
    sig = []
    for py, _coq, ty in params:
        env[py] = ty
    if name == "_command":
        env.update(name="string", args="argv", kwargs="argv")
        sig = [("l_name", "string"), ("l_arg", "N")]
    else:
        sig = [(f"l_{py}", {"N": "N"}[ty]) for py, _coq, ty in params]
    sig += [(x, "bool") for x in extra]
    term = tr.seq(list(node.body), lambda env2: f"({BU_S}, ORet 0)", [], env)
    args = "".join(f" ({n} : {t})" for n, t in sig) + "".join(f" ({o} : await_ans)" for o, _ in tr.oracles)
    sigs[name] = (is_async, [(py, ty) for py, _c, ty in params] + [(x, "bool") for x in extra], [k for _, k in tr.oracles])
    return (f"(* from the source of EZSP.{name} *)\n"
            f"Definition py_EZSP_{name}_k (s : bu_state){args} : bu_result :=\n"
            f"  let '({BU_S}) := s in\n{textwrap.indent(term, '  ')}.\n\n")


def gen_bringup_fn() -> str:
    import bellows.ezsp as E
    import bellows.ezsp.protocol as P
    cls = E.EZSP
    by_version = [(int(k), v) for k, v in cls._BY_VERSION.items()]
    for k, pcls in by_version:
        if isinstance(k, bool) or not (isinstance(pcls, type) and issubclass(pcls, P.ProtocolHandler)) or not isinstance(pcls.VERSION, int) \
                or int(pcls.VERSION) == BU_NO_HANDLER or k == BU_NO_HANDLER:
            raise GenError("EZSP._BY_VERSION", f"entry {k!r}: {pcls!r}")
    if isinstance(E.EZSP_LATEST, bool) or not isinstance(E.EZSP_LATEST, int):
        raise GenError("bellows.ezsp.EZSP_LATEST", f"not an int: {E.EZSP_LATEST!r}")
    ctx = {"module": E, "cls": cls, "consts": {"py_EZSP_LATEST": int(E.EZSP_LATEST)}, "by_version": by_version, "commands": set(), "answers": {}, "handler_base": P.ProtocolHandler}
    sigs = {}
    fns = []
    fns.append(_bu_method(ctx, sigs, "stop_ezsp", [], []))
    fns.append(_bu_method(ctx, sigs, "start_ezsp", [], []))
    fns.append(_bu_method(ctx, sigs, "_switch_protocol_version", ["version"], [("version", "version", "N")]))
    fns.append(_bu_method(ctx, sigs, "_command", ["name", "*args", "**kwargs"], []))
    fns.append(_bu_method(ctx, sigs, "version", [], []))
    fns.append(_bu_method(ctx, sigs, "reset", [], []))
    fns.append(_bu_method(ctx, sigs, "startup_reset", [], [], extra=("tcp",)))
    # the commands issued: their id is the same in every handler class, the oracle stands for the first response field
    if ctx["commands"] != {"version"} or ctx["answers"] != {"version": {"protocolVersion"}}:
        raise GenError("EZSP bring-up", f"commands issued {sorted(ctx['commands'])}, answers read {ctx['answers']}")
    ids = {int(pcls.COMMANDS["version"][0]) for _, pcls in by_version}
    if len(ids) != 1:
        raise GenError("COMMANDS['version']", f"different ids {sorted(ids)}")
    # ---- connect: the handler in use before the first negotiation; __init__: the state before connect ----------------
    node = _StripLogs().visit(_fn_ast_async(cls.__dict__["connect"]))
    body = list(node.body)
    want = ["assert self._gw is None", "self._gw = await bellows.uart.connect(self._config, self, use_thread=use_thread)"]
    if len(body) != 3 or [_dump(ast.unparse(s)) for s in body[:2]] != [_dump(w) for w in want]:
        raise GenError("EZSP.connect (source)", "expected `assert self._gw is None; self._gw = await bellows.uart.connect(...); "
                       "self._protocol = <handler class>(...)`:\n" + "\n".join(ast.unparse(s) for s in body))
    tr = BuTr("EZSP.connect (source)", ctx, sigs, True, ())
    term = tr.seq(body[2:], lambda env2: f"({BU_S}, ORet 0)", [], {})
    fns.append("(* from the source of EZSP.connect (after `self._gw = await bellows.uart.connect(...)`, whose failure leaves no object) *)\n"
               f"Definition py_EZSP_connect_k (s : bu_state) : bu_result :=\n  let '({BU_S}) := s in\n{textwrap.indent(term, '  ')}.\n\n")
    init = _StripLogs().visit(_fn_ast(cls.__dict__["__init__"]))
    found = {}
    for n in ast.walk(init):
        tgts = n.targets if isinstance(n, ast.Assign) else [n.target] if isinstance(n, (ast.AugAssign, ast.AnnAssign)) else []
        for tg in tgts:
            for x in ast.walk(tg):
                if isinstance(x, ast.Attribute) and ast.unparse(x) in ("self._ezsp_version", "self._protocol", "self._ezsp_event"):
                    if ast.unparse(x) in found or n not in init.body or not isinstance(n, ast.Assign) or len(n.targets) != 1 or x is not tg:
                        raise GenError("EZSP.__init__ (source)", f"`{ast.unparse(n)}`: expected one plain top-level assignment of {ast.unparse(x)}")
                    found[ast.unparse(x)] = n.value
    if set(found) != {"self._ezsp_version", "self._protocol", "self._ezsp_event"}:
        raise GenError("EZSP.__init__ (source)", f"assignments found: {sorted(found)}")
    tr = BuTr("EZSP.__init__ (source)", ctx, sigs, False, ())
    v0 = tr.num(found["self._ezsp_version"], {})
    if not (isinstance(found["self._protocol"], ast.Constant) and found["self._protocol"].value is None):
        tr.refuse(found["self._protocol"], "initial protocol handler")
    if ast.unparse(found["self._ezsp_event"]) != "asyncio.Event()":
        tr.refuse(found["self._ezsp_event"], "initial event")
    # no other method of the class replaces the handler, changes the version or sets / clears the event
    writers = {"_ezsp_version": {"__init__", "_switch_protocol_version"}, "_protocol": {"__init__", "connect", "_switch_protocol_version"},
               "_ezsp_event": {"__init__", "start_ezsp", "stop_ezsp"}}
    cnode = ast.parse(textwrap.dedent(inspect.getsource(cls))).body[0]
    for m in cnode.body:
        if not isinstance(m, (ast.FunctionDef, ast.AsyncFunctionDef)):
            continue
        for n in ast.walk(m):
            if isinstance(n, ast.Attribute) and isinstance(n.value, ast.Name) and n.value.id == "self" and n.attr in writers:
                stored = isinstance(n.ctx, (ast.Store, ast.Del))
                if n.attr == "_ezsp_event":
                    stored = True       # any use other than is_set() in the property
                    if m.name == "is_ezsp_running":
                        stored = False
                if stored and m.name not in writers[n.attr]:
                    raise GenError(f"EZSP.{m.name} (source)", f"writes self.{n.attr}, which only {sorted(writers[n.attr])} are translated to do")
            if isinstance(n, ast.Call) and ast.unparse(n.func) in ("setattr", "delattr", "vars") or \
                    (isinstance(n, ast.Attribute) and n.attr == "__dict__"):
                raise GenError(f"EZSP.{m.name} (source)", "indirect attribute access")
    # ---- the handler object's sequence number (bellows/ezsp/protocol.py): initial value, successor, frame built first ---
    hinit = _StripLogs().visit(_fn_ast(P.ProtocolHandler.__dict__["__init__"]))
    seq_init = [n for n in ast.walk(hinit) if isinstance(n, (ast.Assign, ast.AugAssign)) and "self._seq" in
                [ast.unparse(t) for t in (n.targets if isinstance(n, ast.Assign) else [n.target])]]
    if len(seq_init) != 1 or seq_init[0] not in hinit.body or not isinstance(seq_init[0], ast.Assign) \
            or not isinstance(seq_init[0].value, ast.Constant) or type(seq_init[0].value.value) is not int or seq_init[0].value.value < 0:
        raise GenError("ProtocolHandler.__init__ (source)", "expected one top-level `self._seq = <int>`")
    hcmd = _StripLogs().visit(_fn_ast_async(P.ProtocolHandler.__dict__["command"]))
    seq_sets = [n for n in ast.walk(hcmd) if isinstance(n, (ast.Assign, ast.AugAssign)) and "self._seq" in
                [ast.unparse(t) for t in (n.targets if isinstance(n, ast.Assign) else [n.target])]]
    if len(seq_sets) != 1 or not isinstance(seq_sets[0], ast.Assign) or len(seq_sets[0].targets) != 1:
        raise GenError("ProtocolHandler.command (source)", "expected exactly one assignment of self._seq")
    blocks = [n.body for n in ast.walk(hcmd) if isinstance(getattr(n, "body", None), list) and seq_sets[0] in n.body]
    blk = blocks[0]
    i = blk.index(seq_sets[0])
    before = [ast.unparse(x) for x in blk[:i]]
    if "data = self._ezsp_frame(name, *args, **kwargs)" not in before:
        raise GenError("ProtocolHandler.command (source)", "the frame is no longer built before the sequence number advances (same block)")
    mt = MethodTr("ProtocolHandler.command (source)", {}, {"seq": "N"}, [])
    seq_next = mt.ex(ast.parse(ast.unparse(seq_sets[0].value).replace("self._seq", "seq"), mode="eval").body)
    for c in (P.ProtocolHandler,) + tuple(p for _, p in by_version):
        for klass in c.__mro__:
            if klass is not P.ProtocolHandler and ("command" in klass.__dict__ or "_seq" in klass.__dict__ or "_ezsp_frame" in klass.__dict__):
                raise GenError(f"{klass.__name__}", "overrides command / _ezsp_frame / _seq of ProtocolHandler")
    consts = "".join(f"Definition {n} : N := {v}.\n" for n, v in sorted(ctx["consts"].items()))
    head = ("(* GENERATED by harness/pysrc.py from the SOURCE TEXT of bellows/ezsp/__init__.py (EZSP bring-up) -- do not edit *)\n"
            "From Coq Require Import NArith List Bool String.\nImport ListNotations.\nOpen Scope N_scope.\n\n"
            "(* what a method may raise: asyncio.TimeoutError, EzspError, KeyError (dict lookup), AttributeError (getattr on None),\n"
            "   any other exception out of an awaited call *)\n"
            "Inductive bu_exn := XTimeout | XEzspError | XKeyError | XNoHandler | XOther.\n"
            "(* the outcome of an await of something outside the translated methods: its value (for the command `version`: the\n"
            "   first response field, protocolVersion), asyncio.TimeoutError, another exception *)\n"
            "Inductive await_ans := AVal (v : N) | ATimeoutError | AOtherError.\n"
            "Inductive bu_eff :=\n"
            "| BReset                                  (* await self._gw.reset(): the ASH reset handshake *)\n"
            "| BWaitStartupReset (limit : option N)    (* await self._gw.wait_for_startup_reset() [under asyncio_timeout(limit)] *)\n"
            "| BNewHandler (version : N)               (* self._protocol = <handler class with this VERSION>(self.handle_callback, self._gw) *)\n"
            "| BRunning (b : bool)                     (* self._ezsp_event.set() / .clear() *)\n"
            "| BCommand (name : string) (arg handler : N).  (* await <handler object>.<name>(<field>=arg); handler = its VERSION *)\n"
            "Inductive bu_out := ORet (v : N) | OExn (e : bu_exn).     (* returned (0 for None) | raised *)\n"
            f"(* state: self._ezsp_version, VERSION of self._protocol ({BU_NO_HANDLER} = None), self._ezsp_event is set, effects so far *)\n"
            "Definition bu_state := (N * N * bool * list bu_eff)%type.\n"
            "Definition bu_result := (N * N * bool * list bu_eff * bu_out)%type.\n\n"
            "Definition py_in (x : N) (keys : list N) : bool := existsb (N.eqb x) keys.\n"
            "Fixpoint py_get (x : N) (d : list (N * N)) : option N :=\n"
            "  match d with [] => None | (k, v) :: d' => if x =? k then Some v else py_get x d' end.\n\n"
            "(* EZSP._BY_VERSION of the live class: key -> VERSION of the handler class stored under it, in dict order *)\n"
            "Definition py_BY_VERSION : list (N * N) := [" + "; ".join(f"({k}, {int(p.VERSION)})" for k, p in by_version) + "].\n"
            "Definition py_BY_VERSION_keys : list N := map fst py_BY_VERSION.\n"
            "(* int constants of the live module the methods name *)\n" + consts +
            f"(* COMMANDS[\"version\"][0], the same in every handler class; its request is the single field desiredProtocolVersion *)\n"
            f"Definition py_version_cmd_id : N := {ids.pop()}.\n"
            "(* ProtocolHandler.__init__: self._seq = ...; ProtocolHandler.command: the frame is built, then self._seq = ... *)\n"
            f"Definition py_handler_seq_init : N := {seq_init[0].value.value}.\n"
            f"Definition py_handler_seq_next (seq : N) : N := {seq_next}.\n\n"
            f"(* from the source of EZSP.__init__: the assignments of _ezsp_version, _protocol (None), _ezsp_event (a new Event) *)\n"
            f"Definition py_EZSP_init : bu_state := ({v0}, {BU_NO_HANDLER}, false, []).\n\n")
    return head + "".join(fns)
